#!/usr/bin/env python3
"""Regenerates MANIFEST.json from checks.json + manifest_meta.json (claimed properties, texts)."""
import json, os
V = os.path.dirname(os.path.abspath(__file__))
cfg = json.load(open(os.path.join(V, "checks.json")))["properties"]
meta = json.load(open(os.path.join(V, "manifest_meta.json")))
props = [json.loads(l) for l in open(os.path.join(V, "properties.jsonl"))]
checks, na = [], []
for p in props:
    pid = p["id"]
    m = meta["checks"].get(pid)
    if pid in cfg and m and m.get("claimed", True):
        eng = cfg[pid].get("engine", "go")
        checks.append({
            "property_id": pid,
            "quick_cmd": "bin/check %s --tier quick" % pid,
            "thorough_cmd": "bin/check %s --tier thorough" % pid,
            "evidence_file": "/verif/evidence/%s.json" % pid,
            "replay_cmd_template": "bin/check %s --replay {path}" % pid,
            "engine": "go-rapid" if eng == "go" else "hypothesis-mpmath",
            "level_claimed": {"category": "exploration", "text": m["text"], "design_ref": m.get("design_ref", "DESIGN.md section 6, " + pid)},
            "level_note": m["note"],
            "technique": m["technique"],
        })
    else:
        na.append({"property_id": pid, "reason": (m or {}).get("na_reason", meta["default_na_reason"])})
man = {
    "version": 1,
    "setup_cmd": "bin/check --setup",
    "hooks": meta["hooks"],
    "engines": meta["engines"],
    "checks": checks,
    "notes": meta["notes"],
    "not_applicable": na,
}
json.dump(man, open(os.path.join(V, "MANIFEST.json"), "w"), indent=1)
print("claimed:", [c["property_id"] for c in checks])
print("not_applicable:", [n["property_id"] for n in na])
