"""C01 - automatic differentiation returns exact first and second derivatives.
Reference: second-order forward-mode jets written here, evaluated with mpmath at 60 digits; the
admissible rounding error of a float evaluation of the same program is estimated by re-running the
jets at the float's precision with a random relative perturbation of every intermediate result."""
import math
import random
import sys

import mpmath
from mpmath import mp, mpf
from hypothesis import strategies as st

from common import Violation, fhex, main, unhex

# ---------------------------------------------------------------------------------------------
# jets: (value, gradient, Hessian) with n variables


class Jet:
    __slots__ = ("v", "g", "h", "deps")

    def __init__(self, v, g, h, deps):
        self.v, self.g, self.h, self.deps = v, g, h, deps


def const(v, n):
    return Jet(v, [mpf(0)] * n, [[mpf(0)] * n for _ in range(n)], frozenset())


def var(v, i, n):
    j = const(v, n)
    j.g = list(j.g)
    j.g[i] = mpf(1)
    j.deps = frozenset([i])
    return j


class Domain(Exception):
    pass


def unary(a, f0, f1, f2, P, s1=0, s2=0, s0=0):
    """s1, s2: absolute scale of the ingredients of the textbook formula of f' and f'' (1 - tanh^2 is
    computed from quantities of size 1, whatever its own size)"""
    n = len(a.g)
    f1 = P(f1) + (P(mpf(1)) - 1) * s1
    f2 = P(f2) + (P(mpf(1)) - 1) * s2
    g = [P(f1 * a.g[i]) for i in range(n)]
    h = [[P(P(f2 * a.g[i] * a.g[j]) + P(f1 * a.h[i][j])) for j in range(n)] for i in range(n)]
    return Jet(P(f0) + (P(mpf(1)) - 1) * s0, g, h, a.deps)


def binary(a, b, f0, fa, fb, faa, fab, fbb, P, s0=0):
    """s0: absolute scale of the ingredients of the value (log(e^x +- e^y) is a sum of terms of the size of
    the operands, whatever its own size)"""
    n = len(a.g)
    g = [P(P(fa * a.g[i]) + P(fb * b.g[i])) for i in range(n)]
    h = [[P(P(P(faa * a.g[i] * a.g[j]) + P(fab * P(P(a.g[i] * b.g[j]) + P(b.g[i] * a.g[j]))) + P(fbb * b.g[i] * b.g[j])) + P(P(fa * a.h[i][j]) + P(fb * b.h[i][j])))
          for j in range(n)] for i in range(n)]
    return Jet(P(f0) + (P(mpf(1)) - 1) * s0, g, h, a.deps | b.deps)


def real(x):
    if isinstance(x, mpmath.mpc):
        if x.imag != 0:
            raise Domain()
        x = x.real
    if mp.isnan(x) or mp.isinf(x):
        raise Domain()
    return x


def sigmoid(x):
    return 1 / (1 + mp.exp(-x))


def op_unary(name, a, P):
    x = a.v
    if name == "Set":
        return Jet(a.v, list(a.g), [list(r) for r in a.h], a.deps)
    if name == "Neg":
        return unary(a, -x, mpf(-1), mpf(0), P)
    if name == "Abs":
        if x == 0:
            raise Domain()
        s = mpf(1) if x > 0 else mpf(-1)
        return unary(a, abs(x), s, mpf(0), P)
    if name == "Exp":
        e = mp.exp(x)
        return unary(a, e, e, e, P)
    if name == "Log":
        if x <= 0:
            raise Domain()
        return unary(a, mp.log(x), 1 / x, -1 / (x * x), P)
    if name == "Log1p":
        if x <= -1:
            raise Domain()
        return unary(a, mp.log1p(x), 1 / (1 + x), -1 / ((1 + x) ** 2), P)
    if name == "Log1pExp":
        s = sigmoid(x)
        return unary(a, mp.log1p(mp.exp(x)) if x < 50 else x + mp.log1p(mp.exp(-x)), s, s * (1 - s), P, 0, s)
    if name in ("Logistic", "Sigmoid"):
        s = sigmoid(x)
        return unary(a, s, s * (1 - s), s * (1 - s) * (1 - 2 * s), P, s, s)
    if name == "Sqrt":
        if x <= 0:
            raise Domain()
        r = mp.sqrt(x)
        return unary(a, r, 1 / (2 * r), -1 / (4 * r * x), P)
    if name == "Sin":
        return unary(a, mp.sin(x), mp.cos(x), -mp.sin(x), P)
    if name == "Cos":
        return unary(a, mp.cos(x), -mp.sin(x), -mp.cos(x), P)
    if name == "Tan":
        t = mp.tan(x)
        if abs(mp.cos(x)) < mpf(10) ** -6:
            raise Domain()
        return unary(a, t, 1 + t * t, 2 * t * (1 + t * t), P)
    if name == "Sinh":
        return unary(a, mp.sinh(x), mp.cosh(x), mp.sinh(x), P)
    if name == "Cosh":
        return unary(a, mp.cosh(x), mp.sinh(x), mp.cosh(x), P)
    if name == "Tanh":
        t = mp.tanh(x)
        return unary(a, t, 1 - t * t, -2 * t * (1 - t * t), P, 1, 2)
    if name == "Erf":
        d = 2 / mp.sqrt(mp.pi) * mp.exp(-x * x)
        return unary(a, mp.erf(x), d, -2 * x * d, P)
    if name == "Erfc":
        d = -2 / mp.sqrt(mp.pi) * mp.exp(-x * x)
        return unary(a, mp.erfc(x), d, -2 * x * d, P)
    if name == "LogErfc":
        e = mp.erfc(x)
        q = -2 / mp.sqrt(mp.pi) * mp.exp(-x * x) / e
        return unary(a, mp.log(e) if abs(x) > 1 else mp.log1p(-mp.erf(x)), q, -2 * x * q - q * q, P, 0, abs(2 * x * q) + q * q)
    if name == "Gamma":
        if x <= 0 and x == mp.floor(x):
            raise Domain()
        if abs(x) > 30:
            raise Domain()
        g = mp.gamma(x)
        p0, p1 = mp.digamma(x), mp.polygamma(1, x)
        return unary(a, g, g * p0, g * (p0 * p0 + p1), P)
    if name == "Lgamma":
        if x <= 0:
            raise Domain()
        # math.Lgamma of the Go library is accurate to a few 1e-15 absolute (about 18 units of 2^-52) near
        # its zeros at 1 and 2; the allowance must survive partial cancellation against the other
        # perturbations of the program
        return unary(a, mp.loggamma(x), mp.digamma(x), mp.polygamma(1, x), P, 0, 0, 8)
    raise KeyError(name)


def op_param(name, a, p, P):
    """operations with a plain numeric parameter"""
    x = a.v
    if name == "Mlgamma":
        k = int(p)
        if x <= mpf(k - 1) / 2 or x > 60:
            raise Domain()
        args = [x + mpf(1 - j) / 2 for j in range(1, k + 1)]
        terms = [mp.loggamma(t) for t in args]
        c = mpf(k * (k - 1)) / 4 * mp.log(mp.pi)
        return unary(a, c + sum(terms), sum(mp.digamma(t) for t in args), sum(mp.polygamma(1, t) for t in args), P,
                     sum(abs(mp.digamma(t)) for t in args), 0, k + abs(c) + sum(abs(t) for t in terms))
    if name == "GammaP":
        if x <= 0 or x > 60:
            raise Domain()
        f1 = mp.exp((p - 1) * mp.log(x) - x - mp.loggamma(p))
        return unary(a, mp.gammainc(p, 0, x, regularized=True), f1, f1 * ((p - 1) / x - 1), P, 0, f1 * (abs(p - 1) / x + 1))
    if name in ("BesselI", "LogBesselI"):
        if x <= mpf(1) / 16 or x > 30:
            raise Domain()
        i0 = mp.besseli(p, x)
        i1 = mp.besseli(p, x, derivative=1)
        i2 = mp.besseli(p, x, derivative=2)
        if name == "BesselI":
            return unary(a, i0, i1, i2, P, 16 * (abs(mp.besseli(p - 1, x)) + abs(p / x * i0)), 16 * i2, 16 * i0)
        l0 = mp.log(i0)
        r1 = i1 / i0
        # the coefficients are built from ratios exp(log I_{v-1} - log I_v) of special-function values,
        # which C13 grants 64 eps each
        amp = 16 * (1 + abs(l0))
        # the logarithm of a function computed to relative accuracy is accurate on the absolute scale max(1, |log|)
        return unary(a, l0, r1, i2 / i0 - r1 * r1, P, (abs(mp.besseli(p - 1, x) / i0) + abs(p / x)) * amp, (abs(i2 / i0) + r1 * r1) * amp, 1)
    raise KeyError(name)


def op_binary(name, a, b, P):
    x, y = a.v, b.v
    z = mpf(0)
    if name == "Add":
        return binary(a, b, x + y, mpf(1), mpf(1), z, z, z, P)
    if name == "Sub":
        return binary(a, b, x - y, mpf(1), mpf(-1), z, z, z, P)
    if name == "Mul":
        return binary(a, b, x * y, y, x, z, mpf(1), z, P)
    if name == "Div":
        if y == 0:
            raise Domain()
        return binary(a, b, x / y, 1 / y, -x / (y * y), z, -1 / (y * y), 2 * x / (y ** 3), P)
    if name == "Pow":
        if x <= 0:
            raise Domain()
        p = mp.power(x, y)
        lx = mp.log(x)
        return binary(a, b, p, y * p / x, p * lx, y * (y - 1) * p / (x * x), p / x * (1 + y * lx), p * lx * lx, P)
    if name in ("Min", "Max"):
        # a tie within rounding: either operand is a correct answer, their derivatives differ
        if abs(x - y) <= mpf(2) ** -40 * max(abs(x), abs(y)):
            raise Domain()
        first = (x < y) if name == "Min" else (x > y)
        return Jet(a.v, list(a.g), [list(r) for r in a.h], a.deps) if first else Jet(b.v, list(b.g), [list(r) for r in b.h], b.deps)
    if name == "LogAdd":
        m = max(x, y)
        f0 = m + mp.log(mp.exp(x - m) + mp.exp(y - m))
        pa, pb = mp.exp(x - f0), mp.exp(y - f0)
        return binary(a, b, f0, pa, pb, pa * pb, -pa * pb, pa * pb, P, max(abs(x), abs(y)) if mp.isfinite(max(abs(x), abs(y))) else 0)
    if name == "LogSub":
        if not x > y:
            raise Domain()
        f0 = x + mp.log1p(-mp.exp(y - x))
        pa, pb = mp.exp(x - f0), -mp.exp(y - f0)
        # f = log(e^x - e^y): f_x = e^x/D, f_y = -e^y/D, f_xx = -e^{x+y}/D^2, f_xy = e^{x+y}/D^2, f_yy = -e^{x+y}/D^2
        c = mp.exp(x + y - 2 * f0)
        return binary(a, b, f0, pa, pb, -c, c, -c, P, abs(x) + abs(f0 - x))
    raise KeyError(name)


def add_many(terms, n, P):
    r = const(mpf(0), n)
    for t in terms:
        r = op_binary("Add", r, t, P)
    return r


def op_vector(name, vec, vec2, alpha, n, P):
    if name == "VdotV":
        return add_many([op_binary("Mul", a, b, P) for a, b in zip(vec, vec2)], n, P)
    if name == "Vnorm":
        s = add_many([op_binary("Mul", a, a, P) for a in vec], n, P)
        return op_unary("Sqrt", s, P)
    if name == "Vmean":
        s = add_many(vec, n, P)
        return op_binary("Div", s, const(mpf(len(vec)), n), P)
    if name == "Mtrace":
        k = int(round(math.sqrt(len(vec))))
        return add_many([vec[i * k + i] for i in range(k)], n, P)
    if name == "LogSmoothMax":
        # defined in the log domain: exp( log sum x_i e^(alpha x_i) - log sum e^(alpha x_i) )
        if any(a.v <= 0 for a in vec):
            raise Domain()
        al = const(alpha, n)
        num = den = None
        for a in vec:
            t0 = op_binary("Mul", a, al, P)
            den = t0 if den is None else op_binary("LogAdd", den, t0, P)
            t1 = op_binary("Add", t0, op_unary("Log", a, P), P)
            num = t1 if num is None else op_binary("LogAdd", num, t1, P)
        return op_unary("Exp", op_binary("Sub", num, den, P), P)
    if name == "SmoothMax":
        al = const(alpha, n)
        ws = [op_unary("Exp", op_binary("Mul", al, a, P), P) for a in vec]
        num = add_many([op_binary("Mul", w, a, P) for w, a in zip(ws, vec)], n, P)
        den = add_many(ws, n, P)
        return op_binary("Div", num, den, P)
    raise KeyError(name)


UNARY = ["Set", "Neg", "Abs", "Exp", "Log", "Log1p", "Log1pExp", "Logistic", "Sigmoid", "Sqrt", "Sin", "Cos", "Tan", "Sinh", "Cosh", "Tanh",
         "Erf", "Erfc", "LogErfc", "Gamma", "Lgamma"]
BINARY = ["Add", "Sub", "Mul", "Div", "Pow", "Min", "Max", "LogAdd", "LogSub"]
PARAM = {"Mlgamma": [1.0, 2.0, 3.0], "GammaP": [0.5, 1.0, 2.5, 7.0], "BesselI": [0.0, 0.5, 1.0, 2.5, 3.0], "LogBesselI": [0.0, 0.5, 1.0, 2.5, 3.0]}
# operations that also exist as statically typed variants (ADD, MUL, ...)
CONCRETE = {"Abs", "Neg", "Add", "Sub", "Mul", "Div", "LogAdd", "LogSub", "Pow", "Sqrt", "Exp", "Log", "Log1p"}
VECTOR = ["VdotV", "Vnorm", "Vmean", "Mtrace", "SmoothMax", "LogSmoothMax"]


def evaluate(case, P, dps):
    """reference evaluation of the program; P perturbs every intermediate result"""
    with mp.workdps(dps):
        n = len(case["vars"])
        regs = [var(mpf(unhex(v)), i, n) for i, v in enumerate(case["vars"])]
        # single precision under- and overflows much earlier (squares of 1e-20 are lost)
        low, high = (mpf(10) ** -30, mpf(10) ** 8) if case["type"] == "Real64" else (mpf(10) ** -8, mpf(10) ** 6)
        low_, high_ = low, high
        if any(r.v != 0 and abs(r.v) < low for r in regs):
            raise Domain(0)

        def operand(kind, reg, val):
            if kind in ("const", "plain"):
                v = mpf(unhex(val))
                # constants obey the moderate range as well (-Inf is a legitimate operand of LogAdd/LogSub)
                if mp.isfinite(v) and v != 0 and not (low_ <= abs(v) <= high_):
                    raise Domain()
                return const(v, n)
            return regs[reg]
        for at, ins in enumerate(case["prog"]):
            try:
                op = ins["op"]
                if op in PARAM:
                    r = op_param(op, operand(ins["ka"], ins["a"], ins.get("va")), mpf(unhex(ins["vb"])), P)
                elif op in UNARY:
                    r = op_unary(op, operand(ins["ka"], ins["a"], ins.get("va")), P)
                elif op in BINARY:
                    r = op_binary(op, operand(ins["ka"], ins["a"], ins.get("va")), operand(ins["kb"], ins["b"], ins.get("vb")), P)
                else:
                    r = op_vector(op, [regs[i] for i in ins["vec"]], [regs[i] for i in ins.get("vec2") or []],
                                  mpf(unhex(ins["vb"])) if ins.get("vb") else None, n, P)
                # the moderate regime: intermediate values a float evaluation neither over- nor underflows
                # on (squares and reciprocals included)
                if abs(real(r.v)) > high or (r.v != 0 and abs(r.v) < low):
                    raise Domain()
                if any(x != 0 and abs(x) < low ** 2 for x in r.g) or any(abs(x) > high ** 2 for x in r.g):
                    raise Domain()
                if any(abs(x) > high ** 4 for row in r.h for x in row):
                    raise Domain()
                for x in r.g:
                    real(x)
                for row in r.h:
                    for x in row:
                        real(x)
                while ins["dst"] >= len(regs):
                    regs.append(None)
                regs[ins["dst"]] = r
            except Domain:
                raise Domain(at)
        return regs[case["prog"][-1]["dst"]]


def ident(x):
    return x


def perturber(rng, bits):
    u = mpf(2) ** -bits

    def P(x):
        return x * (1 + u * (2 * rng.random() - 1))
    return P


# ---------------------------------------------------------------------------------------------
# program generator

special_points = [0.0, 1.0, -1.0, 0.5, 2.0, -18.0, 18.0, 33.3, 33.4, -37.0, 40.0, 36.0, -40.0]


@st.composite
def programs(draw):
    rtype = draw(st.sampled_from(["Real64", "Real64", "Real32"]))
    order = draw(st.sampled_from([1, 2, 2]))
    n = draw(st.integers(1, 3))
    val = st.one_of(st.floats(-4, 4), st.floats(0.05, 6), st.sampled_from(special_points), st.integers(-3, 5).map(float))
    if rtype == "Real32":
        val = st.one_of(st.floats(-4, 4, width=32), st.floats(0.0625, 6, width=32), st.integers(-3, 5).map(float))
    vars_ = [draw(val) for _ in range(n)]
    # in-place branch probe (seed C01-6: Log1pExp negated its argument in place in the branch
    # 18 < x <= 33.3): a copy of a variable anywhere in [-41, 41] is overwritten by a branching unary
    # operation of itself, then the generic steps follow
    probe = rtype == "Real64" and draw(st.integers(0, 5)) == 0
    if probe:
        vars_[0] = draw(st.one_of(st.floats(-41, 41), st.floats(17, 34), st.sampled_from(special_points)))
    nreg = n
    prog = []
    if probe:
        pop = draw(st.sampled_from(["Log1pExp", "Logistic", "Sigmoid", "Tanh", "Log1pExp"]))
        prog.append({"op": "Set", "dst": n, "a": 0, "b": -1, "ka": "reg", "va": None, "cc": False})
        prog.append({"op": pop, "dst": n, "a": n, "b": -1, "ka": "reg", "va": None, "cc": False})
        nreg = n + 1
    steps = draw(st.integers(0 if probe else 1, 3 if probe else 7))
    for _ in range(steps):
        family = draw(st.sampled_from(["u", "u", "u", "b", "b", "b", "b", "v", "v", "p"]))
        # the receiver: a fresh register or an existing intermediate (temporaries are reused, the
        # receiver may be one of the operands)
        if nreg > n and draw(st.integers(0, 3)) == 0:
            dst = draw(st.integers(n, nreg - 1))
        else:
            dst = nreg

        def operand(allow_const=True):
            k = draw(st.sampled_from(["reg", "reg", "reg", "const", "plain"] if allow_const else ["reg"]))
            if k == "reg":
                return "reg", draw(st.integers(0, nreg - 1)), None
            return k, -1, fhex(draw(val))
        if family == "u":
            op = draw(st.sampled_from(UNARY))
            ka, a, va = operand(False)
            cc = op in CONCRETE and draw(st.booleans())
            prog.append({"op": op, "dst": dst, "a": a, "b": -1, "ka": ka, "va": va, "cc": cc})
        elif family == "p":
            op = draw(st.sampled_from(sorted(PARAM)))
            ka, a, va = operand(False)
            prog.append({"op": op, "dst": dst, "a": a, "b": -1, "ka": ka, "va": va, "vb": fhex(draw(st.sampled_from(PARAM[op])))})
        elif family == "b":
            op = draw(st.sampled_from(BINARY))
            ka, a, va = operand()
            kb, b, vb = operand()
            if op in ("LogAdd", "LogSub") and kb != "reg" and draw(st.integers(0, 3)) == 0:
                vb = fhex(float("-inf"))
            if op == "LogAdd" and ka != "reg" and kb == "reg" and draw(st.integers(0, 3)) == 0:
                va = fhex(float("-inf"))
            cc = op in CONCRETE and ka == "reg" and kb == "reg" and draw(st.booleans())
            prog.append({"op": op, "dst": dst, "a": a, "b": b, "ka": ka, "kb": kb, "va": va, "vb": vb, "cc": cc})
        else:
            op = draw(st.sampled_from(VECTOR))
            k = draw(st.integers(1, 3))
            if op == "Mtrace":
                k = draw(st.sampled_from([1, 4]))
            vec = [draw(st.integers(0, nreg - 1)) for _ in range(k)]
            ins = {"op": op, "dst": dst, "a": -1, "b": -1, "vec": vec}
            if op == "VdotV":
                ins["vec2"] = [draw(st.integers(0, nreg - 1)) for _ in range(k)]
            if op in ("SmoothMax", "LogSmoothMax"):
                ins["vb"] = fhex(draw(st.sampled_from([1.0, 2.0, 0.5, -1.0, 10.0])))
            prog.append(ins)
        nreg = max(nreg, dst + 1)
    # the variables may hold derivatives of an earlier computation when they are activated
    prior = draw(st.integers(0, 3)) == 0
    # ... possibly of another derivative order
    prior_order = draw(st.sampled_from([1, 2])) if prior else 0
    return {"type": rtype, "order": order, "vars": [fhex(v) for v in vars_], "prog": prog, "prior": prior, "prior_order": prior_order}


def describe(case):
    def opnd(k, r, v):
        return "r%d" % r if k == "reg" or k is None else ("%s(%r)" % (k, unhex(v)))
    parts = []
    for ins in case["prog"]:
        if "vec" in ins:
            parts.append("r%d=%s(%s%s%s)" % (ins["dst"], ins["op"], ins["vec"], ("," + str(ins["vec2"])) if ins.get("vec2") else "",
                                             (",alpha=%r" % unhex(ins["vb"])) if ins.get("vb") else ""))
        elif ins["op"] in PARAM:
            parts.append("r%d=%s(%r,%s)" % (ins["dst"], ins["op"], unhex(ins["vb"]), opnd(ins["ka"], ins["a"], ins.get("va"))))
        elif ins["b"] == -1 and ins.get("kb") is None:
            parts.append("r%d=%s(%s)" % (ins["dst"], ins["op"].upper() if ins.get("cc") else ins["op"], opnd(ins["ka"], ins["a"], ins.get("va"))))
        else:
            parts.append("r%d=%s(%s,%s)" % (ins["dst"], ins["op"].upper() if ins.get("cc") else ins["op"], opnd(ins["ka"], ins["a"], ins.get("va")), opnd(ins["kb"], ins["b"], ins.get("vb"))))
    return "%s order %d vars %s%s: %s" % (case["type"], case["order"], [unhex(v) for v in case["vars"]],
                                       (" (activated again after an in-place update of order %d)" % (case.get("prior_order") or case["order"])) if case.get("prior") else "", "; ".join(parts))


def check_program(case, srv, stats):
    desc = describe(case)
    n = len(case["vars"])
    bits = 52 if case["type"] == "Real64" else 23
    eps = 2.0 ** -bits
    truncated = False
    try:
        try:
            ref = evaluate(case, ident, 60)
        except Domain as d:
            # an operation left its domain (or the moderate range): the program up to it is checked
            at = d.args[0] if d.args else 0
            if at == 0:
                stats.case(desc, ["outside the domain of an operation (not evaluated)"], False)
                return
            case = dict(case, prog=case["prog"][:at])
            desc = describe(case)
            truncated = True
            ref = evaluate(case, ident, 60)
    except Domain:
        stats.case(desc, ["outside the domain of an operation (not evaluated)"], False)
        return
    except (ZeroDivisionError, OverflowError, ValueError, mpmath.libmp.NoConvergence):
        stats.case(desc, ["reference evaluation failed (not evaluated)"], False)
        return
    ops = sorted(set(i["op"] for i in case["prog"]))
    classes = ["type=" + case["type"], "order=%d" % case["order"], "n=%d" % n] + ["op=" + o for o in ops]
    if case.get("prior"):
        classes.append("variables activated again after an earlier computation")
        if (case.get("prior_order") or case["order"]) != case["order"]:
            classes.append("re-activation with another derivative order")
    if truncated:
        classes.append("program cut before an operation that leaves its domain")
    if any(i.get("cc") for i in case["prog"]):
        classes.append("statically typed variant (ADD, MUL, ...)")
    if any(i.get("vb") == "-Inf" or i.get("va") == "-Inf" for i in case["prog"]):
        classes.append("LogAdd/LogSub with -Inf")
    # values a float cannot hold: not asserted
    big = mpf(2) ** (900 if bits == 52 else 100)
    allv = [ref.v] + list(ref.g) + [x for row in ref.h for x in row]
    if any(abs(x) > big for x in allv):
        stats.case(desc, ["overflow range (not asserted)"], False)
        return
    # admissible rounding error: spread of perturbed evaluations at the float's precision
    spread_v, spread_g, spread_h = mpf(0), [mpf(0)] * n, [[mpf(0)] * n for _ in range(n)]
    rng = random.Random(12345)
    try:
        u = mpf(2) ** -bits
        # four random perturbations and the two one-sided ones (every intermediate result rounded up,
        # every one rounded down): an intermediate result that one rounding moves out of a domain
        # (erf(-4) is -1 in single precision, then Log1p) is found by the latter with certainty
        for P in [perturber(rng, bits) for _ in range(4)] + [lambda x: x * (1 + u), lambda x: x * (1 - u)]:
            s = evaluate(case, P, 60)
            spread_v = max(spread_v, abs(s.v - ref.v))
            for i in range(n):
                spread_g[i] = max(spread_g[i], abs(s.g[i] - ref.g[i]))
                for j in range(n):
                    spread_h[i][j] = max(spread_h[i][j], abs(s.h[i][j] - ref.h[i][j]))
    except (Domain, ZeroDivisionError, OverflowError, ValueError):
        stats.case(desc, ["at the boundary of a domain (perturbed evaluation leaves it)"], False)
        return
    resp = srv.ask({"k": "expr", "type": case["type"], "order": case["order"], "vars": case["vars"], "prog": case["prog"], "prior": bool(case.get("prior")),
                    "prior_order": int(case.get("prior_order") or 0)})
    if "panic" in resp or "died" in resp or "err" in resp:
        raise Violation("%s: the library failed: %s" % (desc, resp))
    if resp.get("helpers"):
        raise Violation("%s: the accessor functions disagree with GetDerivative/GetHessian: %s" % (desc, resp["helpers"]))
    got_v = unhex(resp["v"])
    got_g = [unhex(x) for x in resp["g"]]
    got_h = [unhex(x) for x in resp["h"]]
    tiny = mpf(2) ** (-1000 if bits == 52 else -120)

    def ok(got, want, spread):
        if math.isnan(got) or math.isinf(got):
            # a quantity whose rounding noise exceeds its size (the difference of two equal floats under a
            # square root, ...) is not well-conditioned: 0/0 is as good an answer as any
            return 64 * spread >= abs(want) and spread > 0
        return abs(mpf(got) - want) <= 64 * spread + 64 * eps * abs(want) + tiny

    if not ok(got_v, ref.v, spread_v):
        raise Violation("%s: value %r, reference %s (admissible rounding spread %s)" % (desc, got_v, mp.nstr(ref.v, 20), mp.nstr(spread_v, 3)))
    nontrivial = len(case["prog"]) >= 2 and len(ref.deps) >= 1
    for i in range(n):
        if i not in ref.deps:
            if got_g[i] != 0.0:
                raise Violation("%s: the result does not depend on variable %d but its derivative slot holds %r" % (desc, i, got_g[i]))
            continue
        if not ok(got_g[i], ref.g[i], spread_g[i]):
            raise Violation("%s: d/dx%d = %r, reference %s (admissible rounding spread %s)" % (desc, i, got_g[i], mp.nstr(ref.g[i], 20), mp.nstr(spread_g[i], 3)))
    if case["order"] >= 2:
        for i in range(n):
            for j in range(n):
                g = got_h[i * n + j]
                if g != got_h[j * n + i] and not (math.isnan(g) and math.isnan(got_h[j * n + i])):
                    raise Violation("%s: the Hessian is not symmetric: H[%d][%d] = %r, H[%d][%d] = %r" % (desc, i, j, g, j, i, got_h[j * n + i]))
                if i not in ref.deps or j not in ref.deps:
                    if g != 0.0:
                        raise Violation("%s: the result does not depend on variable %d or %d but H[%d][%d] = %r" % (desc, i, j, i, j, g))
                    continue
                if not ok(g, ref.h[i][j], spread_h[i][j]):
                    raise Violation("%s: d2/dx%d dx%d = %r, reference %s (admissible rounding spread %s)" % (
                        desc, i, j, g, mp.nstr(ref.h[i][j], 20), mp.nstr(spread_h[i][j], 3)))
    if any(i not in ref.deps for i in range(n)):
        classes.append("independent variable (exact zero slots)")
    if any(ins.get("ka") in ("const", "plain") or ins.get("kb") in ("const", "plain") for ins in case["prog"]):
        classes.append("constant / plain operands mixed in")
    if any(ins["dst"] in (ins.get("a"), ins.get("b")) or ins["dst"] in (ins.get("vec") or []) for ins in case["prog"]):
        classes.append("receiver is one of its operands")
    if len(set(i["dst"] for i in case["prog"])) < len(case["prog"]):
        classes.append("temporary reused")
    if len(case["prog"]) >= 2 and case["prog"][0]["op"] == "Set" and case["prog"][1]["dst"] == case["prog"][1].get("a") == case["prog"][0]["dst"]:
        classes.append("in-place branch probe")
    stats.case(desc, classes, nontrivial)


def check_sweep(case, srv, stats):
    import os
    try:
        check_program(case, srv, stats)
    except Violation as v:
        if not os.environ.get("VERIF_SWEEP"):
            raise
        ops = "+".join(sorted(set(i["op"] for i in case["prog"])))
        stats.case(str(v)[:300], ["FAIL " + ops], False)


ASPECTS = {"expr_derivatives": (programs(), check_sweep)}
def _expr(srv, rtype, order, vars_, prog, prior=False):
    return srv.ask({"k": "expr", "type": rtype, "order": order, "vars": [fhex(v) for v in vars_], "prog": prog, "prior": prior})


def _u(op, a=0, dst=None, **kw):
    d = {"op": op, "dst": a + 1 if dst is None else dst, "a": a, "b": -1, "ka": "reg"}
    d.update(kw)
    return d


def _bad(x):
    return math.isnan(x) or math.isinf(x)


def w_setvariable_stale(srv):
    r = _expr(srv, "Real64", 1, [3.0, 5.0], [_u("Set", 0, 2)], prior=True)
    g = [unhex(x) for x in r["g"]]
    return "C01/setvariable-stale-derivatives", g != [1.0, 0.0], "gradient of x0 after activating it again: %r" % g


def w_logerfc_large(srv):
    r = _expr(srv, "Real64", 2, [33.3], [_u("LogErfc")])
    g, h = unhex(r["g"][0]), unhex(r["h"][0])
    return "C01/logerfc-derivatives-nan-for-large-x", _bad(g) or abs(g + 66.63000300971957) > 1e-9 or abs(h + 1.9991006279159658) > 1e-6, "LogErfc(33.3): d = %r, d2 = %r" % (g, h)


def w_logistic_negative(srv):
    r = _expr(srv, "Real64", 2, [-800.0], [_u("Logistic")])
    g, h = unhex(r["g"][0]), unhex(r["h"][0])
    return "C01/logistic-derivatives-nan-below-minus-709", _bad(g) or _bad(h), "Logistic(-800): d = %r, d2 = %r" % (g, h)


def w_scalar_logsub(srv):
    prog = [{"op": "LogSub", "dst": 1, "a": -1, "b": -1, "ka": "plain", "kb": "plain", "va": fhex(6.103515625e-05), "vb": fhex(-2.4786283771902067e-78)}]
    r = _expr(srv, "Real64", 1, [1.0], prog)
    v = unhex(r["v"])
    return "C01/scalar-logsub-cancellation", _bad(v) or abs(v + 9.704030010105888902743) > 1e-13, "LogSub(6.1e-5, -2.5e-78) = %r" % v


def w_logbesseli_d2(srv):
    r = _expr(srv, "Real64", 2, [1.0], [_u("LogBesselI", vb=fhex(0.5))])
    h = unhex(r["h"][0])
    return "C01/logbesseli-second-derivative-nan", _bad(h) or abs(h + 0.22406166096631046641) > 1e-9, "LogBesselI(0.5, 1): d2 = %r" % h


def w_mlgamma_small(srv):
    r = _expr(srv, "Real64", 1, [1.6837223962243098e-06], [_u("Mlgamma", vb=fhex(1.0))])
    v = unhex(r["v"])
    return "C01/mlgamma-small-argument", _bad(v) or abs(v - 13.2945025317122251577867592493) > 1e-12, "Mlgamma(1.68e-6, 1) = %r" % v


def w_smoothmax_overflow(srv):
    prog = [{"op": "SmoothMax", "dst": 2, "a": -1, "b": -1, "vec": [0, 1], "vb": fhex(10.0)}]
    r = _expr(srv, "Real64", 1, [100.0, 3.0], prog)
    v = unhex(r["v"])
    return "C01/smoothmax-exponent-overflow", _bad(v) or abs(v - 100.0) > 1e-9, "SmoothMax([100, 3], alpha = 10) = %r" % v


WITNESSES = {
    "setvariable_stale": w_setvariable_stale,
    "logerfc_large": w_logerfc_large,
    "logistic_negative": w_logistic_negative,
    "scalar_logsub": w_scalar_logsub,
    "logbesseli_d2": w_logbesseli_d2,
    "mlgamma_small": w_mlgamma_small,
    "smoothmax_overflow": w_smoothmax_overflow,
}

if __name__ == "__main__":
    sys.exit(main(ASPECTS, WITNESSES))
