"""C14: probability distributions are proper and consistent.

The library's scalar distributions are evaluated through the evaluation server; the references are
the textbook formulas of each family written with mpmath, scipy.stats quantile functions place the
evaluation points and the quadrature panels (they are not the oracle of any value)."""
import math
import sys

import mpmath
import numpy as np
from mpmath import mp, mpf
from scipy import stats as ss
from hypothesis import strategies as st

from common import Violation, fhex, unhex, main

INF = float("inf")


# ---------------------------------------------------------------------------------------------
# strategies

def logu(lo, hi):
    return st.floats(math.log(lo), math.log(hi)).map(math.exp)


loc_ = st.one_of(st.floats(-5, 5).filter(lambda v: v == 0 or abs(v) > 1e-6), st.integers(-3, 3).map(float))
scale = st.one_of(logu(0.05, 20), st.sampled_from([1.0, 0.5, 2.0]))
shape = st.one_of(logu(0.2, 20), st.sampled_from([1.0, 0.5, 2.0, 3.0]))
shape_gt1 = st.one_of(logu(1.05, 20), st.sampled_from([2.0, 3.0, 1.5]))
prob = st.one_of(st.floats(0.01, 0.99), st.sampled_from([0.5, 0.25, 0.9]))
# |xi| below 1e-3 other than 0 is left out: (1 + xi z)^(-1/xi) loses its digits there (and overflows for denormal xi)
xi_s = st.one_of(st.floats(1e-3, 1.5), st.floats(-1.5, -1e-3), st.sampled_from([0.0, 0.0, 0.5, -0.5, 1.0, -1.0]))


def lg(x):
    return mp.loggamma(x)


# Each family: params strategy, scipy frozen distribution (for quantiles), discrete?, support(p) -> (lo, hi),
# logpdf terms(p, x) (list of mp terms whose sum is the log density inside the support), cdf(p, x) or None,
# invalid parameter vectors.
class Fam:
    def __init__(self, name, params, frozen, terms, support, cdf=None, discrete=False, invalid=(), closed=(True, True), normalised=True):
        self.name, self.params, self.frozen, self.terms, self.support = name, params, frozen, terms, support
        self.cdf, self.discrete, self.invalid, self.closed, self.normalised = cdf, discrete, list(invalid), closed, normalised


def _gp_support(p):
    mu, s, xi = p
    return (mu, INF) if xi >= 0 else (mu, mu - s / xi)


def _gp_terms(p, x):
    mu, s, xi = map(mpf, p)
    z = (x - mu) / s
    if xi == 0:
        return [-z, -mp.log(s)]
    return [(-1 / xi - 1) * mp.log1p(xi * z), -mp.log(s)]


def _gp_cdf(p, x):
    mu, s, xi = map(mpf, p)
    z = (x - mu) / s
    if xi == 0:
        return 1 - mp.exp(-z)
    return 1 - mp.exp(-mp.log1p(xi * z) / xi)


def _gev_support(p):
    mu, s, xi = p
    if xi == 0:
        return (-INF, INF)
    b = mu - s / xi
    return (b, INF) if xi > 0 else (-INF, b)


def _gev_t(p, x):
    mu, s, xi = map(mpf, p)
    z = (x - mu) / s
    if xi == 0:
        return mp.exp(-z), -z
    l = mp.log1p(xi * z)
    return mp.exp(-l / xi), -l / xi


def _gev_terms(p, x):
    t, logt = _gev_t(p, x)
    return [(mpf(p[2]) + 1) * logt, -t, -mp.log(mpf(p[1]))]


def _gev_cdf(p, x):
    t, _ = _gev_t(p, x)
    return mp.exp(-t)


FAMILIES = [
    Fam("normal", st.tuples(loc_, scale), lambda p: ss.norm(p[0], p[1]),
        lambda p, x: [-mp.log(2 * mp.pi) / 2, -mp.log(mpf(p[1])), -((x - mpf(p[0])) / mpf(p[1])) ** 2 / 2],
        lambda p: (-INF, INF), cdf=lambda p, x: mp.erfc(-(x - mpf(p[0])) / (mpf(p[1]) * mp.sqrt(2))) / 2,
        invalid=[(0.0, 0.0), (1.0, -1.0)]),
    Fam("laplace", st.tuples(loc_, scale), lambda p: ss.laplace(p[0], p[1]),
        lambda p, x: [-abs(x - mpf(p[0])) / mpf(p[1]), -mp.log(2 * mpf(p[1]))],
        lambda p: (-INF, INF),
        cdf=lambda p, x: mp.exp((x - mpf(p[0])) / mpf(p[1])) / 2 if x < p[0] else 1 - mp.exp(-(x - mpf(p[0])) / mpf(p[1])) / 2,
        invalid=[(0.0, 0.0), (1.0, -2.0)]),
    Fam("pareto", st.tuples(scale, shape), lambda p: ss.pareto(p[1], scale=p[0]),
        lambda p, x: [mp.log(mpf(p[1])), mpf(p[1]) * mp.log(mpf(p[0])), -(mpf(p[1]) + 1) * mp.log(x)],
        lambda p: (p[0], INF), cdf=lambda p, x: 1 - (mpf(p[0]) / x) ** mpf(p[1]),
        invalid=[(0.0, 1.0), (-1.0, 1.0), (1.0, 0.0), (1.0, -1.0)]),
    Fam("gpareto", st.tuples(loc_, scale, xi_s), lambda p: ss.genpareto(p[2], loc=p[0], scale=p[1]),
        _gp_terms, _gp_support, cdf=_gp_cdf, invalid=[(0.0, 0.0, 0.5), (0.0, -1.0, 0.5)]),
    Fam("gev", st.tuples(loc_, scale, xi_s), lambda p: ss.genextreme(-p[2], loc=p[0], scale=p[1]),
        _gev_terms, _gev_support, cdf=_gev_cdf, closed=(False, False), invalid=[(0.0, 0.0, 0.5), (0.0, -1.0, 0.5)]),
    Fam("gamma", st.tuples(shape, scale), lambda p: ss.gamma(p[0], scale=1 / p[1]),
        lambda p, x: [mpf(p[0]) * mp.log(mpf(p[1])), -lg(mpf(p[0])), (mpf(p[0]) - 1) * mp.log(x), -mpf(p[1]) * x],
        lambda p: (0.0, INF), cdf=lambda p, x: mp.gammainc(mpf(p[0]), 0, mpf(p[1]) * x, regularized=True), closed=(False, True),
        invalid=[(0.0, 1.0), (-1.0, 1.0), (1.0, 0.0), (1.0, -1.0)]),
    Fam("beta", st.tuples(shape, shape), lambda p: ss.beta(p[0], p[1]),
        lambda p, x: [lg(mpf(p[0]) + mpf(p[1])), -lg(mpf(p[0])), -lg(mpf(p[1])), (mpf(p[0]) - 1) * mp.log(x), (mpf(p[1]) - 1) * mp.log1p(-x)],
        lambda p: (0.0, 1.0), closed=(False, False), invalid=[(0.0, 1.0), (1.0, 0.0), (-1.0, 2.0)]),
    Fam("binomial", st.tuples(prob, st.integers(0, 40).map(float)), lambda p: ss.binom(int(p[1]), p[0]),
        lambda p, x: [lg(mpf(p[1]) + 1), -lg(x + 1), -lg(mpf(p[1]) - x + 1), x * mp.log(mpf(p[0])), (mpf(p[1]) - x) * mp.log1p(-mpf(p[0]))],
        lambda p: (0.0, p[1]), discrete=True, invalid=[(-0.1, 5.0), (1.1, 5.0), (0.5, -1.0)]),
    Fam("negative binomial", st.tuples(shape, prob), lambda p: ss.nbinom(p[0], 1 - p[1]),
        lambda p, x: [lg(mpf(p[0]) + x), -lg(x + 1), -lg(mpf(p[0])), x * mp.log(mpf(p[1])), mpf(p[0]) * mp.log1p(-mpf(p[1]))],
        lambda p: (0.0, INF), discrete=True, invalid=[(0.0, 0.5), (-1.0, 0.5), (1.0, -0.1), (1.0, 1.1)]),
    Fam("poisson", st.tuples(logu(0.05, 60)), lambda p: ss.poisson(p[0]),
        lambda p, x: [x * mp.log(mpf(p[0])), -mpf(p[0]), -lg(x + 1)],
        lambda p: (0.0, INF), discrete=True, invalid=[(-1.0,), (0.0,)]),
    Fam("geometric", st.tuples(prob), lambda p: ss.geom(p[0], loc=-1),
        lambda p, x: [x * mp.log1p(-mpf(p[0])), mp.log(mpf(p[0]))],
        lambda p: (0.0, INF), discrete=True, invalid=[(0.0,), (-0.5,), (1.5,)]),
    Fam("cauchy", st.tuples(loc_, scale), lambda p: ss.cauchy(p[0], p[1]),
        lambda p, x: [-mp.log(mp.pi), mp.log(mpf(p[1])), -mp.log((x - mpf(p[0])) ** 2 + mpf(p[1]) ** 2)],
        lambda p: (-INF, INF), invalid=[(0.0, 0.0), (0.0, -1.0)]),
    Fam("chi-squared", st.tuples(st.one_of(logu(0.3, 40), st.integers(1, 30).map(float))), lambda p: ss.chi2(p[0]),
        lambda p, x: [-(mpf(p[0]) / 2) * mp.log(2), -lg(mpf(p[0]) / 2), (mpf(p[0]) / 2 - 1) * mp.log(x), -x / 2],
        lambda p: (0.0, INF), cdf=lambda p, x: mp.gammainc(mpf(p[0]) / 2, 0, x / 2, regularized=True), closed=(False, True),
        invalid=[(0.0,), (-2.0,)]),
    Fam("exponential", st.tuples(scale), lambda p: ss.expon(scale=1 / p[0]),
        lambda p, x: [mp.log(mpf(p[0])), -mpf(p[0]) * x],
        lambda p: (0.0, INF), cdf=lambda p, x: -mp.expm1(-mpf(p[0]) * x), invalid=[(0.0,), (-1.0,)]),
    Fam("generalized gamma", st.tuples(scale, shape, shape), lambda p: ss.gengamma(p[1] / p[2], p[2], scale=p[0]),
        lambda p, x: [mp.log(mpf(p[2])), -mpf(p[1]) * mp.log(mpf(p[0])), -lg(mpf(p[1]) / mpf(p[2])), (mpf(p[1]) - 1) * mp.log(x), -(x / mpf(p[0])) ** mpf(p[2])],
        lambda p: (0.0, INF), closed=(False, True), invalid=[(0.0, 1.0, 1.0), (1.0, 0.0, 1.0), (1.0, 1.0, 0.0), (1.0, -1.0, 1.0)]),
    Fam("power law", st.tuples(shape_gt1, scale), lambda p: ss.pareto(p[0] - 1, scale=p[1]),
        lambda p, x: [mp.log(mpf(p[0]) - 1), -mp.log(mpf(p[1])), -mpf(p[0]) * mp.log(x / mpf(p[1]))],
        lambda p: (p[1], INF), cdf=lambda p, x: 1 - (x / mpf(p[1])) ** (1 - mpf(p[0])),
        invalid=[(0.0, 1.0), (-1.0, 1.0), (0.5, 1.0), (1.0, 1.0), (2.0, 0.0), (2.0, -1.0)]),
]


@st.composite
def categorical_params(draw):
    k = draw(st.integers(1, 6))
    w = [draw(st.floats(0.01, 1.0)) for _ in range(k)]
    s = sum(w)
    return tuple(x / s for x in w)


def _cat_frozen(p):
    q = np.array(p) / np.sum(p)
    return ss.rv_discrete(values=(np.arange(len(p)), q))


class _LogOf:
    """quantiles of log X for X ~ frozen"""
    def __init__(self, fr):
        self.fr = fr

    def ppf(self, u):
        with np.errstate(all="ignore"):
            return np.log(self.fr.ppf(u))


# the beta density evaluated at exp(x) (constructor flag logScale): a reparametrised argument, not a density in x
FAMILIES.append(Fam("beta(logscale)", st.tuples(shape, shape), lambda p: _LogOf(ss.beta(p[0], p[1])),
                    lambda p, x: [lg(mpf(p[0]) + mpf(p[1])), -lg(mpf(p[0])), -lg(mpf(p[1])), (mpf(p[0]) - 1) * x, (mpf(p[1]) - 1) * mp.log(-mp.expm1(x))],
                    lambda p: (-INF, 0.0), closed=(False, False), invalid=[(0.0, 1.0), (1.0, 0.0), (-1.0, 2.0)], normalised=False))
FAMILIES.append(Fam("categorical", categorical_params(), _cat_frozen,
                    lambda p, x: [mp.log(mpf(p[int(x)]))], lambda p: (0.0, float(len(p) - 1)),
                    cdf=lambda p, x: mp.fsum(mpf(v) for v in p[:int(x) + 1]), discrete=True, invalid=[(0.5, -0.5, 1.0), (-1.0,)]))
FAM = {f.name: f for f in FAMILIES}


# ---------------------------------------------------------------------------------------------
# server access

def ask(srv, family, p, op, xs, ptype="Float64", wrap="", rinit=0.0, wc=0.0, other=None):
    req = {"k": "dist", "family": (wrap + ":" if wrap else "") + family, "type": ptype, "params": [fhex(v) for v in p], "op": op,
           "x": [fhex(x) for x in xs], "args": [fhex(rinit), fhex(wc)], "other": [fhex(v) for v in (other or p)]}
    return srv.ask(req)


def values(resp, what):
    if "panic" in resp or "died" in resp or "err" in resp:
        raise Violation("%s: the library failed: %s" % (what, str(resp)[:300]))
    if "rejected" in resp:
        raise Violation("%s: valid parameters were rejected: %s" % (what, resp["rejected"]))
    return [unhex(v) for v in resp["r"]]


# ---------------------------------------------------------------------------------------------
# generators

@st.composite
def formula_cases(draw):
    fam = draw(st.sampled_from(FAMILIES))
    p = tuple(float(v) for v in draw(fam.params))
    ptype = draw(st.sampled_from(["Float64", "Real64"]))
    wrap = draw(st.sampled_from(["", "", "clone", "setget", "set", "cloneindep"]))
    other = tuple(float(v) for v in draw(fam.params))
    if fam.name == "categorical":
        # the number of categories of an object is fixed
        other = tuple(p[1:] + p[:1])
    rinit = draw(st.sampled_from([0.0, 0.0, 1.0, -3.5, 7.25, 1e6]))
    us = [draw(st.one_of(st.floats(1e-9, 1 - 1e-9), st.sampled_from([1e-12, 1e-6, 0.5, 1 - 1e-6]))) for _ in range(draw(st.integers(1, 5)))]
    # displacement used to leave the support
    outs = [draw(logu(1e-6, 50)) for _ in range(3)]
    frac = draw(st.floats(0.05, 0.95))
    return {"family": fam.name, "p": list(p), "ptype": ptype, "wrap": wrap, "other": list(other), "rinit": rinit, "us": us, "outs": outs, "frac": frac}


def inside_points(fam, p, us):
    fr = fam.frozen(p)
    xs = []
    for u in us:
        x = float(fr.ppf(u))
        if math.isnan(x) or math.isinf(x):
            continue
        xs.append(x)
    lo, hi = fam.support(p)
    good = []
    for x in xs:
        if fam.discrete:
            x = float(round(x))
            if x < lo or x > hi:
                continue
        else:
            # strictly inside, away from the end points by more than rounding
            if not (x > lo and x < hi):
                continue
            if lo != -INF and x - lo <= 1e-9 * max(1.0, abs(lo)):
                continue
            if hi != INF and hi - x <= 1e-9 * max(1.0, abs(hi)):
                continue
        good.append(x)
    return good


def outside_points(fam, p, outs, frac):
    lo, hi = fam.support(p)
    r = []
    if lo != -INF:
        for d in outs[:2]:
            x = lo - d * max(1.0, abs(lo) * 1e-3)
            r.append(float(math.floor(x)) if fam.discrete else x)
    if hi != INF:
        for d in outs[1:]:
            x = hi + d * max(1.0, abs(hi) * 1e-3)
            r.append(float(math.ceil(x)) if fam.discrete else x)
    if fam.discrete:
        r = [x for x in r if x < lo or x > hi]
        r.append(float(int(outs[0]) % 7) + frac)   # not an integer
    return [x for x in r if x < lo or x > hi or (fam.discrete and x != math.floor(x))]


def describe(case):
    return "%s%s(%s) [%s]%s" % ((case.get("wrap") + ":") if case.get("wrap") else "", case["family"], ", ".join(repr(v) for v in case["p"]), case.get("ptype", "Float64"),
                               (" result scalar holds %r" % case["rinit"]) if case.get("rinit") else "")


def ref_logpdf(fam, p, x):
    """value, size of the terms, and the change of the value under one rounding of the argument or of a
    parameter (next to an end of the support the log-density is ill-conditioned in all of them)"""
    with mp.workdps(40):
        terms = fam.terms(p, mpf(x))
        v = mp.fsum(terms)
        u = mpf(2) ** -52
        cond = mpf(0)
        try:
            for d in (1 + u, 1 - u):
                cond = max(cond, abs(mp.fsum(fam.terms(p, mpf(x) * d)) - v))
                if fam.name != "categorical":
                    for i in range(len(p)):
                        if fam.name == "binomial" and i == 1:
                            continue
                        q = [mpf(t) for t in p]
                        q[i] = q[i] * d
                        cond = max(cond, abs(mp.fsum(fam.terms(q, mpf(x))) - v))
        except (ValueError, ZeroDivisionError, TypeError):
            cond = mp.inf
        if isinstance(cond, mpmath.mpc) or cond != cond:
            cond = mp.inf
        return v, 1 + mp.fsum(abs(t) for t in terms), cond


# ---------------------------------------------------------------------------------------------
# aspect 1: log-density against the textbook formula, -Inf outside the support, parameter plumbing

def check_formula(case, srv, stats):
    fam = FAM[case["family"]]
    p = tuple(case["p"])
    desc = describe(case)
    classes = ["family=" + fam.name, "ptype=" + case["ptype"], "wrap=" + (case["wrap"] or "none")]
    if case["rinit"]:
        classes.append("result scalar not fresh")
    ins = inside_points(fam, p, case["us"])
    outs = outside_points(fam, p, case["outs"], case["frac"])
    if ins:
        got = values(ask(srv, fam.name, p, "logpdf", ins, case["ptype"], case["wrap"], case["rinit"], 0.0, case["other"]), desc)
        for x, g in zip(ins, got):
            ref, sc, cond = ref_logpdf(fam, p, x)
            if cond == mp.inf:
                classes.append("within one rounding of an end of the support (not asserted)")
                continue
            if cond > mpf(10) ** -13 * sc:
                classes.append("ill-conditioned point next to an end of the support")
            if math.isnan(g) or abs(mpf(g) - ref) > mpf(10) ** -11 * sc * 4 + 16 * cond:
                kf = known_formula(fam.name, p, x, case)
                if kf and stats.known(kf, desc):
                    classes.append("known finding " + kf)
                    continue
                raise Violation("%s: LogPdf(%r) = %r, the textbook log-density is %s" % (desc, x, g, mp.nstr(ref, 17)))
        classes.append("inside the support")
    if outs:
        resp = ask(srv, fam.name, p, "logpdf", outs, case["ptype"], case["wrap"], case["rinit"], 0.0, case["other"])
        if "panic" in resp or "died" in resp:
            raise Violation("%s: LogPdf outside the support %r: the library failed: %s" % (desc, outs, str(resp)[:300]))
        got = values(resp, desc)
        for x, g in zip(outs, got):
            if g == -INF:
                continue
            if math.isnan(g) and resp.get("evalerr"):
                continue   # refused with an error
            raise Violation("%s: LogPdf(%r) = %r outside the support %r (expected -Inf)" % (desc, x, g, fam.support(p)))
        classes.append("outside the support")
        if any(x != math.floor(x) for x in outs):
            classes.append("non-integer argument of a discrete family")
    stats.case(desc + " x=%r" % (ins + outs), classes, bool(ins) and bool(outs or fam.support(p) == (-INF, INF)))


def known_formula(name, p, x, case):
    return None


# ---------------------------------------------------------------------------------------------
# aspect 2: the density integrates / sums to one (no reference formula involved)

GL_X, GL_W = np.polynomial.legendre.leggauss(12)
U_GRID = np.concatenate([10.0 ** np.arange(-13, -2.1, 0.25), np.arange(0.01, 0.995, 0.005), 1 - 10.0 ** np.arange(-2.25, -13.1, -0.25)])


def quadrature(fam, p, us):
    """Gauss-Legendre nodes and weights over the panels between the reference quantiles of the probabilities us
    (so the panels follow the mass); panels that span more than a factor 3 in the distance to an end of the
    support (or to the median on an unbounded side) are split geometrically, which resolves algebraic end-point
    singularities and heavy tails. Returns nodes, weights and the probability mass between the first and the
    last usable quantile according to the grid."""
    fr = fam.frozen(p)
    lo, hi = fam.support(p)
    with np.errstate(all="ignore"):
        qs = np.asarray(fr.ppf(us), dtype=float)
    ok = np.isfinite(qs) & (np.abs(qs) < 1e150)
    if lo != -INF:
        ok &= qs > lo + 1e-12 * max(1.0, abs(lo))
    if hi != INF:
        ok &= qs < hi - 1e-12 * max(1.0, abs(hi))
    idx = np.nonzero(ok)[0]
    if len(idx) < 2:
        return None
    qs, uu = qs[idx], np.asarray(us)[idx]
    keep = np.concatenate([[True], np.diff(qs) > 0])
    qs, uu = qs[keep], uu[keep]
    if len(qs) < 2:
        return None
    med = float(fr.ppf(0.5))
    c1 = lo if lo != -INF else med
    c2 = hi if hi != INF else med
    edges = [qs[0]]
    for a, b in zip(qs[:-1], qs[1:]):
        pieces = [b]
        if a > c1 and (b - c1) / (a - c1) > 3:
            k = int(math.ceil(math.log((b - c1) / (a - c1)) / math.log(3)))
            pieces = [c1 + (a - c1) * ((b - c1) / (a - c1)) ** (j / k) for j in range(1, k)] + [b]
        elif b < c2 and (c2 - a) / (c2 - b) > 3:
            k = int(math.ceil(math.log((c2 - a) / (c2 - b)) / math.log(3)))
            pieces = [c2 - (c2 - a) * ((c2 - b) / (c2 - a)) ** (j / k) for j in range(1, k)] + [b]
        edges.extend(pieces)
    edges = np.array(edges)
    a, b = edges[:-1], edges[1:]
    mid, half = (a + b) / 2, (b - a) / 2
    nodes = (mid[:, None] + half[:, None] * GL_X[None, :]).ravel()
    ws = (half[:, None] * GL_W[None, :]).ravel()
    return nodes, ws, float(uu[-1] - uu[0]), float(edges[0]), float(edges[-1])


@st.composite
def norm_cases(draw):
    fam = draw(st.sampled_from([f for f in FAMILIES if f.normalised]))
    p = tuple(float(v) for v in draw(fam.params))
    ptype = draw(st.sampled_from(["Float64", "Real64"]))
    wrap = draw(st.sampled_from(["", "", "translate", "log"]))
    return {"family": fam.name, "p": list(p), "ptype": ptype, "wrap": wrap, "wc": draw(st.floats(-3, 3)), "rinit": draw(st.sampled_from([0.0, 2.5]))}


def check_normalisation(case, srv, stats):
    fam = FAM[case["family"]]
    p = tuple(case["p"])
    desc = describe(case)
    fr = fam.frozen(p)
    wrap, wc = case["wrap"], case["wc"]
    if fam.discrete and wrap == "log":
        wrap = ""
    # the wrapped variable: translate: X = Y - c; log: X = exp(Y) - c with c = 0
    if wrap == "log":
        wc = 0.0
    classes = ["family=" + fam.name, "wrap=" + (wrap or "none"), "ptype=" + case["ptype"]]

    def to_x(y):
        if wrap == "translate":
            return y - wc
        if wrap == "log":
            return np.exp(y)
        return y
    if fam.discrete:
        hi = int(fr.ppf(1 - 1e-13)) + 2
        if hi > 20000:
            stats.case(desc, ["support too long to sum (not evaluated)"], False)
            return
        ys = np.arange(0, hi + 1, dtype=float)
        if wrap == "translate":
            wc = float(round(wc))
        xs = to_x(ys)
        got = values(ask(srv, fam.name, p, "logpdf", list(xs), case["ptype"], wrap, case["rinit"], wc), desc)
        total = math.fsum(math.exp(g) for g in got if g == g) if all(g == g for g in got) else float("nan")
        tol = 1e-9
    else:
        q = quadrature(fam, p, U_GRID)
        if q is None:
            stats.case(desc, ["no usable quantiles (not evaluated)"], False)
            return
        ys, ws, expect, _, _ = q
        if wrap == "log" and (np.max(ys) > 600 or np.min(ys) < -600):
            # Y = log X: the panels are placed in y, the integral over x = exp(y) uses dx = x dy
            stats.case(desc, ["exp of the support overflows (not evaluated)"], False)
            return
        xs = to_x(ys)
        got = values(ask(srv, fam.name, p, "logpdf", [float(x) for x in xs], case["ptype"], wrap, case["rinit"], wc), desc)
        g = np.array(got)
        if np.any(np.isnan(g)):
            total = float("nan")
        else:
            jac = xs if wrap == "log" else 1.0
            total = float(np.sum(np.exp(g) * jac * ws)) + (1 - expect)
        tol = 1e-5
    stats.note("largest |total mass - 1|", abs(total - 1) if total == total else 0.0)
    if not abs(total - 1) <= tol:
        raise Violation("%s: the density %s to %r, not to 1" % (desc, "sums" if fam.discrete else "integrates", total))
    stats.case(desc, classes, True)


# ---------------------------------------------------------------------------------------------
# aspect 3: cumulative functions

@st.composite
def cdf_cases(draw):
    fam = draw(st.sampled_from([f for f in FAMILIES if f.cdf is not None]))
    p = tuple(float(v) for v in draw(fam.params))
    ptype = draw(st.sampled_from(["Float64", "Real64"]))
    us = sorted(draw(st.lists(st.one_of(st.floats(1e-9, 1 - 1e-9), st.sampled_from([1e-12, 1e-6, 0.5, 1 - 1e-6])), min_size=3, max_size=8)))
    return {"family": fam.name, "p": list(p), "ptype": ptype, "us": us, "rinit": draw(st.sampled_from([0.0, 0.0, 3.25, -1.5])),
            "outs": [draw(logu(1e-3, 50)) for _ in range(3)], "frac": 0.5, "wrap": ""}


def check_cdf(case, srv, stats):
    fam = FAM[case["family"]]
    p = tuple(case["p"])
    desc = describe(case)
    classes = ["family=" + fam.name, "ptype=" + case["ptype"]]
    lo, hi = fam.support(p)
    xs = sorted(set(inside_points(fam, p, case["us"])))
    if len(xs) < 2:
        stats.case(desc, ["too few points (not evaluated)"], False)
        return
    r1 = ask(srv, fam.name, p, "cdf", xs, case["ptype"], "", case["rinit"])
    if "unsupported" in r1:
        stats.case(desc, ["no cumulative function offered"], False)
        return
    cdf = values(r1, desc)
    lcdf = values(ask(srv, fam.name, p, "logcdf", xs, case["ptype"], "", case["rinit"]), desc)
    with mp.workdps(40):
        for x, c, l in zip(xs, cdf, lcdf):
            ref = fam.cdf(p, mpf(x))
            if math.isnan(c) or abs(mpf(c) - ref) > mpf(10) ** -10:
                raise Violation("%s: Cdf(%r) = %r, the distribution function is %s" % (desc, x, c, mp.nstr(ref, 17)))
            if ref > mpf(10) ** -300:
                lref = mp.log(ref)
                # the logarithm of a distribution function that is computed as 1 - survival function to an
                # absolute accuracy of 1e-12 (powers (1 + xi z)^(-1/xi) amplify the rounding of their base);
                # relative accuracy in the far lower tail is not part of the property
                tol = mpf(10) ** -9 * (1 + abs(lref)) + mpf(10) ** -12 / ref
                if math.isnan(l) or abs(mpf(l) - lref) > tol:
                    raise Violation("%s: LogCdf(%r) = %r, the log distribution function is %s" % (desc, x, l, mp.nstr(lref, 17)))
    for i in range(1, len(xs)):
        if cdf[i] < cdf[i - 1] - 1e-14:
            raise Violation("%s: Cdf is not monotone: Cdf(%r) = %r > Cdf(%r) = %r" % (desc, xs[i - 1], cdf[i - 1], xs[i], cdf[i]))
    # the density is the derivative: Cdf(b) - Cdf(a) equals the integral of exp(LogPdf)
    if not fam.discrete:
        fr = fam.frozen(p)
        ua, ub = float(fr.cdf(xs[0])), float(fr.cdf(xs[-1]))
        q = quadrature(fam, p, np.linspace(ua, ub, 40)) if ub - ua > 1e-6 else None
        if q is not None:
            # the panels end at reference quantiles next to xs[0] and xs[-1]; the Cdf is evaluated at the panel ends
            nodes, ws, _, e0, e1 = q
            lp = np.array(values(ask(srv, fam.name, p, "logpdf", [float(v) for v in nodes], case["ptype"], "", case["rinit"]), desc))
            ce = values(ask(srv, fam.name, p, "cdf", [e0, e1], case["ptype"], "", case["rinit"]), desc)
            if not np.any(np.isnan(lp)):
                mass = float(np.sum(np.exp(lp) * ws))
                if abs(mass - (ce[1] - ce[0])) > 1e-6 + 1e-5 * mass:
                    raise Violation("%s: Cdf(%r) - Cdf(%r) = %r but exp(LogPdf) integrates to %r over that interval" % (desc, e1, e0, ce[1] - ce[0], mass))
                classes.append("increment equals the integral of the density")
    else:
        ks = list(range(int(xs[0]) + 1, int(xs[-1]) + 1))
        if ks and len(ks) < 5000:
            lp = values(ask(srv, fam.name, p, "logpdf", [float(k) for k in ks], case["ptype"], "", case["rinit"]), desc)
            mass = math.fsum(math.exp(v) for v in lp)
            if abs(mass - (cdf[-1] - cdf[0])) > 1e-9:
                raise Violation("%s: Cdf(%r) - Cdf(%r) = %r but the probabilities in between sum to %r" % (desc, xs[-1], xs[0], cdf[-1] - cdf[0], mass))
            classes.append("increment equals the sum of the probabilities")
    # the ends of the support
    ends = []
    if lo != -INF:
        ends += [(lo - d * max(1.0, abs(lo)), 0.0) for d in case["outs"][:2]]
    else:
        ends += [(float(fam.frozen(p).ppf(1e-300)) if math.isfinite(float(fam.frozen(p).ppf(1e-300))) else -1e300, 0.0)]
    if hi != INF:
        ends += [(hi + d * max(1.0, abs(hi)), 1.0) for d in case["outs"][1:]]
    else:
        far = float(fam.frozen(p).isf(1e-18))
        if math.isfinite(far):
            ends += [(far, 1.0)]
    ex = [e[0] for e in ends]
    resp = ask(srv, fam.name, p, "cdf", ex, case["ptype"], "", case["rinit"])
    if "panic" in resp or "died" in resp:
        raise Violation("%s: Cdf at %r: the library failed: %s" % (desc, ex, str(resp)[:300]))
    ec = values(resp, desc)
    el = values(ask(srv, fam.name, p, "logcdf", ex, case["ptype"], "", case["rinit"]), desc)
    for (x, want), c, l in zip(ends, ec, el):
        if math.isnan(c) or abs(c - want) > 1e-9:
            raise Violation("%s: Cdf(%r) = %r beyond the %s end of the support %r (expected %r)" % (desc, x, c, "lower" if want == 0 else "upper", (lo, hi), want))
        if want == 0.0 and not (l < -20):
            raise Violation("%s: LogCdf(%r) = %r below the support %r (expected -Inf)" % (desc, x, l, (lo, hi)))
        if want == 1.0 and not abs(l) <= 1e-9:
            raise Violation("%s: LogCdf(%r) = %r above the support %r (expected 0)" % (desc, x, l, (lo, hi)))
    classes.append("beyond the ends of the support")
    stats.case(desc + " x=%r" % xs, classes, True)


# ---------------------------------------------------------------------------------------------
# aspect 4: constructors reject invalid parameters

@st.composite
def reject_cases(draw):
    fam = draw(st.sampled_from(FAMILIES))
    kind = draw(st.sampled_from(["listed", "listed", "nan", "scaled"]))
    valid = tuple(float(v) for v in draw(fam.params))
    if kind == "listed":
        bad = draw(st.sampled_from(fam.invalid))
        # valid values in the positions the listed vector leaves alone do not matter: use the listed one
        p = tuple(float(v) for v in bad)
    elif kind == "nan":
        i = draw(st.integers(0, len(valid) - 1))
        p = tuple(float("nan") if j == i else v for j, v in enumerate(valid))
    else:
        # one invalid entry of a listed vector planted into otherwise generated parameters
        bad = draw(st.sampled_from(fam.invalid))
        base = fam.invalid_base if hasattr(fam, "invalid_base") else None
        p = tuple(float(v) for v in bad)
    return {"family": fam.name, "p": list(p), "kind": kind, "ptype": draw(st.sampled_from(["Float64", "Real64"]))}


def check_reject(case, srv, stats):
    fam = FAM[case["family"]]
    p = tuple(case["p"])
    desc = "%s(%s) [%s]" % (fam.name, ", ".join(repr(v) for v in p), case["ptype"])
    resp = ask(srv, fam.name, p, "params", [], case["ptype"])
    if "panic" in resp or "died" in resp:
        raise Violation("%s: the constructor failed on invalid parameters instead of returning an error: %s" % (desc, str(resp)[:300]))
    nan = any(v != v for v in p)
    cls = "NaN parameter" if nan else "parameter outside its range"
    if "rejected" not in resp:
        kf = "C14/constructors-accept-nan-parameters" if nan else None
        if kf and stats.known(kf, desc):
            stats.case(desc, ["family=" + fam.name, cls, "known finding"], True)
            return
        raise Violation("%s: the constructor accepted invalid parameters" % desc)
    stats.case(desc, ["family=" + fam.name, cls], True)


# ---------------------------------------------------------------------------------------------
# aspect 5: composed densities (mixtures, i.i.d. and independent products) and vector distributions

SIMPLE = ["normal", "laplace", "gamma", "exponential", "cauchy", "pareto", "gev", "chi-squared", "poisson", "geometric", "binomial"]


def vask(srv, family, p, dim, xs, ptype="Float64", wrap="", rinit=0.0, ints=()):
    req = {"k": "vdist", "family": (wrap + ":" if wrap else "") + family, "type": ptype, "params": [fhex(v) for v in p], "order": dim,
           "x": [fhex(x) for x in xs], "args": [fhex(rinit)], "ints": list(ints), "op": "logpdf"}
    return srv.ask(req)


@st.composite
def spd(draw, n):
    # L L^T with a moderate condition number
    L = [[0.0] * n for _ in range(n)]
    for i in range(n):
        for j in range(i):
            L[i][j] = draw(st.floats(-1, 1))
        L[i][i] = draw(st.floats(0.5, 2.0))
    return [[sum(L[i][k] * L[j][k] for k in range(n)) for j in range(n)] for i in range(n)]


@st.composite
def composed_cases(draw):
    kind = draw(st.sampled_from(["vnormal", "vt", "vskew", "miw", "iid", "id", "mix"]))
    ptype = draw(st.sampled_from(["Float64", "Real64"]))
    wrap = draw(st.sampled_from(["", "", "clone", "setget"]))
    rinit = draw(st.sampled_from([0.0, 0.0, 4.5, -2.0]))
    case = {"kind": kind, "ptype": ptype, "wrap": wrap, "rinit": rinit}
    if kind in ("vnormal", "vt", "vskew", "miw"):
        n = draw(st.integers(1, 3))
        case.update(n=n, mu=[draw(st.floats(-3, 3)) for _ in range(n)], sigma=draw(spd(n)),
                    nu=draw(st.one_of(logu(2.0, 30), st.sampled_from([2.0, 3.0, 5.0]))),
                    z=[[draw(st.floats(-4, 4)) for _ in range(n)] for _ in range(3)])
        if kind == "vskew":
            case.update(alpha=[draw(st.floats(-3, 3)) for _ in range(n)], scale=[draw(logu(0.3, 3)) for _ in range(n)])
        if kind == "miw":
            # degrees of freedom above n - 1, evaluation points: generated positive definite matrices
            case.update(nu=n - 1 + draw(logu(0.2, 20)), xs=[draw(spd(n)) for _ in range(2)])
        return case
    k = draw(st.integers(1, 3))
    if kind == "iid":
        k = 1
    fams = [draw(st.sampled_from(SIMPLE)) for _ in range(k)]
    if kind == "mix":
        # components of one kind of support make a proper mixture density either way; keep them continuous
        fams = [draw(st.sampled_from(["normal", "laplace", "gamma", "exponential", "cauchy", "gev"])) for _ in range(k)]
    ps = [[float(v) for v in draw(FAM[f].params)] for f in fams]
    n = draw(st.integers(1, 4)) if kind == "iid" else (k if kind == "id" else 1)
    us = [[draw(st.floats(1e-6, 1 - 1e-6)) for _ in range(n)] for _ in range(3)]
    case.update(fams=fams, ps=ps, n=n, us=us, w=[draw(st.floats(0.05, 1.0)) for _ in range(k)], out=draw(logu(1e-3, 20)),
                which=draw(st.integers(0, 3)))
    return case


def check_composed(case, srv, stats):
    kind = case["kind"]
    classes = ["kind=" + kind, "ptype=" + case["ptype"], "wrap=" + (case["wrap"] or "none")]
    if kind == "miw":
        n = case["n"]
        p = [case["nu"]] + [v for row in case["sigma"] for v in row]
        desc = "%sinverse Wishart dim %d (%s) [%s]" % ((case["wrap"] + ":") if case["wrap"] else "", n, p, case["ptype"])
        xs = [v for X in case["xs"] for row in X for v in row]
        got = values(vask(srv, "miw", p, n, xs, case["ptype"], case["wrap"], case["rinit"]), desc)
        with mp.workdps(40):
            S = mp.matrix(case["sigma"])
            nu = mpf(case["nu"])
            for X_, g in zip(case["xs"], got):
                X = mp.matrix(X_)
                lgn = mpf(n * (n - 1)) / 4 * mp.log(mp.pi) + mp.fsum(lg(nu / 2 + mpf(1 - j) / 2) for j in range(1, n + 1))
                terms = [nu / 2 * mp.log(mp.det(S)), -nu * n / 2 * mp.log(2), -lgn, -(nu + n + 1) / 2 * mp.log(mp.det(X)),
                         -sum((S * X ** -1)[i, i] for i in range(n)) / 2]
                ref = mp.fsum(terms)
                sc = 1 + mp.fsum(abs(t) for t in terms)
                if math.isnan(g) or abs(mpf(g) - ref) > mpf(10) ** -9 * sc:
                    # the recorded defect: the trace of the element-wise product of S and X^-1
                    Xi = X ** -1
                    bug = ref - terms[4] - sum(S[i, i] * Xi[i, i] for i in range(n)) / 2
                    if not math.isnan(g) and abs(mpf(g) - bug) <= mpf(10) ** -9 * sc and stats.known("C14/inverse-wishart-trace-of-the-elementwise-product", desc):
                        classes.append("known finding: element-wise trace")
                        continue
                    raise Violation("%s: LogPdf(%r) = %r, the textbook log-density is %s" % (desc, X_, g, mp.nstr(ref, 17)))
        stats.case(desc, classes + ["dim=%d" % n], True)
        return
    if kind == "vskew":
        n = case["n"]
        # omega: the correlation matrix of sigma
        sg = case["sigma"]
        dd = [math.sqrt(sg[i][i]) for i in range(n)]
        omega = [[sg[i][j] / (dd[i] * dd[j]) for j in range(n)] for i in range(n)]
        p = list(case["mu"]) + [v for row in omega for v in row] + list(case["alpha"]) + list(case["scale"])
        desc = "%sskew normal dim %d (%s) [%s]" % ((case["wrap"] + ":") if case["wrap"] else "", n, p, case["ptype"])
        with mp.workdps(40):
            K = mp.matrix([[mpf(case["scale"][i]) * mpf(case["scale"][j]) * mpf(omega[i][j]) for j in range(n)] for i in range(n)])
            mu = mp.matrix(case["mu"])
            Lc = mp.cholesky(K)
            Ki = K ** -1
            ld = mp.log(mp.det(K))
            pts = [list(mu + Lc * mp.matrix(z)) for z in case["z"]]
            xs = [float(v) for pt in pts for v in pt]
            got = values(vask(srv, "vskew", p, n, xs, case["ptype"], case["wrap"], case["rinit"]), desc)
            for i, g in enumerate(got):
                x = mp.matrix([mpf(v) for v in xs[i * n:(i + 1) * n]])
                d = x - mu
                q = (d.T * Ki * d)[0]
                az = mp.fsum(mpf(case["alpha"][k]) * d[k] / mpf(case["scale"][k]) for k in range(n))
                lphi = mp.log(mp.erfc(-az / mp.sqrt(2)) / 2)
                terms = [mp.log(2), -mpf(n) / 2 * mp.log(2 * mp.pi), -ld / 2, -q / 2, lphi]
                ref = mp.fsum(terms)
                sc = 1 + mp.fsum(abs(t) for t in terms)
                if math.isnan(g) or abs(mpf(g) - ref) > mpf(10) ** -9 * sc:
                    raise Violation("%s: LogPdf(%r) = %r, the textbook log-density is %s" % (desc, xs[i * n:(i + 1) * n], g, mp.nstr(ref, 17)))
        stats.case(desc, classes + ["dim=%d" % n], True)
        return
    if kind in ("vnormal", "vt"):
        n = case["n"]
        with mp.workdps(40):
            S = mp.matrix(case["sigma"])
            mu = mp.matrix(case["mu"])
            Lc = mp.cholesky(S)
            Si = S ** -1
            ld = mp.log(mp.det(S))
            # points: mu + L z
            pts = [list(mu + Lc * mp.matrix(z)) for z in case["z"]]
            xs = [float(v) for pt in pts for v in pt]
            if kind == "vnormal":
                p = list(case["mu"]) + [v for row in case["sigma"] for v in row]
                fam = "vnormal"
            else:
                p = [case["nu"]] + list(case["mu"]) + [v for row in case["sigma"] for v in row]
                fam = "vt"
            desc = "%s%s dim %d %s(%s) [%s]" % ((case["wrap"] + ":") if case["wrap"] else "", fam, n, "nu=%r " % case["nu"] if kind == "vt" else "", p, case["ptype"])
            resp = vask(srv, fam, p, n, xs, case["ptype"], case["wrap"], case["rinit"])
            got = values(resp, desc)
            for i, g in enumerate(got):
                x = mp.matrix([mpf(v) for v in xs[i * n:(i + 1) * n]])
                d = x - mu
                q = (d.T * Si * d)[0]
                if kind == "vnormal":
                    terms = [-mpf(n) / 2 * mp.log(2 * mp.pi), -ld / 2, -q / 2]
                else:
                    nu = mpf(case["nu"])
                    terms = [lg((nu + n) / 2), -lg(nu / 2), -mpf(n) / 2 * mp.log(nu * mp.pi), -ld / 2, -(nu + n) / 2 * mp.log1p(q / nu)]
                ref = mp.fsum(terms)
                sc = 1 + mp.fsum(abs(t) for t in terms)
                if math.isnan(g) or abs(mpf(g) - ref) > mpf(10) ** -9 * sc:
                    raise Violation("%s: LogPdf(%r) = %r, the textbook log-density is %s" % (desc, xs[i * n:(i + 1) * n], g, mp.nstr(ref, 17)))
        stats.case(desc, classes + ["dim=%d" % n], True)
        return
    fams, ps, n = case["fams"], case["ps"], case["n"]
    F = [FAM[f] for f in fams]
    flat = [v for p in ps for v in p]
    ints = [len(p) for p in ps]
    if kind == "iid":
        family, p, comp = "iid:" + fams[0], ps[0], [0] * n
    elif kind == "id":
        family, p, comp = "id:" + "|".join(fams), flat, list(range(n))
    else:
        family, p, comp = "mix:" + "|".join(fams), list(case["w"]) + flat, None
    desc = "%s%s dim %d (%s) [%s]" % ((case["wrap"] + ":") if case["wrap"] else "", family, n, p, case["ptype"])
    pts = []
    for us in case["us"]:
        if kind == "mix":
            j = case["which"] % len(F)
            c = inside_points(F[j], tuple(ps[j]), [us[0]])
            if c:
                pts.append(c)
        else:
            row = []
            for i in range(n):
                c = inside_points(F[comp[i]], tuple(ps[comp[i]]), [us[i]])
                if not c:
                    row = None
                    break
                row.append(c[0])
            if row:
                pts.append(row)
    if not pts:
        stats.case(desc, ["no interior point (not evaluated)"], False)
        return
    dim = 1 if kind == "mix" else n
    resp = vask(srv, family, p, n, [v for pt in pts for v in pt], case["ptype"], case["wrap"], case["rinit"], ints)
    got = values(resp, desc)
    with mp.workdps(40):
        for pt, g in zip(pts, got):
            cond = mpf(0)
            if kind == "mix":
                w = [mpf(v) for v in case["w"]]
                tot = mp.fsum(w)
                parts = []
                for j, fam in enumerate(F):
                    lo, hi = fam.support(tuple(ps[j]))
                    x = pt[0]
                    if x <= lo or x >= hi:
                        if x == lo or x == hi:
                            parts = None
                            break
                        continue
                    v, _, cnd = ref_logpdf(fam, tuple(ps[j]), x)
                    cond += cnd
                    parts.append(mp.log(w[j] / tot) + v)
                if not parts:
                    continue
                m = max(parts)
                ref = m + mp.log(mp.fsum(mp.exp(t - m) for t in parts))
                sc = 1 + abs(ref) + max(abs(t) for t in parts)
            else:
                terms = []
                for i in range(n):
                    v, _, cnd = ref_logpdf(F[comp[i]], tuple(ps[comp[i]]), pt[i])
                    cond += cnd
                    terms += F[comp[i]].terms(tuple(ps[comp[i]]), mpf(pt[i]))
                ref = mp.fsum(terms)
                sc = 1 + mp.fsum(abs(t) for t in terms)
            if cond == mp.inf:
                continue   # within one rounding of an end of the support of a factor
            if math.isnan(g) or abs(mpf(g) - ref) > mpf(10) ** -9 * sc + 16 * cond:
                raise Violation("%s: LogPdf(%r) = %r, the log-density of the composition is %s" % (desc, pt, g, mp.nstr(ref, 17)))
    # one coordinate outside the support of its factor: -Inf (or a refusal)
    if kind != "mix":
        j = case["which"] % n
        lo, hi = F[comp[j]].support(tuple(ps[comp[j]]))
        if lo != -INF:
            bad = list(pts[0])
            bad[j] = lo - case["out"] * max(1.0, abs(lo))
            if F[comp[j]].discrete:
                bad[j] = float(math.floor(bad[j]))
            resp = vask(srv, family, p, n, bad, case["ptype"], case["wrap"], case["rinit"], ints)
            if "panic" in resp or "died" in resp:
                raise Violation("%s: LogPdf(%r): the library failed: %s" % (desc, bad, str(resp)[:300]))
            g = values(resp, desc)[0]
            if not (g == -INF or (math.isnan(g) and resp.get("evalerr"))):
                raise Violation("%s: LogPdf(%r) = %r although coordinate %d is outside the support (expected -Inf)" % (desc, bad, g, j))
            classes.append("a coordinate outside the support")
    elif len(F) >= 1:
        # total mass of the mixture: panels from the quantiles of every component
        edges = set()
        ok = True
        for j, fam in enumerate(F):
            q = quadrature(fam, tuple(ps[j]), U_GRID[::4])
            if q is None:
                ok = False
                break
            edges.add(q[3])
            edges.add(q[4])
        if ok:
            nodes, ws, expect = [], [], 0.0
            tot = sum(case["w"])
            for j, fam in enumerate(F):
                # integrate the mixture density restricted to where component j dominates is not possible
                # without the answer; instead integrate over the union grid: each component's own panels
                # weighted by a partition of unity is avoided by using all panel edges together
                pass
            allq = []
            for j, fam in enumerate(F):
                fr = fam.frozen(tuple(ps[j]))
                lo, hi = fam.support(tuple(ps[j]))
                with np.errstate(all="ignore"):
                    qq = np.asarray(fr.ppf(U_GRID), dtype=float)
                qq = qq[np.isfinite(qq) & (np.abs(qq) < 1e150)]
                allq.append(qq)
            qs = np.unique(np.concatenate(allq))
            # keep away from the support ends of every component (densities may be singular there)
            ends = [e for j, fam in enumerate(F) for e in fam.support(tuple(ps[j])) if math.isfinite(e)]
            a, b = qs[:-1], qs[1:]
            keep = np.ones(len(a), dtype=bool)
            mid, half = (a + b) / 2, (b - a) / 2
            nd = (mid[:, None] + half[:, None] * GL_X[None, :]).ravel()
            wq = (half[:, None] * GL_W[None, :]).ravel()
            lp = np.array(values(vask(srv, family, p, n, [float(v) for v in nd], case["ptype"], case["wrap"], case["rinit"], ints), desc))
            if not np.any(np.isnan(lp)) and not np.any(np.isinf(lp) & (lp > 0)):
                total = float(np.sum(np.exp(lp) * wq))
                stats.note("largest |mixture mass - 1|", abs(total - 1) if math.isfinite(total) else 0.0)
                # singular component densities (gamma shapes below 1) and the union grid limit the quadrature
                smooth = all(not (f.name in ("gamma", "chi-squared") and ps[j][0] < 1.0) and not (f.name == "gev" and ps[j][2] < -0.9)
                             for j, f in enumerate(F))
                if smooth and abs(total - 1) > 1e-4:
                    raise Violation("%s: the mixture density integrates to %r, not to 1" % (desc, total))
                classes.append("mixture mass")
    stats.case(desc + " x=%r" % pts, classes + ["components=" + "+".join(sorted(set(fams)))[:60]], True)


ASPECTS = {
    "composed_and_vector": (composed_cases(), check_composed),
    "logpdf_formula_and_support": (formula_cases(), check_formula),
    "normalisation": (norm_cases(), check_normalisation),
    "cdf_consistency": (cdf_cases(), check_cdf),
    "constructors_reject": (reject_cases(), check_reject),
}
def _w(fid, family, p, op, x, bad, wrap="", rinit=0.0):
    def w(srv):
        r = ask(srv, family, p, op, [x], "Float64", wrap, rinit)
        if "rejected" in r:
            return fid, False, "constructor rejects %r" % (p,)
        if "panic" in r or "died" in r or "err" in r:
            return fid, True, str(r)[:200]
        v = unhex(r["r"][0])
        return fid, bool(bad(v)), "%s(%s).%s(%r) = %r" % (family, ", ".join(map(repr, p)), op, x, v)
    return w


def _accepts(fid, family, p):
    def w(srv):
        r = ask(srv, family, p, "params", [], "Float64")
        return fid, "rejected" not in r, "%s(%s): %s" % (family, ", ".join(map(repr, p)), "rejected" if "rejected" in r else "accepted")
    return w


def _far(ref, tol=1e-9):
    return lambda v: v != v or abs(v - ref) > tol


WITNESSES = {
    "gpareto_result_dependence": _w("C14/gpareto-logpdf-starts-from-result", "gpareto", (1.0, 2.0, 0.5), "logpdf", 3.0, _far(-1.9095425048844386), rinit=7.25),
    "gpareto_xi0": _w("C14/gpareto-xi0-missing-log-sigma", "gpareto", (1.0, 2.0, 0.0), "logpdf", 3.0, _far(-1.6931471805599454)),
    "laplace_logpdf": _w("C14/laplace-logpdf-is-the-density", "laplace", (0.0, 1.0), "logpdf", 2.0, _far(-2.6931471805599454)),
    "laplace_logcdf": _w("C14/laplace-logcdf-is-the-distribution-function", "laplace", (0.0, 1.0), "logcdf", 1.0, _far(-0.20326705491519537)),
    "pareto_below_lambda": _w("C14/pareto-support-guard-tests-zero", "pareto", (2.0, 1.5), "logpdf", 1.0, lambda v: v != -INF),
    "geometric_negative": _w("C14/geometric-negative-arguments", "geometric", (0.25,), "logpdf", -2.0, lambda v: v != -INF),
    "chisquared_negative": _w("C14/chi-squared-no-support-guard", "chi-squared", (3.0,), "logpdf", -1.0, lambda v: v != -INF),
    "gamma_cdf_negative": _w("C14/gamma-cdf-negative-argument", "gamma", (3.0, 1.0), "cdf", -3.0, _far(0.0)),
    "powerlaw_cdf": _w("C14/power-law-cdf-is-the-survival-function", "power law", (2.0, 2.0), "cdf", 8.0, _far(0.75)),
    "gev_cdf_above": _w("C14/gev-gpareto-cdf-above-the-support", "gev", (0.0, 1.0, -0.5), "cdf", 5.0, _far(1.0)),
    "categorical_logcdf": _w("C14/categorical-logcdf-starts-from-log-1", "categorical", (0.25, 0.25, 0.5), "cdf", 1.0, _far(0.5)),
    "chisquared_k0": _accepts("C14/chi-squared-power-law-parameter-ranges", "chi-squared", (0.0,)),
    "t_parameter_layout": (lambda srv: ("C14/t-distribution-getparameters-omits-nu",
                                         "r" not in vask(srv, "vt", [3.0, 0.5, 2.0], 1, [0.25], "Float64", "setget"),
                                         "SetParameters(GetParameters()) of a t distribution")),
    "iwishart_trace": (lambda srv: (lambda r: ("C14/inverse-wishart-trace-of-the-elementwise-product", "r" not in r or abs(unhex(r["r"][0]) + 9.267518364991453) > 1e-6,
                                                "inverse Wishart(3, [[1,.3],[.3,1]]).LogPdf([[2,-.3],[-.3,4]]) = %s (textbook -9.2675184)" % (unhex(r["r"][0]) if "r" in r else r)))(
        vask(srv, "miw", [3.0, 1.0, 0.3, 0.3, 1.0], 2, [2.0, -0.3, -0.3, 4.0]))),
    "nan_parameter": _accepts("C14/constructors-accept-nan-parameters", "normal", (float("nan"), 1.0)),
}

if __name__ == "__main__":
    import os
    if os.environ.get("VERIF_SWEEP"):
        def sweep(check, keyf):
            def w(case, srv, stats):
                try:
                    check(case, srv, stats)
                except Violation as v:
                    stats.case(str(v)[:400], ["FAIL " + keyf(case, str(v))], False)
            return w

        def keyf(case, msg):
            kind = "other"
            for k in ("outside the support", "textbook", "composition", "integrates", "sums", "monotone", "Cdf(", "LogCdf(", "accepted", "failed", "rejected"):
                if k in msg:
                    kind = k
                    break
            return case.get("family", case.get("kind", "")) + "+".join(case.get("fams", [])) + " / " + kind + ((" / " + case.get("wrap")) if case.get("wrap") else "")
        ASPECTS = {k: (s, sweep(c, keyf)) for k, (s, c) in ASPECTS.items()}
    sys.exit(main(ASPECTS, WITNESSES))
