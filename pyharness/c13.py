"""C13 - special functions are accurate over their whole domain (reference: mpmath)."""
import math
import sys

import mpmath
from mpmath import mp, mpf
from hypothesis import strategies as st

from common import EPS, Violation, fhex, main, unhex

# ---------------------------------------------------------------------------------------------
# argument strategies


def logpos(lo, hi):
    """log-uniform positive floats in [2^lo, 2^hi]"""
    return st.builds(lambda e, m: math.ldexp(1 + m, e), st.integers(lo, hi - 1), st.floats(0, 1, exclude_max=True))


def around(points, rel=1e-6):
    """points themselves and their float neighbourhoods (algorithm-selection boundaries)"""
    def mk(p, k, d):
        x = p
        for _ in range(k):
            x = math.nextafter(x, math.inf if d else -math.inf)
        return x
    near = st.builds(mk, st.sampled_from(points), st.integers(0, 3), st.booleans())
    wide = st.builds(lambda p, r: p * (1 + r) if p != 0 else r, st.sampled_from(points), st.floats(-rel, rel))
    return st.one_of(near, wide)


def halfints(lo, hi):
    return st.builds(lambda k: k / 2.0, st.integers(2 * lo, 2 * hi))


pos_arg = st.one_of(logpos(-30, 40), st.floats(1e-3, 300), st.floats(100, 1e5), halfints(0, 400).filter(lambda x: x > 0),
                    around([0.5, 1.0, 1.5, 2.0, 10.0, 20.0, 30.0, 100.0, 171.0]))
real_arg = st.one_of(st.floats(-60, 60), st.floats(-1000, 1000), pos_arg, pos_arg.map(lambda x: -x))


# mpmath's polygamma is very slow for huge arguments: bounded range for the polygamma family
poly_pos = st.one_of(logpos(-30, 14), st.floats(1e-3, 300), halfints(0, 400).filter(lambda x: x > 0), around([0.5, 1.0, 1.5, 2.0, 10.0, 20.0, 30.0, 100.0]))
poly_arg = st.one_of(st.floats(-60, 60), st.floats(-1000, 1000), poly_pos, poly_pos.map(lambda x: -x))


def not_pole(x):
    return not (x <= 0 and x == math.floor(x))


# ---------------------------------------------------------------------------------------------
# function table: name -> (strategy of (args, ints), reference(args, ints) in mp, tolerance multiple)

def mp_logerfc(x):
    return mp.log(mp.erfc(x))


def mp_mlgamma(x, k):
    r = mpf(k * (k - 1)) / 4 * mp.log(mp.pi)
    for i in range(1, k + 1):
        r += mp.loggamma((2 * x + 1 - i) / 2)
    return r


def mp_logadd(a, b):
    if a == -mp.inf:
        return b
    if b == -mp.inf:
        return a
    m = max(a, b)
    return m + mp.log(mp.exp(a - m) + mp.exp(b - m))


def mp_logsub(a, b):
    if b == -mp.inf:
        return a
    return a + mp.log1p(-mp.exp(b - a))


def gamma_args():
    a = st.one_of(logpos(-20, 10), st.floats(0.01, 150), st.floats(100, 1200), halfints(0, 400).filter(lambda x: x > 0), around([1.0, 20.0, 30.0, 0.5, 170.0, 200.0]))
    z = st.one_of(logpos(-30, 10), st.floats(0.0, 400), st.floats(300, 1200), around([1.0, 1.1, 0.5, 20.0, 708.0, 745.0]))
    both = st.tuples(a, z)
    # the method switches depend on the relation of a and z: sample the diagonal densely
    diag = st.builds(lambda a, r: (a, max(a * (1 + r), 0.0)), a, st.floats(-0.5, 0.5))
    return st.one_of(both, diag).map(lambda t: ([t[0], t[1]], []))


def bessel_args():
    v = st.one_of(st.floats(0, 60), st.floats(50, 400), halfints(0, 500), logpos(-20, 8), around([0.5, 1.0, 2.0, 25.0, 170.0]))
    x = st.one_of(logpos(-30, 10), st.floats(0.0, 300), st.floats(200, 1000), around([1.0, 2.0, 30.0, 100.0, 700.0]).filter(lambda x: x >= 0))
    return st.tuples(v, x).map(lambda t: ([t[0], t[1]], []))


FUNCS = {
    "Digamma": (real_arg.filter(not_pole).map(lambda x: ([x], [])), lambda a, i: mp.digamma(a[0]), 64),
    "Trigamma": (poly_arg.filter(not_pole).map(lambda x: ([x], [])), lambda a, i: mp.polygamma(1, a[0]), 64),
    "Polygamma": (st.tuples(st.one_of(st.integers(0, 8), st.integers(0, 8), st.integers(9, 60), st.integers(61, 120)), st.one_of(poly_pos, st.floats(-20, -0.01).filter(not_pole))).map(lambda t: ([t[1]], [t[0]])),
                  lambda a, i: mp.polygamma(i[0], a[0]), 256),
    "LogErfc": (st.one_of(st.floats(-30, 30), logpos(-40, 12), logpos(-40, 4).map(lambda x: -x), around([0.0, 0.5, 8.0, 26.0, 27.0])).map(lambda x: ([x], [])),
                lambda a, i: mp_logerfc(a[0]), 64),
    # the scaled complementary error function behind the derivatives of LogErfc (exp(x^2) overflows below -26.6)
    "Erfcx": (st.one_of(st.floats(-26, 30), logpos(-40, 7), around([0.0, 8.0, 26.0, 27.0])).map(lambda x: ([x], [])),
              lambda a, i: mp.exp(a[0] * a[0]) * mp.erfc(a[0]), 64),
    "GammaPsecondDerivative": (gamma_args().filter(lambda t: t[0][1] > 0), lambda a, i: mp.exp(-a[1] + (a[0] - 1) * mp.log(a[1]) - mp.loggamma(a[0])) * ((a[0] - 1) / a[1] - 1), 256),
    "BesselI": (st.one_of(bessel_args(), bessel_args(), bessel_args(),
                          # negative arguments are in the domain for integer orders: I_n(-x) = (-1)^n I_n(x)
                          st.tuples(st.integers(0, 40).map(float), st.one_of(st.floats(0.01, 60), logpos(-20, 5))).map(lambda t: ([t[0], -t[1]], []))),
                lambda a, i: mp.besseli(a[0], a[1]).real, 256),
    "LogBesselI": (bessel_args(), lambda a, i: mp.log(mp.besseli(a[0], a[1])), 256),
    "GammaP": (gamma_args(), lambda a, i: mp.gammainc(a[0], 0, a[1], regularized=True), 256),
    "GammaQ": (gamma_args(), lambda a, i: mp.gammainc(a[0], a[1], mp.inf, regularized=True), 256),
    "GammaLower": (gamma_args(), lambda a, i: mp.gammainc(a[0], 0, a[1]), 256),
    "GammaUpper": (gamma_args(), lambda a, i: mp.gammainc(a[0], a[1], mp.inf), 256),
    "GammaPfirstDerivative": (gamma_args().filter(lambda t: t[0][1] > 0), lambda a, i: mp.exp(-a[1] + (a[0] - 1) * mp.log(a[1]) - mp.loggamma(a[0])), 256),
    "Mgamma": (st.tuples(st.integers(1, 5), st.floats(0.1, 40)).map(lambda t: ([t[1] + (t[0] - 1) / 2.0], [t[0]])),
               lambda a, i: mp.exp(mp_mlgamma(a[0], i[0])), 256),
    "Mlgamma": (st.tuples(st.integers(1, 5), st.one_of(st.floats(0.1, 200), logpos(-10, 10))).map(lambda t: ([t[1] + (t[0] - 1) / 2.0], [t[0]])),
                lambda a, i: mp_mlgamma(a[0], i[0]), 256),
    "Zeta": (st.one_of(st.floats(-40, 80), around([1.0, 0.0, -2.0, 2.0, 50.0]), halfints(-30, 60)).filter(lambda s: s != 1.0).map(lambda x: ([x], [])),
             lambda a, i: mp.zeta(a[0]), 256),
    "Factorial": (st.integers(0, 170).map(lambda n: ([], [n])), lambda a, i: mp.factorial(i[0]), 16),
    "BernoulliNumber": (st.integers(0, 120).map(lambda n: ([], [n])), lambda a, i: (mpf(1) / 2 if i[0] == 1 else mp.bernoulli(i[0])), 64),  # convention B_1 = +1/2 (used by Zeta at 0)
    "LogAdd": (st.tuples(st.one_of(st.floats(-800, 800), st.just(-math.inf)), st.one_of(st.floats(-800, 800), st.just(-math.inf))).map(lambda t: ([t[0], t[1]], [])),
               lambda a, i: mp_logadd(a[0], a[1]), 16),
    "LogSub": (st.tuples(st.floats(-800, 800), st.one_of(st.floats(1e-9, 800), logpos(-40, 9), st.just(math.inf))).map(lambda t: ([t[0], t[0] - t[1]], [])),
               lambda a, i: mp_logsub(a[0], a[1]), 16),
    "SinPi": (st.one_of(st.floats(-1e6, 1e6), halfints(-50, 50), logpos(-40, 30)).map(lambda x: ([x], [])), lambda a, i: mp.sinpi(a[0]), 16),
    "CosPi": (st.one_of(st.floats(-1e6, 1e6), halfints(-50, 50), logpos(-40, 30)).map(lambda x: ([x], [])), lambda a, i: mp.cospi(a[0]), 16),
    "Powm1": (st.tuples(st.one_of(logpos(-20, 20), around([1.0])), st.one_of(st.floats(-50, 50), logpos(-40, 5))).map(lambda t: ([t[0], t[1]], [])),
              lambda a, i: mp.powm1(a[0], a[1]), 64),
}


LOG_VALUED = {"LogErfc", "LogBesselI", "Mlgamma", "LogAdd", "LogSub"}


def to_mp(x):
    if math.isinf(x):
        return mp.inf if x > 0 else -mp.inf
    return mpf(x)


def reference(fn, args, ints):
    """reference value at two precisions (a reference that cancels is recomputed deeper)"""
    ref = FUNCS[fn][1]
    a = [to_mp(x) for x in args]
    prev = None
    for dps in (40, 80, 160, 320):
        with mp.workdps(dps):
            v = ref(a, ints)
            v = mp.re(v) if isinstance(v, mpmath.mpc) and v.imag == 0 else v
            if prev is not None:
                if v == prev or (prev != 0 and abs((v - prev) / prev) < mpf(10) ** -25):
                    return +v
            prev = +v
    return prev


def condition(fn, args, ints, ref):
    """sum over the float arguments of |x df/dx / f| (how much a rounding of the argument moves f)"""
    f = FUNCS[fn][1]
    total = mpf(0)
    with mp.workdps(60):
        for k, x in enumerate(args):
            if x == 0 or math.isinf(x):
                continue
            h = abs(mpf(x)) * mpf(10) ** -20

            def g(t, k=k):
                a = [to_mp(y) for y in args]
                a[k] = t
                return f(a, ints)
            try:
                d = (g(mpf(x) + h) - g(mpf(x) - h)) / (2 * h)
            except Exception:
                continue
            if ref != 0:
                total += abs(mpf(x) * d / ref)
            else:
                total += abs(mpf(x) * d) * mpf(2) ** 60
    return float(total)


def representable(v):
    return v == 0 or (mpf(2) ** -1000 < abs(v) < mpf(2) ** 1000)


def check_vs_mpmath(case, srv, stats):
    fn, args, ints = case["fn"], [unhex(a) for a in case["args"]], case["ints"]
    desc = "%s(%s%s)" % (fn, ", ".join(repr(a) for a in args), "".join(", n=%d" % i for i in ints))
    resp = srv.ask({"k": "special", "fn": fn, "args": [fhex(a) for a in args], "ints": ints})
    try:
        ref = reference(fn, args, ints)
    except Exception as e:
        stats.case(desc, ["fn=" + fn, "reference failed (not asserted)"], False)
        return
    if isinstance(ref, mpmath.mpc):
        stats.case(desc, ["fn=" + fn, "complex reference (outside the real domain)"], False)
        return
    classes = ["fn=" + fn]
    if "panic" in resp or "died" in resp:
        if mp.isnan(ref) or mp.isinf(ref):
            stats.case(desc, classes + ["undefined point answered with a panic"], False)
            return
        kf = "C13/%s-panics-inside-its-domain" % fn
        if stats.known(kf, desc):
            return
        raise Violation("%s: the library panicked (%s) although the function value is %s" % (desc, resp.get("panic", resp.get("died")), mp.nstr(ref, 20)))
    got = unhex(resp["r"][0])
    if mp.isnan(ref) or mp.isinf(ref) or not representable(ref):
        # undefined or overflowing: NaN / Inf / 0 (underflow) are all acceptable
        stats.case(desc, classes + ["undefined or outside the float64 range"], False)
        return
    if (math.isnan(got) or math.isinf(got)) and condition(fn, args, ints, ref) * EPS * 8 >= 1:
        # one rounding of the argument reaches a pole: the function value is not determined by the float
        stats.case(desc, classes + ["within a rounding error of a pole (not asserted)"], False)
        return
    if (math.isnan(got) or math.isinf(got)) and fn == "BesselI" and args[1] > 700 and stats.known("C13/besseli-loses-digits-where-exp-x-overflows", desc):
        return
    if math.isnan(got) or math.isinf(got):
        raise Violation("%s = %s but the library returns %r (NaN and infinities are allowed only where the function is undefined or overflows)" % (desc, mp.nstr(ref, 20), got))
    err = abs(mpf(got) - ref)
    scale = abs(ref)
    if fn in LOG_VALUED:
        # a logarithm: an absolute error of eps is a relative error of eps in the function itself
        scale = max(scale, mpf(1))
    mult = FUNCS[fn][2]
    if fn == "Polygamma" and ints and ints[0] > 8:
        # high orders: the recurrence and the reflection polynomial of degree n accumulate rounding
        # errors in proportion to the order (the 256 eps were calibrated for orders up to 8)
        mult = int(mult * (1 + ints[0] / 16.0))
    bound = mult * EPS * scale
    if err <= bound or err <= mpf(2) ** -1070:
        stats.case(desc, classes + ["within %d eps" % mult], True)
        if scale != 0:
            stats.note("max error / (eps |f|) %s" % fn, float(err / (EPS * scale)))
        return
    kappa = condition(fn, args, ints, ref)
    bound = mult * EPS * scale * max(1.0, 4 * kappa)
    if err <= bound:
        stats.case(desc, classes + ["within tolerance after conditioning (kappa > 1)"], True)
        return
    if fn == "BesselI" and args[1] > 700 and stats.known("C13/besseli-loses-digits-where-exp-x-overflows", desc):
        return
    raise Violation("%s: library %r, reference %s, error %.3g = %.3g eps|f| (allowed %d eps, condition number %.3g)" % (
        desc, got, mp.nstr(ref, 20), float(err), float(err / (EPS * scale)) if scale != 0 else float("inf"), mult, kappa))


def normal_floats(args):
    # Go's math.Log (amd64 assembly) returns -709.09 for every subnormal argument (log(5e-324) should
    # be -744.44): subnormal arguments are left out, the library only inherits that error
    return all(a == 0 or abs(a) >= 1e-290 for a in args)  # (also x/2, x/4 must stay normal)


def strat_vs_mpmath():
    def one(name):
        return FUNCS[name][0].filter(lambda t: normal_floats(t[0])).map(lambda t, name=name: {"fn": name, "args": [fhex(a) for a in t[0]], "ints": list(t[1])})
    return st.sampled_from(sorted(FUNCS)).flatmap(one)


# ---------------------------------------------------------------------------------------------
# recurrences and complements (the library against itself; tolerance from the size of the terms)

def call(srv, fn, args, ints=()):
    r = srv.ask({"k": "special", "fn": fn, "args": [fhex(a) for a in args], "ints": list(ints)})
    if "r" not in r:
        return None
    return unhex(r["r"][0])


def check_recurrence(case, srv, stats):
    rel, a = case["rel"], [unhex(x) for x in case["args"]]
    desc = "%s at %s" % (rel, a)
    terms = None
    if rel == "P+Q=1":
        p, q = call(srv, "GammaP", a), call(srv, "GammaQ", a)
        terms = ([p, q], 1.0)
    elif rel == "lower+upper=Gamma(a)":
        if a[0] > 170:
            return
        lo, up = call(srv, "GammaLower", a), call(srv, "GammaUpper", a)
        terms = ([lo, up], math.gamma(a[0]))
    elif rel == "psi(x+1)=psi(x)+1/x":
        x = a[0]
        terms = ([call(srv, "Digamma", [x + 1]), None if call(srv, "Digamma", [x]) is None else -call(srv, "Digamma", [x])], 1 / x)
    elif rel == "trigamma(x+1)=trigamma(x)-1/x^2":
        x = a[0]
        t0 = call(srv, "Trigamma", [x])
        terms = ([call(srv, "Trigamma", [x + 1]), None if t0 is None else -t0], -1 / (x * x))
    elif rel == "I(v-1,x)-I(v+1,x)=(2v/x)I(v,x)":
        v, x = a
        i0, i1, i2 = call(srv, "BesselI", [v - 1, x]), call(srv, "BesselI", [v, x]), call(srv, "BesselI", [v + 1, x])
        if None in (i0, i1, i2):
            terms = ([None], 0)
        elif min(abs(i0), abs(i1), abs(i2)) < 1e-290:
            stats.case(desc, ["rel=" + rel, "a term underflows (not asserted)"], False)
            return
        else:
            terms = ([i0, -i2], 2 * v / x * i1)
    elif rel == "LogBesselI=log BesselI":
        i1, l1 = call(srv, "BesselI", a), call(srv, "LogBesselI", a)
        if i1 is None or l1 is None:
            terms = ([None], 0)
        elif i1 <= 0 or math.isinf(i1) or i1 < 1e-300:
            stats.case(desc, ["rel=" + rel, "plain variant under/overflows"], False)
            return
        else:
            terms = ([l1], math.log(i1))
    elif rel == "Factorial(n+1)=(n+1)Factorial(n)":
        n = int(a[0])
        f0, f1 = call(srv, "Factorial", [], [n]), call(srv, "Factorial", [], [n + 1])
        terms = ([f1], (n + 1) * f0)
    elif rel == "Mlgamma=log Mgamma":
        k = int(a[1])
        x = a[0] + (k - 1) / 2.0
        m, l = call(srv, "Mgamma", [x], [k]), call(srv, "Mlgamma", [x], [k])
        if m is None or l is None:
            terms = ([None], 0)
        elif math.isinf(m) or m < 1e-300:
            stats.case(desc, ["rel=" + rel, "plain variant under/overflows"], False)
            return
        else:
            terms = ([l], math.log(m))
    lhs, rhs = terms
    if any(t is None for t in lhs):
        raise Violation("%s: a function of the relation panicked" % desc)
    if any(math.isnan(t) or math.isinf(t) for t in lhs) or math.isnan(rhs) or math.isinf(rhs):
        stats.case(desc, ["rel=" + rel, "non-finite term (not asserted)"], False)
        return
    size = sum(abs(t) for t in lhs) + abs(rhs)
    if rel.startswith("LogBesselI=") or rel.startswith("Mlgamma="):
        size = max(size, 1.0)  # a logarithm: the plain variant is only known to a relative eps
    err = abs(sum(lhs) - rhs)
    # each term carries the function's own tolerance (256 eps) times its conditioning; the relation
    # is asserted with a generous multiple of the size of its terms
    if err <= 4096 * EPS * size:
        stats.case(desc, ["rel=" + rel], True)
        stats.note("max error / (eps size) " + rel, err / (EPS * size) if size else 0.0)
        return
    if stats.known("C13/relation-" + rel, desc):
        return
    # the relations that involve the plain BesselI inherit its recorded loss of digits above x = 700
    if ("BesselI" in rel or rel.startswith("I(v-1")) and a[1] > 700 and stats.known("C13/besseli-loses-digits-where-exp-x-overflows", desc):
        return
    raise Violation("%s: terms %s against %r differ by %.3g = %.3g eps * size" % (desc, lhs, rhs, err, err / (EPS * size)))


def strat_recurrence():
    g = gamma_args().map(lambda t: t[0])
    b = bessel_args().map(lambda t: t[0])
    opts = [
        g.map(lambda a: {"rel": "P+Q=1", "args": [fhex(x) for x in a]}),
        g.filter(lambda a: a[0] < 170).map(lambda a: {"rel": "lower+upper=Gamma(a)", "args": [fhex(x) for x in a]}),
        st.one_of(logpos(-20, 10), st.floats(0.01, 200)).map(lambda x: {"rel": "psi(x+1)=psi(x)+1/x", "args": [fhex(x)]}),
        st.one_of(logpos(-20, 10), st.floats(0.01, 200)).map(lambda x: {"rel": "trigamma(x+1)=trigamma(x)-1/x^2", "args": [fhex(x)]}),
        b.filter(lambda a: a[0] >= 1 and a[1] > 0).map(lambda a: {"rel": "I(v-1,x)-I(v+1,x)=(2v/x)I(v,x)", "args": [fhex(x) for x in a]}),
        b.map(lambda a: {"rel": "LogBesselI=log BesselI", "args": [fhex(x) for x in a]}),
        st.integers(0, 169).map(lambda n: {"rel": "Factorial(n+1)=(n+1)Factorial(n)", "args": [fhex(float(n))]}),
        st.tuples(st.floats(0.1, 30), st.integers(1, 5)).map(lambda t: {"rel": "Mlgamma=log Mgamma", "args": [fhex(t[0]), fhex(float(t[1]))]}),
    ]
    return st.one_of(*opts).filter(lambda c: normal_floats([unhex(a) for a in c["args"]]))


ASPECTS = {
    "special_vs_mpmath": (strat_vs_mpmath(), check_vs_mpmath),
    "special_recurrences": (strat_recurrence(), check_recurrence),
}

def _rel(srv, fn, args, ints, ref):
    r = srv.ask({"k": "special", "fn": fn, "args": [fhex(a) for a in args], "ints": list(ints)})
    if "r" not in r:
        return float("inf"), str(r)
    got = unhex(r["r"][0])
    if math.isnan(got):
        return float("inf"), "NaN"
    return abs(got - ref) / abs(ref), repr(got)


def _wit(fid, fn, args, ints, ref, tol=1e-9):
    def w(srv):
        e, d = _rel(srv, fn, args, ints, ref)
        return fid, e > tol, "%s%s = %s (reference %r)" % (fn, tuple(args) + tuple(ints), d, ref)
    return w


WITNESSES = {
    "polygamma_bernoulli": _wit("C13/polygamma-asymptotic-series-uses-B_k", "Polygamma", [2.0], [2], -0.4041138063191885708),
    "sumseries_init": _wit("C13/sumseries-ignores-its-initial-value", "GammaP", [0.25, 0.25], [], 0.7436779447314611),
    "temme_phi": _wit("C13/temme-expansion-sign-of-sigma", "GammaP", [21.0, 15.75], [], 0.11829093330218296504),
    "gamma_at_zero": (lambda srv: ("C13/incomplete-gamma-nan-at-z-0", math.isnan(unhex(srv.ask({"k": "special", "fn": "GammaP", "args": [fhex(0.01171875), fhex(0.0)], "ints": []}).get("r", ["NaN"])[0])), "GammaP(0.0117, 0)")),
    "gamma_tiny_z": _wit("C13/incomplete-gamma-tiny-z-variants-swapped", "GammaLower", [1.5, 3.754836445209773e-184], [], 4.8505979377778469364e-276),
    "gamma_p_derivative_subnormal": _wit("C13/gamma-p-derivative-subnormal-prefix", "GammaPfirstDerivative", [8.0, 1.2374511831283965e-39], [], 8.8158864986021969731e-277),
    "gamma_p_second_derivative_underflow": _wit("C13/gamma-p-second-derivative-from-an-underflowed-first-derivative", "GammaPsecondDerivative", [6.5, 2.8349462300397132e-61], [], 6.5704475224983738121e-275),
    "besseli_large_x": _wit("C13/besseli-loses-digits-where-exp-x-overflows", "BesselI", [181.0, 720.0], [], 1.067227449643336724e+301, tol=1e-11),
    "logsub_cancellation": _wit("C13/logsub-cancellation", "LogSub", [0.0, -1e-8], [], -18.420680748952367, tol=1e-12),
}

if __name__ == "__main__":
    sys.exit(main(ASPECTS, WITNESSES))
