"""Shared machinery of the Python engine (Hypothesis + mpmath): evaluation server client,
statistics in the driver's format, known findings, failure files, command line."""
import argparse
import hashlib
import json
import math
import os
import subprocess
import sys
import traceback

import mpmath
from hypothesis import HealthCheck, Phase, given, seed, settings
from hypothesis import strategies as st

EPS = 2.0 ** -52


class Violation(Exception):
    pass


def fhex(x):
    x = float(x)
    if math.isnan(x):
        return "NaN"
    if math.isinf(x):
        return "+Inf" if x > 0 else "-Inf"
    return x.hex()


def unhex(s):
    if s == "NaN":
        return float("nan")
    if s in ("+Inf", "Inf"):
        return float("inf")
    if s == "-Inf":
        return float("-inf")
    return float.fromhex(s)


class Server:
    def __init__(self, path):
        self.path = path
        self.p = None
        self.start()

    def start(self):
        self.p = subprocess.Popen([self.path], stdin=subprocess.PIPE, stdout=subprocess.PIPE, text=True, bufsize=1)

    def ask(self, req):
        line = json.dumps(req)
        try:
            self.p.stdin.write(line + "\n")
            self.p.stdin.flush()
            out = self.p.stdout.readline()
        except (BrokenPipeError, OSError):
            out = ""
        if not out:
            # the server died on this request (fatal error in the library): that is an answer
            rc = self.p.poll()
            self.start()
            return {"died": "evaluation server exited (%s) on this request" % rc}
        return json.loads(out)

    def close(self):
        try:
            self.p.stdin.close()
            self.p.wait(timeout=5)
        except Exception:
            self.p.kill()


class Stats:
    def __init__(self, aspect, known_path):
        self.aspect = aspect
        self.evaluations = 0
        self.nontrivial = 0
        self.hashes = set()
        self.classes = {}
        self.samples = {}
        self.known_hits = {}
        self.known_samples = {}
        self.notes = {}
        self.open = set()
        if known_path and os.path.exists(known_path):
            for f in json.load(open(known_path)).get("findings", []):
                if f.get("status") == "open":
                    self.open.add(f["id"])

    def case(self, desc, classes, nontrivial=True):
        self.evaluations += 1
        if nontrivial:
            self.nontrivial += 1
            if len(self.hashes) < 100000:
                self.hashes.add(hashlib.blake2b(desc.encode(), digest_size=8).hexdigest())
        for c in classes:
            self.classes[c] = self.classes.get(c, 0) + 1
            if len(self.samples.setdefault(c, [])) < 2:
                self.samples[c].append(desc[:400])

    def known(self, fid, desc):
        if fid in self.open:
            self.known_hits[fid] = self.known_hits.get(fid, 0) + 1
            self.known_samples.setdefault(fid, desc[:400])
            return True
        return False

    def note(self, key, val):
        self.notes[key] = max(self.notes.get(key, val), val)

    def dump(self, out):
        os.makedirs(out, exist_ok=True)
        d = {self.aspect: {"evaluations": self.evaluations, "nontrivial": self.nontrivial, "level": 0,
                           "hashes": sorted(self.hashes), "classes": self.classes, "samples": self.samples,
                           "known_hits": self.known_hits, "known_samples": self.known_samples, "notes": self.notes}}
        with open(os.path.join(out, "stats.json"), "w") as f:
            json.dump(d, f)


def run_aspect(aspect, strategy, check, args):
    """check(case, srv, stats) raises Violation. Returns process exit code."""
    srv = Server(args.server)
    stats = Stats(aspect, args.known)
    last = {}

    @seed(args.seed)
    @settings(max_examples=args.cases, database=None, deadline=None, derandomize=False, report_multiple_bugs=False,
              suppress_health_check=[HealthCheck.too_slow, HealthCheck.data_too_large, HealthCheck.filter_too_much],
              phases=[Phase.generate] if os.environ.get('VERIF_NOSHRINK') else [Phase.generate, Phase.shrink])
    @given(strategy)
    def test(case):
        last["case"] = case
        check(case, srv, stats)

    rc = 0
    try:
        test()
    except Violation as v:
        rc = 1
        write_failure(args.out, aspect, last.get("case"), str(v))
    except Exception as e:  # harness error or library crash reported as exception
        msg = "".join(traceback.format_exception_only(type(e), e)).strip()
        if isinstance(e, (KeyboardInterrupt,)):
            raise
        rc = 1
        write_failure(args.out, aspect, last.get("case"), "harness exception: " + msg + "\n" + traceback.format_exc()[-1500:])
    stats.dump(args.out)
    srv.close()
    return rc


def write_failure(out, aspect, case, why):
    os.makedirs(os.path.join(out, "failures"), exist_ok=True)
    body = {"kind": "pycase", "aspect": aspect, "case": case, "why": why}
    h = hashlib.sha1(json.dumps(case, sort_keys=True, default=str).encode()).hexdigest()[:12]
    with open(os.path.join(out, "failures", "%s-%s.json" % (aspect, h)), "w") as f:
        json.dump(body, f, indent=1, default=str)
    print("--- FAIL: %s\n    %s\n    case: %s" % (aspect, why[:1500], json.dumps(case, default=str)[:1500]))


def replay_case(path, aspects, args):
    body = json.load(open(path))
    aspect = body["aspect"]
    _, check = aspects[aspect]
    srv = Server(args.server)
    stats = Stats(aspect, args.known)
    try:
        check(body["case"], srv, stats)
    except Violation as v:
        print("--- FAIL: %s\n    %s" % (aspect, str(v)[:1500]))
        srv.close()
        return 1
    srv.close()
    print("replay passes")
    return 0


def main(aspects, witnesses):
    ap = argparse.ArgumentParser()
    ap.add_argument("--aspect")
    ap.add_argument("--cases", type=int, default=100)
    ap.add_argument("--seed", type=int, default=1)
    ap.add_argument("--out", default=".")
    ap.add_argument("--server", required=True)
    ap.add_argument("--known", default="")
    ap.add_argument("--tier", default="quick")
    ap.add_argument("--witness")
    ap.add_argument("--replay")
    args = ap.parse_args()
    mpmath.mp.dps = 50
    if args.witness:
        srv = Server(args.server)
        fid, present, detail = witnesses[args.witness](srv)
        print("KF-STATUS %s %s %s" % (fid, "present" if present else "absent", detail))
        srv.close()
        return 0
    if args.replay:
        return replay_case(args.replay, aspects, args)
    strategy, check = aspects[args.aspect]
    return run_aspect(args.aspect, strategy, check, args)
