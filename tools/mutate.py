#!/usr/bin/env python3
"""Small mutation campaign: single-token mutations in chosen source files of /repo (working tree only,
restored after every mutant), each run against the quick tier of the check that owns the file.
usage: tools/mutate.py <seed> <count>     writes tools/mutation_log.jsonl"""
import json, os, random, re, subprocess, sys

TARGETS = {
    "special/digamma.go": "C13", "special/gamma.go": "C13", "special/bessel.go": "C13", "special/zeta.go": "C13", "special/erfc.go": "C13",
    "algorithm/gaussJordan/gaussJordan.go": "C04", "algorithm/cholesky/cholesky.go": "C05", "algorithm/svd/svd.go": "C05",
    "algorithm/qrAlgorithm/qrAlgorithm.go": "C05", "algorithm/householder/householder.go": "C05",
    "algorithm/bfgs/bfgs.go": "C07", "algorithm/rprop/rprop.go": "C07", "algorithm/newton/newton.go": "C07", "algorithm/lineSearch/lineSearch.go": "C07", "algorithm/saga/saga_dense.go": "C07",
    "statistics/scalarDistribution/gamma.go": "C14", "statistics/scalarDistribution/gev.go": "C14", "statistics/scalarDistribution/negativeBinomial.go": "C14", "statistics/scalarDistribution/beta.go": "C14", "statistics/vectorDistribution/normal.go": "C14",
    "statistics/generic/hmm.go": "C15", "statistics/generic/hmm_viterbi.go": "C15", "statistics/generic/hmm_optimized.go": "C15", "statistics/generic/mixture.go": "C15",
    "statistics/scalarEstimator/normal.go": "C16", "statistics/scalarEstimator/negativeBinomial.go": "C16", "statistics/generic/hmm_baumWelch.go": "C16",
    "avl-tree.go": "C19", "scalar_real64_math.go": "C01", "scalar_real64_derivative.go": "C01",
    "vector_sparse_float64.go": "C11", "matrix_dense_float64.go": "C10", "matrix_dense_float64_math.go": "C03",
    "statistics/config.go": "C18", "vector_dense_float64.go": "C03", "matrix_sparse_float64.go": "C10", "vector_sparse_float64_math.go": "C03",
    "statistics/scalarEstimator/mixture.go": "C16", "statistics/generic/mixture_em.go": "C16", "statistics/vectorEstimator/logisticRegression.go": "C16",
    "statistics/scalarDistribution/pareto.go": "C14", "statistics/scalarDistribution/normal.go": "C14", "statistics/vectorDistribution/t.go": "C14",
    "special/polygamma.go": "C13", "logarithmetic/logarithmetic.go": "C13", "algorithm/determinant/determinant.go": "C04",
    "algorithm/matrixInverse/matrixInverse.go": "C04", "algorithm/blahut/blahut.go": "C07", "algorithm/adam/adam.go": "C07",
    "scalar_real64.go": "C01", "scalar_float64_math.go": "C02", "utility.go": "C18",
}
SWAPS = [(r" \+ ", " - "), (r" - ", " + "), (r" \* ", " / "), (r" < ", " <= "), (r" <= ", " < "), (r" > ", " >= "), (r" >= ", " > "),
         (r" == ", " != "), (r"\+\+", "--"), (r"\b1\.0\b", "2.0"), (r"\b0\.5\b", "0.25"), (r"\bi\+1\b", "i"), (r"\bj-1\b", "j"), (r"&&", "||")]
ENV = dict(os.environ, GOFLAGS="-mod=mod", GOPROXY="off", GOSUMDB="off", GOTOOLCHAIN="local")


def sh(cmd, **kw):
    return subprocess.run(cmd, shell=True, capture_output=True, text=True, env=ENV, **kw)


def main():
    rng = random.Random(int(sys.argv[1]))
    count = int(sys.argv[2])
    log = open("/verif/tools/mutation_log.jsonl", "a")
    files = sorted(TARGETS)
    done = 0
    tries = 0
    while done < count and tries < count * 400:
        tries += 1
        f = rng.choice(files)
        path = os.path.join("/repo", f)
        lines = open(path).read().split("\n")
        cand = [i for i, l in enumerate(lines) if not l.strip().startswith(("//", "/*", "*", "import", "package", "panic", "return fmt", "fmt.")) and "Errorf" not in l and "func " not in l]
        i = rng.choice(cand)
        pat, rep = rng.choice(SWAPS)
        ms = list(re.finditer(pat, lines[i]))
        if not ms:
            continue
        m = rng.choice(ms)
        new = lines[i][:m.start()] + rep + lines[i][m.end():]
        if new == lines[i]:
            continue
        mutated = lines[:]
        mutated[i] = new
        open(path, "w").write("\n".join(mutated))
        pkg = "./" + os.path.dirname(f) if os.path.dirname(f) else "."
        b = sh("cd /repo && go build %s" % pkg)
        if b.returncode != 0:
            sh("git -C /repo checkout -- .")
            continue
        pid = TARGETS[f]
        r = sh("cd /verif && VERIF_SEED=1 timeout 900 bin/check %s --tier quick" % pid)
        detected = "VIOLATION" in r.stdout
        sh("git -C /repo checkout -- .")
        # drop the replays this mutant produced
        sh("cd /verif && git status --short replays/%s | grep '^??' | awk '{print $2}' | grep -v KF_ | xargs -r rm -f" % pid)
        rec = {"file": f, "line": i + 1, "old": lines[i].strip(), "new": new.strip(), "check": pid, "detected": detected, "rc": r.returncode}
        log.write(json.dumps(rec) + "\n")
        log.flush()
        print(("DETECTED " if detected else "SURVIVED ") + "%s:%d  %s  ->  %s" % (f, i + 1, lines[i].strip()[:70], new.strip()[:70]), flush=True)
        done += 1
    sh("git -C /repo checkout -- .")


if __name__ == "__main__":
    main()
