#!/usr/bin/env python3
"""Second pass over the survivors of tools/mutate.py: each is re-applied and run against every check whose
property could own it (quick tier) until one reports a violation."""
import json, os, subprocess, sys
ENV = dict(os.environ, GOFLAGS="-mod=mod", GOPROXY="off", GOSUMDB="off", GOTOOLCHAIN="local")
def sh(cmd): return subprocess.run(cmd, shell=True, capture_output=True, text=True, env=ENV)
def group(f):
    if f.startswith("special/"): return ["C01", "C14", "C02"]
    if f.startswith("algorithm/"): return ["C04", "C05", "C06", "C07", "C20", "C12", "C16"]
    if f.startswith("statistics/"): return ["C14", "C15", "C16", "C17", "C18"]
    return ["C02", "C03", "C08", "C09", "C10", "C11", "C12", "C01", "C06", "C20"]
recs = [json.loads(l) for l in open("/verif/tools/mutation_log.jsonl")]
out = open("/verif/tools/mutation_second_pass.jsonl", "a")
for d in recs:
    if d["detected"]:
        continue
    path = "/repo/" + d["file"]
    lines = open(path).read().split("\n")
    i = d["line"] - 1
    if lines[i].strip() != d["old"]:
        print("SKIP (source moved)", d["file"], d["line"]); continue
    indent = lines[i][:len(lines[i]) - len(lines[i].lstrip())]
    lines[i] = indent + d["new"]
    open(path, "w").write("\n".join(lines))
    found = None
    for pid in group(d["file"]):
        if pid == d["check"]:
            continue
        r = sh("cd /verif && VERIF_SEED=1 timeout 900 bin/check %s --tier quick" % pid)
        sh("cd /verif && git status --short replays/%s | grep '^??' | awk '{print $2}' | grep -v KF_ | xargs -r rm -f" % pid)
        if "VIOLATION" in r.stdout:
            found = pid
            break
    sh("git -C /repo checkout -- .")
    d2 = dict(d, second_pass=found)
    out.write(json.dumps(d2) + "\n"); out.flush()
    print(("DETECTED by %s" % found) if found else "SURVIVED all", d["file"], d["line"], "|", d["old"][:60], "->", d["new"][:60], flush=True)
sh("git -C /repo checkout -- .")
