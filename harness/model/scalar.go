// Package model: observers (full observable state -> plain Go values) and reference models.
package model

import (
	"fmt"
	"math"

	. "github.com/pbenner/autodiff"
)

// SState is the whole observable state of a scalar.
type SState struct {
	Type  string
	Val   float64
	Order int
	N     int
	Grad  []float64
	Hess  [][]float64
}

// ObsScalar reads the full observable state through the public read interface.
func ObsScalar(s ConstScalar) SState {
	r := SState{Type: fmt.Sprint(s.Type()), Val: s.GetFloat64(), Order: s.GetOrder(), N: s.GetN()}
	if r.Order >= 1 {
		r.Grad = make([]float64, r.N)
		for i := 0; i < r.N; i++ {
			r.Grad[i] = s.GetDerivative(i)
		}
	}
	if r.Order >= 2 {
		r.Hess = make([][]float64, r.N)
		for i := 0; i < r.N; i++ {
			r.Hess[i] = make([]float64, r.N)
			for j := 0; j < r.N; j++ {
				r.Hess[i][j] = s.GetHessian(i, j)
			}
		}
	}
	return r
}

// SameBits: equal as IEEE values, NaN == NaN, +0 != -0 only if strictZero.
func SameBits(a, b float64, strictZero bool) bool {
	if math.IsNaN(a) || math.IsNaN(b) {
		return math.IsNaN(a) && math.IsNaN(b)
	}
	if strictZero {
		return math.Float64bits(a) == math.Float64bits(b)
	}
	return a == b
}

// Close: |a-b| <= rel*max(|a|,|b|) + abs, with NaN==NaN and equal infinities.
func Close(a, b, rel, abs float64) bool {
	if math.IsNaN(a) || math.IsNaN(b) {
		return math.IsNaN(a) && math.IsNaN(b)
	}
	if math.IsInf(a, 0) || math.IsInf(b, 0) {
		return a == b
	}
	return math.Abs(a-b) <= rel*math.Max(math.Abs(a), math.Abs(b))+abs
}

// Diff compares two scalar states.  Value and derivative *content* are compared (a scalar of
// order 0 equals a scalar of order 2 with all-zero derivatives: both are observably "no
// derivative" through GetDerivative/GetHessian), with relative tolerance rel (0 = exact).
// When structural is true, Order and N must agree as well.
func (a SState) Diff(b SState, rel float64, structural bool) string {
	cmp := func(x, y float64) bool {
		if rel == 0 {
			return SameBits(x, y, false)
		}
		return Close(x, y, rel, 0)
	}
	if !cmp(a.Val, b.Val) {
		return fmt.Sprintf("value %v vs %v", a.Val, b.Val)
	}
	if structural && (a.Order != b.Order || a.N != b.N) {
		return fmt.Sprintf("order/N (%d,%d) vs (%d,%d)", a.Order, a.N, b.Order, b.N)
	}
	n := a.N
	if b.N > n {
		n = b.N
	}
	g := func(s SState, i int) float64 {
		if s.Order >= 1 && i < s.N {
			return s.Grad[i]
		}
		return 0
	}
	h := func(s SState, i, j int) float64 {
		if s.Order >= 2 && i < s.N && j < s.N {
			return s.Hess[i][j]
		}
		return 0
	}
	for i := 0; i < n; i++ {
		if !cmp(g(a, i), g(b, i)) {
			return fmt.Sprintf("derivative[%d] %v vs %v", i, g(a, i), g(b, i))
		}
	}
	for i := 0; i < n; i++ {
		for j := 0; j < n; j++ {
			if !cmp(h(a, i, j), h(b, i, j)) {
				return fmt.Sprintf("hessian[%d][%d] %v vs %v", i, j, h(a, i, j), h(b, i, j))
			}
		}
	}
	return ""
}

func (a SState) String() string {
	return fmt.Sprintf("{%s v=%v order=%d N=%d g=%v H=%v}", a.Type, a.Val, a.Order, a.N, a.Grad, a.Hess)
}

// Ulps returns |a-b| in units of the spacing of float64 numbers at max(|a|,|b|).
func Ulps(a, b float64) float64 {
	if a == b || (math.IsNaN(a) && math.IsNaN(b)) {
		return 0
	}
	if math.IsNaN(a) || math.IsNaN(b) || math.IsInf(a, 0) || math.IsInf(b, 0) {
		return math.Inf(1)
	}
	m := math.Max(math.Abs(a), math.Abs(b))
	u := math.Nextafter(m, math.Inf(1)) - m
	return math.Abs(a-b) / u
}

// NoDerivatives: every derivative slot reads zero.
func (a SState) NoDerivatives() bool {
	for _, g := range a.Grad {
		if g != 0 {
			return false
		}
	}
	for _, r := range a.Hess {
		for _, h := range r {
			if h != 0 {
				return false
			}
		}
	}
	return true
}

// IsZeroState: value zero and all derivative slots zero.
func (a SState) IsZeroState() bool { return a.Val == 0 && a.NoDerivatives() }

func canonF(v float64) string {
	if v == 0 {
		return "0"
	}
	return fmt.Sprintf("%x", v)
}

// Canon is a canonical string of the observable *content* of a scalar state: value, the gradient
// if any entry is non-zero, the Hessian if any entry is non-zero.  Two scalars with equal Canon are
// indistinguishable through GetFloat64/GetDerivative/GetHessian (allocation order/N with all-zero
// derivatives is not content; -0 and +0 are identified).
func (a SState) Canon() string {
	s := canonF(a.Val)
	if !a.NoDerivatives() {
		s += "'"
		for _, g := range a.Grad {
			s += canonF(g) + ","
		}
		for _, r := range a.Hess {
			for _, h := range r {
				if h != 0 {
					s += "''"
					for _, r2 := range a.Hess {
						for _, h2 := range r2 {
							s += canonF(h2) + ","
						}
					}
					return s
				}
			}
		}
	}
	return s
}

func (a VState) Canon() string {
	s := fmt.Sprintf("%d[", a.N)
	for _, e := range a.E {
		s += e.Canon() + " "
	}
	return s + "]"
}

func (a MState) Canon() string {
	s := fmt.Sprintf("%dx%d[", a.Rows, a.Cols)
	for _, r := range a.E {
		for _, e := range r {
			s += e.Canon() + " "
		}
		s += ";"
	}
	return s + "]"
}
