package model

import (
	"math"

	. "github.com/pbenner/autodiff"
)

// Plain float64 matrices for the harness' own linear algebra (never the library's products).
type Mat [][]float64

func NewMat(r, c int) Mat {
	m := make(Mat, r)
	for i := range m {
		m[i] = make([]float64, c)
	}
	return m
}

func Identity(n int) Mat {
	m := NewMat(n, n)
	for i := 0; i < n; i++ {
		m[i][i] = 1
	}
	return m
}

func (a Mat) Dims() (int, int) {
	if len(a) == 0 {
		return 0, 0
	}
	return len(a), len(a[0])
}

func (a Mat) Clone() Mat {
	r := make(Mat, len(a))
	for i := range a {
		r[i] = append([]float64{}, a[i]...)
	}
	return r
}

func (a Mat) T() Mat {
	r, c := a.Dims()
	m := NewMat(c, r)
	for i := 0; i < r; i++ {
		for j := 0; j < c; j++ {
			m[j][i] = a[i][j]
		}
	}
	return m
}

func (a Mat) Mul(b Mat) Mat {
	n, k := a.Dims()
	_, m := b.Dims()
	r := NewMat(n, m)
	for i := 0; i < n; i++ {
		for j := 0; j < m; j++ {
			s := 0.0
			for l := 0; l < k; l++ {
				s += a[i][l] * b[l][j]
			}
			r[i][j] = s
		}
	}
	return r
}

func (a Mat) MulVec(x []float64) []float64 {
	r := make([]float64, len(a))
	for i := range a {
		for j := range x {
			r[i] += a[i][j] * x[j]
		}
	}
	return r
}

func (a Mat) Sub(b Mat) Mat {
	r := a.Clone()
	for i := range r {
		for j := range r[i] {
			r[i][j] -= b[i][j]
		}
	}
	return r
}

// MaxAbs is the max-norm; NaN if any entry is NaN.
func (a Mat) MaxAbs() float64 {
	m := 0.0
	for i := range a {
		for _, v := range a[i] {
			if math.IsNaN(v) {
				return math.NaN()
			}
			if x := math.Abs(v); x > m {
				m = x
			}
		}
	}
	return m
}

func (a Mat) AllFinite() bool {
	for i := range a {
		for _, v := range a[i] {
			if math.IsNaN(v) || math.IsInf(v, 0) {
				return false
			}
		}
	}
	return true
}

// FromMatrix reads a library matrix through Float64At.
func FromMatrix(m ConstMatrix) Mat {
	r, c := m.Dims()
	a := NewMat(r, c)
	for i := 0; i < r; i++ {
		for j := 0; j < c; j++ {
			a[i][j] = m.Float64At(i, j)
		}
	}
	return a
}

func FromVector(v ConstVector) []float64 {
	r := make([]float64, v.Dim())
	for i := range r {
		r[i] = v.Float64At(i)
	}
	return r
}

// Det by LU with partial pivoting (harness-own).
func (a Mat) Det() float64 {
	n := len(a)
	m := a.Clone()
	det := 1.0
	for c := 0; c < n; c++ {
		p := c
		for r := c + 1; r < n; r++ {
			if math.Abs(m[r][c]) > math.Abs(m[p][c]) {
				p = r
			}
		}
		if m[p][c] == 0 {
			return 0
		}
		if p != c {
			m[p], m[c] = m[c], m[p]
			det = -det
		}
		det *= m[c][c]
		for r := c + 1; r < n; r++ {
			f := m[r][c] / m[c][c]
			for k := c; k < n; k++ {
				m[r][k] -= f * m[c][k]
			}
		}
	}
	return det
}

// Solve a x = b by LU with partial pivoting (harness-own reference for small systems).
func (a Mat) Solve(b []float64) []float64 {
	n := len(a)
	m := a.Clone()
	x := append([]float64{}, b...)
	for c := 0; c < n; c++ {
		p := c
		for r := c + 1; r < n; r++ {
			if math.Abs(m[r][c]) > math.Abs(m[p][c]) {
				p = r
			}
		}
		m[p], m[c] = m[c], m[p]
		x[p], x[c] = x[c], x[p]
		for r := c + 1; r < n; r++ {
			f := m[r][c] / m[c][c]
			for k := c; k < n; k++ {
				m[r][k] -= f * m[c][k]
			}
			x[r] -= f * x[c]
		}
	}
	for r := n - 1; r >= 0; r-- {
		for k := r + 1; k < n; k++ {
			x[r] -= m[r][k] * x[k]
		}
		x[r] /= m[r][r]
	}
	return x
}

func VecMaxAbs(x []float64) float64 {
	m := 0.0
	for _, v := range x {
		if math.IsNaN(v) {
			return math.NaN()
		}
		if a := math.Abs(v); a > m {
			m = a
		}
	}
	return m
}
