package model

import (
	"fmt"

	. "github.com/pbenner/autodiff"
)

// VState is the whole observable state of a vector: dimension plus every element.
type VState struct {
	N int
	E []SState
}

// ObsVector reads every element through ConstAt; it also checks that Float64At (a separate
// code path in sparse containers) agrees and returns a non-empty error string otherwise.
func ObsVector(v ConstVector) (VState, string) {
	n := v.Dim()
	r := VState{N: n, E: make([]SState, n)}
	bad := ""
	for i := 0; i < n; i++ {
		c := v.ConstAt(i)
		if c == nil {
			bad = fmt.Sprintf("ConstAt(%d) returned nil", i)
			r.E[i] = SState{Type: "nil"}
			continue
		}
		r.E[i] = ObsScalar(c)
		if f := v.Float64At(i); !SameBits(f, r.E[i].Val, false) && bad == "" {
			bad = fmt.Sprintf("Float64At(%d)=%v but ConstAt(%d)=%v", i, f, i, r.E[i].Val)
		}
	}
	return r, bad
}

// ObsScalars turns model elements into a VState.
func ObsScalars(m []Scalar) VState {
	r := VState{N: len(m), E: make([]SState, len(m))}
	for i, s := range m {
		r.E[i] = ObsScalar(s)
	}
	return r
}

// Diff compares two vector states element-wise (see SState.Diff).
func (a VState) Diff(b VState, rel float64) string {
	if a.N != b.N {
		return fmt.Sprintf("dimension %d vs %d", a.N, b.N)
	}
	for i := range a.E {
		if d := a.E[i].Diff(b.E[i], rel, false); d != "" {
			return fmt.Sprintf("element %d: %s", i, d)
		}
	}
	return ""
}

func (a VState) Values() []float64 {
	r := make([]float64, a.N)
	for i := range r {
		r[i] = a.E[i].Val
	}
	return r
}

func (a VState) String() string {
	s := "["
	for i, e := range a.E {
		if i > 0 {
			s += " "
		}
		s += fmt.Sprint(e.Val)
		if e.Order >= 1 {
			s += fmt.Sprintf("'%v", e.Grad)
		}
		if e.Order >= 2 {
			s += fmt.Sprintf("''%v", e.Hess)
		}
	}
	return s + "]"
}

// MState is the whole observable state of a matrix.
type MState struct {
	Rows, Cols int
	E          [][]SState
}

func ObsMatrix(m ConstMatrix) (MState, string) {
	rows, cols := m.Dims()
	r := MState{Rows: rows, Cols: cols, E: make([][]SState, rows)}
	bad := ""
	for i := 0; i < rows; i++ {
		r.E[i] = make([]SState, cols)
		for j := 0; j < cols; j++ {
			c := m.ConstAt(i, j)
			if c == nil {
				bad = fmt.Sprintf("ConstAt(%d,%d) returned nil", i, j)
				r.E[i][j] = SState{Type: "nil"}
				continue
			}
			r.E[i][j] = ObsScalar(c)
			if f := m.Float64At(i, j); !SameBits(f, r.E[i][j].Val, false) && bad == "" {
				bad = fmt.Sprintf("Float64At(%d,%d)=%v but ConstAt=%v", i, j, f, r.E[i][j].Val)
			}
		}
	}
	return r, bad
}

func ObsScalarGrid(m [][]Scalar, rows, cols int) MState {
	r := MState{Rows: rows, Cols: cols, E: make([][]SState, rows)}
	for i := 0; i < rows; i++ {
		r.E[i] = make([]SState, cols)
		for j := 0; j < cols; j++ {
			r.E[i][j] = ObsScalar(m[i][j])
		}
	}
	return r
}

func (a MState) Diff(b MState, rel float64) string {
	if a.Rows != b.Rows || a.Cols != b.Cols {
		return fmt.Sprintf("dimensions %dx%d vs %dx%d", a.Rows, a.Cols, b.Rows, b.Cols)
	}
	for i := range a.E {
		for j := range a.E[i] {
			if d := a.E[i][j].Diff(b.E[i][j], rel, false); d != "" {
				return fmt.Sprintf("element (%d,%d): %s", i, j, d)
			}
		}
	}
	return ""
}

func (a MState) String() string {
	s := "["
	for i := range a.E {
		if i > 0 {
			s += "; "
		}
		for j, e := range a.E[i] {
			if j > 0 {
				s += " "
			}
			s += fmt.Sprint(e.Val)
			if e.Order >= 1 {
				s += fmt.Sprintf("'%v", e.Grad)
			}
		}
	}
	return s + "]"
}
