package model

import "math"

// Explicit enumeration of hidden paths: the reference for C15. Everything is on log scale and
// written with plain float64 arithmetic (no library calls).

func LogAdd(a, b float64) float64 {
	if math.IsInf(a, -1) {
		return b
	}
	if math.IsInf(b, -1) {
		return a
	}
	if a < b {
		a, b = b, a
	}
	return a + math.Log1p(math.Exp(b-a))
}

// LogSumExp is the two-pass form (max first), more accurate than a chain of LogAdd.
func LogSumExp(xs []float64) float64 {
	mx := math.Inf(-1)
	for _, x := range xs {
		if x > mx {
			mx = x
		}
	}
	if math.IsInf(mx, -1) {
		return mx
	}
	s := 0.0
	for _, x := range xs {
		s += math.Exp(x - mx)
	}
	return mx + math.Log(s)
}

// HmmModel holds log-scale parameters: Pi[i], Tr[i][j] (inner transitions), Tf[i][j] (last
// transition), Map[i] = emission class of state i.
type HmmModel struct {
	M      int
	Pi     []float64
	Tr, Tf [][]float64
	Map    []int
}

// Joint returns log p(path, x) for the emission table e[class][position].
func (h HmmModel) Joint(path []int, e [][]float64) float64 {
	n := len(path)
	if n == 0 {
		return 0
	}
	r := h.Pi[path[0]] + e[h.Map[path[0]]][0]
	for k := 1; k < n; k++ {
		tr := h.Tr
		if k == n-1 {
			tr = h.Tf
		}
		r += tr[path[k-1]][path[k]] + e[h.Map[path[k]]][k]
		if math.IsNaN(r) {
			return r
		}
	}
	return r
}

// Enumerate calls f for every one of the M^n hidden paths.
func (h HmmModel) Enumerate(n int, e [][]float64, f func(path []int, logJoint float64)) {
	path := make([]int, n)
	for {
		f(path, h.Joint(path, e))
		k := n - 1
		for k >= 0 {
			path[k]++
			if path[k] < h.M {
				break
			}
			path[k] = 0
			k--
		}
		if k < 0 {
			return
		}
	}
}

// PathStats collects, by enumeration: total = log p(x); marg[k][i] = log p(x, y_k = i);
// pair[k][i][j] = log p(x, y_k = i, y_k+1 = j); best = max log joint.
type PathStats struct {
	Total float64
	Marg  [][]float64
	Pair  [][][]float64
	Best  float64
	NaN   bool
}

func (h HmmModel) Stats(n int, e [][]float64) PathStats {
	var all []float64
	marg := make([][][]float64, n)
	pair := make([][][][]float64, n)
	for k := 0; k < n; k++ {
		marg[k] = make([][]float64, h.M)
		pair[k] = make([][][]float64, h.M)
		for i := 0; i < h.M; i++ {
			pair[k][i] = make([][]float64, h.M)
		}
	}
	st := PathStats{Best: math.Inf(-1)}
	h.Enumerate(n, e, func(path []int, lj float64) {
		if math.IsNaN(lj) {
			st.NaN = true
			return
		}
		all = append(all, lj)
		if lj > st.Best {
			st.Best = lj
		}
		if math.IsInf(lj, -1) {
			return
		}
		for k := 0; k < n; k++ {
			marg[k][path[k]] = append(marg[k][path[k]], lj)
			if k+1 < n {
				pair[k][path[k]][path[k+1]] = append(pair[k][path[k]][path[k+1]], lj)
			}
		}
	})
	st.Total = LogSumExp(all)
	st.Marg = make([][]float64, n)
	st.Pair = make([][][]float64, n)
	for k := 0; k < n; k++ {
		st.Marg[k] = make([]float64, h.M)
		st.Pair[k] = make([][]float64, h.M)
		for i := 0; i < h.M; i++ {
			st.Marg[k][i] = LogSumExp(marg[k][i])
			st.Pair[k][i] = make([]float64, h.M)
			for j := 0; j < h.M; j++ {
				st.Pair[k][i][j] = LogSumExp(pair[k][i][j])
			}
		}
	}
	return st
}

// SetMass returns log of the joint mass of all paths with path[k] in sets[k] for every k.
func (h HmmModel) SetMass(n int, e [][]float64, sets [][]int) float64 {
	in := make([][]bool, n)
	for k := range in {
		in[k] = make([]bool, h.M)
		for _, s := range sets[k] {
			in[k][s] = true
		}
	}
	var all []float64
	h.Enumerate(n, e, func(path []int, lj float64) {
		for k := 0; k < n; k++ {
			if !in[k][path[k]] {
				return
			}
		}
		all = append(all, lj)
	})
	return LogSumExp(all)
}
