// Package scal: table of the scalar operations of the Scalar interface with, for each, a
// reference closure written only in terms of Go's math package (and, for the four
// special-function rows, the special package whose accuracy property C13 owns), a domain
// generator and the call adapter.  Shared by C02, C08, C09.
package scal

import (
	"math"

	. "github.com/pbenner/autodiff"
	"github.com/pbenner/autodiff/special"
	"pgregory.net/rapid"
	"verifharness/gen"
)

// Args are the plain-number arguments of one call.
type Args struct {
	X, Y  float64 // scalar operand values (Y unused for unary)
	Extra float64 // Mlgamma k, GammaP a, BesselI v
}

type Op struct {
	Name      string
	Arity     int // number of scalar operands (1 or 2)
	Temps     int // number of temporaries the method takes
	HasExtra  bool
	MultiStep bool // implemented by several scalar operations on the receiver (alias-sensitive, looser float tolerance)
	IntOK     bool // claimed for integer receivers
	Ref       func(a Args) float64
	Draw      func(t *rapid.T, wide bool) Args // operands in the op's domain; wide=false keeps |x| small (float32 multi-step)
	Call      func(r Scalar, a, b ConstScalar, extra float64, tmp []Scalar) Scalar
	Classify  func(a Args) string // optional branch/region label
}

func stableLog1pExp(x float64) float64 {
	if x > 0 {
		return x + math.Log1p(math.Exp(-x))
	}
	return math.Log1p(math.Exp(x))
}

func stableSigmoid(x float64) float64 {
	if x >= 0 {
		return 1 / (1 + math.Exp(-x))
	}
	e := math.Exp(x)
	return e / (1 + e)
}

func logAdd(a, b float64) float64 {
	if math.IsInf(a, -1) {
		return b
	}
	if math.IsInf(b, -1) {
		return a
	}
	m := math.Max(a, b)
	return m + math.Log1p(math.Exp(-math.Abs(a-b)))
}

func logSub(a, b float64) float64 {
	if math.IsInf(b, -1) {
		return a
	}
	// log(1 - exp(x)) without cancellation for x close to 0
	if x := b - a; x > -math.Ln2 {
		return a + math.Log(-math.Expm1(x))
	}
	return a + math.Log1p(-math.Exp(b-a))
}

func anyX(t *rapid.T, wide bool) Args {
	if wide {
		return Args{X: gen.Float(t, "x", -20, 8)}
	}
	return Args{X: gen.Float(t, "x", -10, 5)}
}

func posX(t *rapid.T, wide bool) Args {
	if wide {
		return Args{X: gen.Positive(t, "x", -20, 20)}
	}
	return Args{X: gen.Positive(t, "x", -10, 6)}
}

func anyXY(t *rapid.T, wide bool) Args {
	a := anyX(t, wide)
	if wide {
		a.Y = gen.Float(t, "y", -20, 8)
	} else {
		a.Y = gen.Float(t, "y", -10, 5)
	}
	return a
}

func un(f func(r Scalar, a ConstScalar) Scalar) func(Scalar, ConstScalar, ConstScalar, float64, []Scalar) Scalar {
	return func(r Scalar, a, b ConstScalar, e float64, tmp []Scalar) Scalar { return f(r, a) }
}

func bin(f func(r Scalar, a, b ConstScalar) Scalar) func(Scalar, ConstScalar, ConstScalar, float64, []Scalar) Scalar {
	return func(r Scalar, a, b ConstScalar, e float64, tmp []Scalar) Scalar { return f(r, a, b) }
}

func unary(name string, ref func(float64) float64, draw func(*rapid.T, bool) Args, f func(r Scalar, a ConstScalar) Scalar) Op {
	return Op{Name: name, Arity: 1, Ref: func(a Args) float64 { return ref(a.X) }, Draw: draw, Call: un(f)}
}

// Ops is the table.
var Ops = []Op{
	{Name: "Neg", Arity: 1, IntOK: true, Ref: func(a Args) float64 { return -a.X }, Draw: anyX,
		Call: un(func(r Scalar, a ConstScalar) Scalar { return r.Neg(a) })},
	{Name: "Abs", Arity: 1, IntOK: true, Ref: func(a Args) float64 { return math.Abs(a.X) }, Draw: anyX,
		Call: un(func(r Scalar, a ConstScalar) Scalar { return r.Abs(a) }),
		Classify: func(a Args) string {
			switch {
			case a.X < 0:
				return "Abs:neg"
			case a.X > 0:
				return "Abs:pos"
			}
			return "Abs:zero"
		}},
	{Name: "Add", Arity: 2, IntOK: true, Ref: func(a Args) float64 { return a.X + a.Y }, Draw: anyXY,
		Call: bin(func(r Scalar, a, b ConstScalar) Scalar { return r.Add(a, b) })},
	{Name: "Sub", Arity: 2, IntOK: true, Ref: func(a Args) float64 { return a.X - a.Y }, Draw: anyXY,
		Call: bin(func(r Scalar, a, b ConstScalar) Scalar { return r.Sub(a, b) })},
	{Name: "Mul", Arity: 2, IntOK: true, Ref: func(a Args) float64 { return a.X * a.Y }, Draw: anyXY,
		Call: bin(func(r Scalar, a, b ConstScalar) Scalar { return r.Mul(a, b) })},
	{Name: "Div", Arity: 2, IntOK: true, Ref: func(a Args) float64 { return a.X / a.Y },
		Draw: func(t *rapid.T, wide bool) Args {
			a := anyXY(t, wide)
			if a.Y == 0 {
				a.Y = 1
			}
			return a
		},
		Call: bin(func(r Scalar, a, b ConstScalar) Scalar { return r.Div(a, b) })},
	{Name: "Min", Arity: 2, IntOK: true, Ref: func(a Args) float64 { return math.Min(a.X, a.Y) }, Draw: anyXY,
		Call: bin(func(r Scalar, a, b ConstScalar) Scalar { return r.Min(a, b) })},
	{Name: "Max", Arity: 2, IntOK: true, Ref: func(a Args) float64 { return math.Max(a.X, a.Y) }, Draw: anyXY,
		Call: bin(func(r Scalar, a, b ConstScalar) Scalar { return r.Max(a, b) })},
	{Name: "Pow", Arity: 2, Ref: func(a Args) float64 { return math.Pow(a.X, a.Y) },
		Draw: func(t *rapid.T, wide bool) Args {
			x := gen.Positive(t, "x", -6, 6)
			ys := []float64{0, 1, 2, 0.5, -1, 3, -0.5, 1.5}
			var y float64
			if rapid.Bool().Draw(t, "ytab") {
				y = ys[rapid.IntRange(0, len(ys)-1).Draw(t, "y")]
			} else {
				y = gen.Dyadic(t, "y")
			}
			return Args{X: x, Y: y}
		},
		Call: bin(func(r Scalar, a, b ConstScalar) Scalar { return r.Pow(a, b) })},
	unary("Sqrt", math.Sqrt, posX, func(r Scalar, a ConstScalar) Scalar { return r.Sqrt(a) }),
	unary("Sin", math.Sin, anyX, func(r Scalar, a ConstScalar) Scalar { return r.Sin(a) }),
	unary("Sinh", math.Sinh, anyX, func(r Scalar, a ConstScalar) Scalar { return r.Sinh(a) }),
	unary("Cos", math.Cos, anyX, func(r Scalar, a ConstScalar) Scalar { return r.Cos(a) }),
	unary("Cosh", math.Cosh, anyX, func(r Scalar, a ConstScalar) Scalar { return r.Cosh(a) }),
	unary("Tan", math.Tan, anyX, func(r Scalar, a ConstScalar) Scalar { return r.Tan(a) }),
	unary("Tanh", math.Tanh, anyX, func(r Scalar, a ConstScalar) Scalar { return r.Tanh(a) }),
	unary("Exp", math.Exp, anyX, func(r Scalar, a ConstScalar) Scalar { return r.Exp(a) }),
	unary("Log", math.Log, posX, func(r Scalar, a ConstScalar) Scalar { return r.Log(a) }),
	unary("Log1p", math.Log1p, func(t *rapid.T, wide bool) Args {
		if rapid.Bool().Draw(t, "neg") {
			return Args{X: -float64(rapid.IntRange(0, 1<<20-1).Draw(t, "m")) / float64(1<<20)}
		}
		return posX(t, wide)
	}, func(r Scalar, a ConstScalar) Scalar { return r.Log1p(a) }),
	unary("Erf", math.Erf, anyX, func(r Scalar, a ConstScalar) Scalar { return r.Erf(a) }),
	unary("Erfc", math.Erfc, anyX, func(r Scalar, a ConstScalar) Scalar { return r.Erfc(a) }),
	unary("LogErfc", func(x float64) float64 {
		// independent formulation: log(erfc x) for moderate x, asymptotic-free via scaled relation beyond
		if x < 20 {
			return math.Log(math.Erfc(x))
		}
		// erfc(x) ~ exp(-x^2)/(x sqrt(pi)) * (1 - 1/(2x^2) + 3/(4x^4) - 15/(8x^6))
		x2 := x * x
		return -x2 - math.Log(x*math.SqrtPi) + math.Log1p(-1/(2*x2)+3/(4*x2*x2)-15/(8*x2*x2*x2))
	}, func(t *rapid.T, wide bool) Args {
		return Args{X: gen.Float(t, "x", -10, 5)}
	}, func(r Scalar, a ConstScalar) Scalar { return r.LogErfc(a) }),
	unary("Gamma", math.Gamma, func(t *rapid.T, wide bool) Args {
		return Args{X: gen.Positive(t, "x", -6, 6)}
	}, func(r Scalar, a ConstScalar) Scalar { return r.Gamma(a) }),
	unary("Lgamma", func(x float64) float64 { v, _ := math.Lgamma(x); return v }, func(t *rapid.T, wide bool) Args {
		return Args{X: gen.Positive(t, "x", -6, 10)}
	}, func(r Scalar, a ConstScalar) Scalar { return r.Lgamma(a) }),
	{Name: "Mlgamma", Arity: 1, HasExtra: true,
		Ref: func(a Args) float64 {
			k := int(a.Extra)
			s := float64(k*(k-1)) / 4 * math.Log(math.Pi)
			for j := 1; j <= k; j++ {
				v, _ := math.Lgamma(a.X + float64(1-j)/2)
				s += v
			}
			return s
		},
		Draw: func(t *rapid.T, wide bool) Args {
			k := rapid.IntRange(1, 5).Draw(t, "k")
			return Args{X: float64(k-1)/2 + gen.Positive(t, "x", -3, 5), Extra: float64(k)}
		},
		Call: func(r Scalar, a, b ConstScalar, e float64, tmp []Scalar) Scalar { return r.Mlgamma(a, int(e)) }},
	{Name: "GammaP", Arity: 1, HasExtra: true,
		Ref:  func(a Args) float64 { return special.GammaP(a.Extra, a.X) },
		Draw: func(t *rapid.T, wide bool) Args { return Args{X: gen.Positive(t, "x", -6, 6), Extra: gen.Positive(t, "a", -4, 5)} },
		Call: func(r Scalar, a, b ConstScalar, e float64, tmp []Scalar) Scalar { return r.GammaP(e, a) }},
	{Name: "BesselI", Arity: 1, HasExtra: true,
		Ref: func(a Args) float64 { return special.BesselI(a.Extra, a.X) },
		Draw: func(t *rapid.T, wide bool) Args {
			return Args{X: gen.Positive(t, "x", -6, 5), Extra: float64(rapid.IntRange(0, 12).Draw(t, "v2")) / 2}
		},
		Call: func(r Scalar, a, b ConstScalar, e float64, tmp []Scalar) Scalar { return r.BesselI(e, a) }},
	{Name: "Log1pExp", Arity: 1, MultiStep: true, Ref: func(a Args) float64 { return stableLog1pExp(a.X) },
		Draw: func(t *rapid.T, wide bool) Args {
			return Args{X: gen.Float(t, "x", -6, 6, -37, 18, 33.3, -40, 0, 10, 25, 40)}
		},
		Call: un(func(r Scalar, a ConstScalar) Scalar { return r.Log1pExp(a) }),
		Classify: func(a Args) string {
			switch {
			case a.X <= -37:
				return "Log1pExp:x<=-37"
			case a.X <= 18:
				return "Log1pExp:-37<x<=18"
			case a.X <= 33.3:
				return "Log1pExp:18<x<=33.3"
			}
			return "Log1pExp:x>33.3"
		}},
	{Name: "Logistic", Arity: 1, MultiStep: true, Ref: func(a Args) float64 { return stableSigmoid(a.X) },
		Draw: func(t *rapid.T, wide bool) Args { return Args{X: gen.Float(t, "x", -6, 6)} },
		Call: un(func(r Scalar, a ConstScalar) Scalar { return r.Logistic(a) })},
	{Name: "Sigmoid", Arity: 1, Temps: 1, MultiStep: true, Ref: func(a Args) float64 { return stableSigmoid(a.X) },
		Draw: func(t *rapid.T, wide bool) Args { return Args{X: gen.Float(t, "x", -6, 6, 0)} },
		Call: func(r Scalar, a, b ConstScalar, e float64, tmp []Scalar) Scalar { return r.Sigmoid(a, tmp[0]) },
		Classify: func(a Args) string {
			if a.X >= 0 {
				return "Sigmoid:x>=0"
			}
			return "Sigmoid:x<0"
		}},
	{Name: "LogAdd", Arity: 2, Temps: 1, MultiStep: true, Ref: func(a Args) float64 { return logAdd(a.X, a.Y) },
		Draw: func(t *rapid.T, wide bool) Args {
			a := Args{X: gen.Float(t, "x", -6, 6), Y: gen.Float(t, "y", -6, 6)}
			switch rapid.IntRange(0, 9).Draw(t, "inf") {
			case 0:
				a.X = math.Inf(-1)
			case 1:
				a.Y = math.Inf(-1)
			case 2:
				a.Y = a.X
			}
			return a
		},
		Call: func(r Scalar, a, b ConstScalar, e float64, tmp []Scalar) Scalar { return r.LogAdd(a, b, tmp[0]) },
		Classify: func(a Args) string {
			switch {
			case math.IsInf(a.X, -1) || math.IsInf(a.Y, -1):
				return "LogAdd:-Inf operand"
			case a.X == a.Y:
				return "LogAdd:equal"
			case a.X > a.Y:
				return "LogAdd:a>b (swap)"
			}
			return "LogAdd:a<b"
		}},
	{Name: "LogSub", Arity: 2, Temps: 1, MultiStep: true, Ref: func(a Args) float64 { return logSub(a.X, a.Y) },
		Draw: func(t *rapid.T, wide bool) Args {
			x := gen.Float(t, "x", -6, 5)
			gap := gen.Positive(t, "gap", -8, 5)
			a := Args{X: x, Y: x - gap}
			if rapid.IntRange(0, 9).Draw(t, "inf") == 0 {
				a.Y = math.Inf(-1)
			}
			return a
		},
		Call: func(r Scalar, a, b ConstScalar, e float64, tmp []Scalar) Scalar { return r.LogSub(a, b, tmp[0]) },
		Classify: func(a Args) string {
			if math.IsInf(a.Y, -1) {
				return "LogSub:b=-Inf"
			}
			return "LogSub:finite"
		}},
}

// ByName looks an operation up.
func ByName(n string) *Op {
	for i := range Ops {
		if Ops[i].Name == n {
			return &Ops[i]
		}
	}
	return nil
}
