// Package obs: case journal, statistics collector and known-finding lane shared by
// every property package of the harness.
//
// A property function calls
//
//	c := obs.Begin(aspect, "canonical description of the generated case")
//	... run the library, compare with the oracle ...
//	c.Class("receiver sparse"); c.NT(true); c.End()
//
// Begin journals the case *before* the library is touched (so that a fatal runtime
// abort can be attributed to it by the driver), End updates the counters.  Flush
// (called from TestMain) writes the per-process statistics for the driver.
//
// No random source, no clock and no map-order dependence is used here.
package obs

import (
	"encoding/json"
	"fmt"
	"hash/fnv"
	"os"
	"path/filepath"
	"sort"
	"sync"
)

const (
	maxHashes         = 100000 // per aspect and process; distinct-sampling beyond
	samplesPerClass   = 2
	maxSampleLen      = 600
	maxClassesSampled = 400
)

type aspectStats struct {
	Evaluations int64               `json:"evaluations"`
	NonTrivial  int64               `json:"nontrivial"`
	Level       uint                `json:"level"` // distinct sampling level: kept hashes have Level low bits == 0
	Hashes      map[uint64]struct{} `json:"-"`
	HashList    []string            `json:"hashes"`
	Classes     map[string]int64    `json:"classes"`
	Samples     map[string][]string `json:"samples"`
	Known       map[string]int64    `json:"known_hits"`
	KnownSample map[string]string   `json:"known_samples"`
	Excluded    map[string]int64    `json:"excluded_by_construction"`
	Notes       map[string]float64  `json:"notes"` // numeric observations, max is kept (e.g. worst residual ratio)
}

var (
	mu      sync.Mutex
	stats   = map[string]*aspectStats{}
	journal *os.File
	open    map[string]bool
	loaded  bool
)

func get(aspect string) *aspectStats {
	s := stats[aspect]
	if s == nil {
		s = &aspectStats{
			Hashes: map[uint64]struct{}{}, Classes: map[string]int64{}, Samples: map[string][]string{},
			Known: map[string]int64{}, KnownSample: map[string]string{}, Excluded: map[string]int64{},
			Notes: map[string]float64{},
		}
		stats[aspect] = s
	}
	return s
}

// Case is one generated case in flight.
type Case struct {
	aspect  string
	desc    string
	classes []string
	nt      bool
	ended   bool
}

func outDir() string { return os.Getenv("VERIF_OUT") }

// Begin journals the case and returns a handle.
func Begin(aspect, format string, args ...interface{}) *Case {
	desc := format
	if len(args) > 0 {
		desc = fmt.Sprintf(format, args...)
	}
	if d := outDir(); d != "" {
		mu.Lock()
		if journal == nil {
			journal, _ = os.OpenFile(filepath.Join(d, "journal.txt"), os.O_CREATE|os.O_WRONLY|os.O_TRUNC, 0644)
		}
		if journal != nil {
			b := []byte(aspect + "\t" + desc + "\n")
			journal.WriteAt(b, 0)
			journal.Truncate(int64(len(b)))
		}
		mu.Unlock()
	}
	return &Case{aspect: aspect, desc: desc}
}

// Class adds class labels (generator-health histogram).
func (c *Case) Class(labels ...string) { c.classes = append(c.classes, labels...) }

// Classf adds one formatted class label.
func (c *Case) Classf(format string, args ...interface{}) {
	c.classes = append(c.classes, fmt.Sprintf(format, args...))
}

// NT marks the case as non-trivial by the aspect's rule (sticky true).
func (c *Case) NT(b bool) {
	if b {
		c.nt = true
	}
}

// Desc returns the canonical description.
func (c *Case) Desc() string { return c.desc }

// SetDesc replaces the description (state machines extend it as the history grows).
func (c *Case) SetDesc(d string) { c.desc = d }

// End records the case in the statistics.  Safe to call once; later calls are ignored.
func (c *Case) End() {
	if c.ended {
		return
	}
	c.ended = true
	mu.Lock()
	defer mu.Unlock()
	s := get(c.aspect)
	s.Evaluations++
	if c.nt {
		s.NonTrivial++
		h := fnv.New64a()
		h.Write([]byte(c.desc))
		v := h.Sum64()
		if v&((1<<s.Level)-1) == 0 {
			s.Hashes[v] = struct{}{}
			for len(s.Hashes) > maxHashes {
				s.Level++
				for k := range s.Hashes {
					if k&((1<<s.Level)-1) != 0 {
						delete(s.Hashes, k)
					}
				}
			}
		}
	}
	seen := map[string]bool{}
	for _, cl := range c.classes {
		if seen[cl] {
			continue
		}
		seen[cl] = true
		s.Classes[cl]++
		if len(s.Samples[cl]) < samplesPerClass && (len(s.Samples) < maxClassesSampled || s.Samples[cl] != nil) {
			d := c.desc
			if len(d) > maxSampleLen {
				d = d[:maxSampleLen] + "…"
			}
			s.Samples[cl] = append(s.Samples[cl], d)
		}
	}
	if len(c.classes) == 0 {
		s.Classes["(unclassified)"]++
		if len(s.Samples["(unclassified)"]) < samplesPerClass {
			d := c.desc
			if len(d) > maxSampleLen {
				d = d[:maxSampleLen] + "…"
			}
			s.Samples["(unclassified)"] = append(s.Samples["(unclassified)"], d)
		}
	}
}

// Note keeps the maximum of a numeric observation (e.g. worst residual/tolerance ratio seen).
func Note(aspect, key string, v float64) {
	mu.Lock()
	defer mu.Unlock()
	s := get(aspect)
	if old, ok := s.Notes[key]; !ok || v > old {
		s.Notes[key] = v
	}
}

// Exclude counts a shape the generator deliberately did not produce because an open
// finding owns it.
func Exclude(aspect, what string) {
	mu.Lock()
	defer mu.Unlock()
	get(aspect).Excluded[what]++
}

func loadKnown() {
	loaded = true
	open = map[string]bool{}
	p := os.Getenv("VERIF_KNOWN")
	if p == "" {
		return
	}
	b, err := os.ReadFile(p)
	if err != nil {
		return
	}
	var f struct {
		Findings []struct {
			ID     string `json:"id"`
			Status string `json:"status"`
		} `json:"findings"`
	}
	if json.Unmarshal(b, &f) != nil {
		return
	}
	for _, e := range f.Findings {
		if e.Status == "open" {
			open[e.ID] = true
		}
	}
}

// IsOpen reports whether finding id is listed as open in the known-findings file.
func IsOpen(id string) bool {
	mu.Lock()
	defer mu.Unlock()
	if !loaded {
		loadKnown()
	}
	return open[id]
}

// Known is called by an oracle *after* it has established a mismatch and after the
// finding's own narrow predicate matched the case.  It returns true (and counts the
// hit) iff the finding is listed as open; the caller then lets the case pass.  If the
// finding is not open (unknown id, or status fixed) it returns false and the caller
// fails the case as an ordinary violation.
func (c *Case) Known(id string) bool {
	if !IsOpen(id) {
		return false
	}
	mu.Lock()
	defer mu.Unlock()
	s := get(c.aspect)
	s.Known[id]++
	if _, ok := s.KnownSample[id]; !ok {
		d := c.desc
		if len(d) > maxSampleLen {
			d = d[:maxSampleLen] + "…"
		}
		s.KnownSample[id] = d
	}
	return true
}

// Flush writes the statistics of this process to $VERIF_OUT/stats.json.
func Flush() {
	d := outDir()
	if d == "" {
		return
	}
	mu.Lock()
	defer mu.Unlock()
	for _, s := range stats {
		s.HashList = s.HashList[:0]
		keys := make([]uint64, 0, len(s.Hashes))
		for k := range s.Hashes {
			keys = append(keys, k)
		}
		sort.Slice(keys, func(i, j int) bool { return keys[i] < keys[j] })
		for _, k := range keys {
			s.HashList = append(s.HashList, fmt.Sprintf("%016x", k))
		}
	}
	b, err := json.Marshal(stats)
	if err != nil {
		fmt.Fprintf(os.Stderr, "obs: cannot marshal stats: %v\n", err)
		return
	}
	tmp := filepath.Join(d, "stats.json.tmp")
	if os.WriteFile(tmp, b, 0644) == nil {
		os.Rename(tmp, filepath.Join(d, "stats.json"))
	}
}

// KFStatus is printed by witness tests of known findings: the driver parses the line.
func KFStatus(id string, present bool, detail string) {
	st := "absent"
	if present {
		st = "present"
	}
	fmt.Printf("KF-STATUS %s %s %s\n", id, st, detail)
}
