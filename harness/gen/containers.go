package gen

import (
	"fmt"
	"strings"

	. "github.com/pbenner/autodiff"
	"pgregory.net/rapid"
)

// Elem is the plain description of one container element: value plus (for Real element types)
// derivative content.
type Elem struct {
	V      float64
	Order  int
	G      []float64   // len NVar when Order>=1
	H      [][]float64 // NVar x NVar when Order>=2 (symmetric)
	Stored bool        // sparse containers: position has an explicit entry (always true for non-zero elements)
}

// IsZero: value 0 and no non-zero derivative (the library's nullScalar notion).
func (e Elem) IsZero() bool {
	if e.V != 0 {
		return false
	}
	for _, g := range e.G {
		if g != 0 {
			return false
		}
	}
	for _, r := range e.H {
		for _, h := range r {
			if h != 0 {
				return false
			}
		}
	}
	return true
}

// Scalar builds a fresh scalar of type st holding the element.
func (e Elem) Scalar(st SType) Scalar {
	s := st.NewMut(e.V)
	if e.Order >= 1 {
		if m, ok := s.(MagicScalar); ok {
			m.Alloc(len(e.G), e.Order)
			for i, g := range e.G {
				m.SetDerivative(i, g)
			}
			if e.Order >= 2 {
				for i := range e.H {
					for j := range e.H[i] {
						m.SetHessian(i, j, e.H[i][j])
					}
				}
			}
		}
	}
	return s
}

func (e Elem) String() string {
	s := F(e.V)
	if e.Order >= 1 {
		s += fmt.Sprintf("'%v", e.G)
	}
	if e.Order >= 2 {
		s += fmt.Sprintf("''%v", e.H)
	}
	if e.V == 0 && e.Stored {
		s += "(stored)"
	}
	return s
}

// ValueKind selects the number mixture of container elements.
type ValueKind int

const (
	VDyadic   ValueKind = iota // k/8, exact under a few +,-,*
	VSmallInt                  // -3..3 (integer element types)
	VNonZero                   // dyadic, never zero (divisors)
)

func drawVal(t *rapid.T, label string, st SType, kind ValueKind) float64 {
	if st.IsInt() {
		v := float64(rapid.IntRange(-3, 3).Draw(t, label))
		if v == 0 {
			v = 1
		}
		return v
	}
	v := float64(rapid.IntRange(-24, 24).Draw(t, label)) / 8
	if v == 0 {
		v = 0.5
	}
	return v
}

// Pattern names of zero patterns.
var Patterns = []string{"dense", "all-zero", "leading-zeros", "trailing-zeros", "interleaved", "single-nonzero", "random"}

// zeroMask draws which positions are zero.
func zeroMask(t *rapid.T, label string, n int) ([]bool, string) {
	p := rapid.IntRange(0, len(Patterns)-1).Draw(t, label+".pattern")
	z := make([]bool, n)
	switch Patterns[p] {
	case "all-zero":
		for i := range z {
			z[i] = true
		}
	case "leading-zeros":
		k := 0
		if n > 0 {
			k = rapid.IntRange(1, n).Draw(t, label+".k")
		}
		for i := 0; i < k; i++ {
			z[i] = true
		}
	case "trailing-zeros":
		k := 0
		if n > 0 {
			k = rapid.IntRange(1, n).Draw(t, label+".k")
		}
		for i := n - k; i < n; i++ {
			z[i] = true
		}
	case "interleaved":
		off := rapid.IntRange(0, 1).Draw(t, label+".off")
		for i := range z {
			z[i] = (i+off)%2 == 0
		}
	case "single-nonzero":
		for i := range z {
			z[i] = true
		}
		if n > 0 {
			z[rapid.IntRange(0, n-1).Draw(t, label+".pos")] = false
		}
	case "random":
		for i := range z {
			z[i] = rapid.Bool().Draw(t, label+".z")
		}
	}
	return z, Patterns[p]
}

// DerivMode: how Real elements carry derivatives.
type DerivMode struct {
	Order int // 0: none
	NVar  int
}

// DrawDerivMode: order 0 most of the time for non-Real types (ignored there).
func DrawDerivMode(t *rapid.T, label string, st SType) DerivMode {
	if !st.IsReal() {
		return DerivMode{}
	}
	o := rapid.IntRange(0, 2).Draw(t, label+".order")
	if o == 0 {
		return DerivMode{}
	}
	return DerivMode{Order: o, NVar: 2}
}

func drawElem(t *rapid.T, label string, st SType, zero bool, dm DerivMode, kind ValueKind) Elem {
	e := Elem{}
	if !zero {
		e.V = drawVal(t, label, st, kind)
		e.Stored = true
	}
	// non-zero elements (and, sometimes, zero-valued ones) carry derivative content
	if dm.Order >= 1 && (!zero || rapid.IntRange(0, 3).Draw(t, label+".zd") == 0) {
		e.Order = dm.Order
		e.G = make([]float64, dm.NVar)
		for i := range e.G {
			e.G[i] = float64(rapid.IntRange(-4, 4).Draw(t, label+".g")) / 4
		}
		if dm.Order >= 2 {
			e.H = make([][]float64, dm.NVar)
			for i := range e.H {
				e.H[i] = make([]float64, dm.NVar)
			}
			for i := 0; i < dm.NVar; i++ {
				for j := i; j < dm.NVar; j++ {
					h := float64(rapid.IntRange(-4, 4).Draw(t, label+".h")) / 2
					e.H[i][j], e.H[j][i] = h, h
				}
			}
		}
		if !e.IsZero() {
			e.Stored = true
		}
	}
	return e
}

// VecCase describes a generated vector.
type VecCase struct {
	T       SType
	Sparse  bool
	E       []Elem
	Pattern string
}

// DrawVec draws a vector of length n.  For sparse storage zero positions are absent or hold an
// explicitly stored zero.  noZeros forces every element non-zero (divisors).
func DrawVec(t *rapid.T, label string, st SType, sparse bool, n int, dm DerivMode, noZeros bool) VecCase {
	c := VecCase{T: st, Sparse: sparse, E: make([]Elem, n)}
	z := make([]bool, n)
	c.Pattern = "dense"
	if !noZeros {
		z, c.Pattern = zeroMask(t, label, n)
	}
	for i := range c.E {
		c.E[i] = drawElem(t, fmt.Sprintf("%s[%d]", label, i), st, z[i], dm, VDyadic)
		if sparse && c.E[i].IsZero() && rapid.IntRange(0, 2).Draw(t, label+".storedzero") == 0 {
			c.E[i].Stored = true
		}
	}
	return c
}

func (c VecCase) N() int { return len(c.E) }

// Build constructs the library object through the type-generic constructors.
func (c VecCase) Build() Vector {
	var v Vector
	if c.Sparse {
		v = NullSparseVector(c.T.T, len(c.E))
	} else {
		v = NullDenseVector(c.T.T, len(c.E))
	}
	for i, e := range c.E {
		if c.Sparse && !e.Stored {
			continue
		}
		if e.IsZero() && !c.Sparse {
			continue
		}
		s := v.At(i) // creates the entry in sparse storage
		if !e.IsZero() {
			s.Set(e.Scalar(c.T))
		}
	}
	return v
}

// Model returns fresh scalars (element type) holding the elements.
func (c VecCase) Model() []Scalar {
	r := make([]Scalar, len(c.E))
	for i, e := range c.E {
		r[i] = e.Scalar(c.T)
	}
	return r
}

func (c VecCase) HasStoredZero() bool {
	for _, e := range c.E {
		if c.Sparse && e.Stored && e.IsZero() {
			return true
		}
	}
	return false
}

func (c VecCase) HasZero() bool {
	for _, e := range c.E {
		if e.IsZero() {
			return true
		}
	}
	return false
}

func (c VecCase) LeadingZero() bool { return len(c.E) > 0 && c.E[0].IsZero() }

func storageName(sparse bool) string {
	if sparse {
		return "sparse"
	}
	return "dense"
}

func (c VecCase) String() string {
	parts := make([]string, len(c.E))
	for i, e := range c.E {
		parts[i] = e.String()
		if c.Sparse && !e.Stored {
			parts[i] = "_"
		}
	}
	return fmt.Sprintf("%s %s[%s]", storageName(c.Sparse), c.T, strings.Join(parts, " "))
}

// MatCase describes a generated (base) matrix, row-major elements.
type MatCase struct {
	T          SType
	Sparse     bool
	Rows, Cols int
	E          []Elem
	Pattern    string
}

func DrawMat(t *rapid.T, label string, st SType, sparse bool, rows, cols int, dm DerivMode, noZeros bool) MatCase {
	v := DrawVec(t, label, st, sparse, rows*cols, dm, noZeros)
	return MatCase{T: st, Sparse: sparse, Rows: rows, Cols: cols, E: v.E, Pattern: v.Pattern}
}

func (c MatCase) At(i, j int) Elem { return c.E[i*c.Cols+j] }

func (c MatCase) Build() Matrix {
	var m Matrix
	if c.Sparse {
		m = NullSparseMatrix(c.T.T, c.Rows, c.Cols)
	} else {
		m = NullDenseMatrix(c.T.T, c.Rows, c.Cols)
	}
	for i := 0; i < c.Rows; i++ {
		for j := 0; j < c.Cols; j++ {
			e := c.At(i, j)
			if c.Sparse && !e.Stored {
				continue
			}
			if e.IsZero() && !c.Sparse {
				continue
			}
			s := m.At(i, j)
			if !e.IsZero() {
				s.Set(e.Scalar(c.T))
			}
		}
	}
	return m
}

func (c MatCase) Model() [][]Scalar {
	r := make([][]Scalar, c.Rows)
	for i := range r {
		r[i] = make([]Scalar, c.Cols)
		for j := range r[i] {
			r[i][j] = c.At(i, j).Scalar(c.T)
		}
	}
	return r
}

func (c MatCase) HasStoredZero() bool {
	for _, e := range c.E {
		if c.Sparse && e.Stored && e.IsZero() {
			return true
		}
	}
	return false
}

func (c MatCase) HasZero() bool {
	for _, e := range c.E {
		if e.IsZero() {
			return true
		}
	}
	return false
}

func (c MatCase) String() string {
	var rows []string
	for i := 0; i < c.Rows; i++ {
		parts := make([]string, c.Cols)
		for j := range parts {
			e := c.At(i, j)
			parts[j] = e.String()
			if c.Sparse && !e.Stored {
				parts[j] = "_"
			}
		}
		rows = append(rows, strings.Join(parts, " "))
	}
	return fmt.Sprintf("%s %s %dx%d[%s]", storageName(c.Sparse), c.T, c.Rows, c.Cols, strings.Join(rows, "; "))
}

// ElemTypes used for containers: Float64 and Real64 always, the others with lower weight.
func DrawElemType(t *rapid.T, label string) SType {
	k := rapid.IntRange(0, 11).Draw(t, label)
	switch {
	case k <= 3:
		return TFloat64
	case k <= 7:
		return TReal64
	case k == 8:
		return TFloat32
	case k == 9:
		return TReal32
	case k == 10:
		return TInt
	default:
		return []SType{TInt8, TInt16, TInt32, TInt64}[rapid.IntRange(0, 3).Draw(t, label+".int")]
	}
}

// Dim draws a small dimension with boosted 0 and 1.
func Dim(t *rapid.T, label string, max int) int {
	k := rapid.IntRange(0, max+3).Draw(t, label)
	switch {
	case k == max+1:
		return 0
	case k == max+2:
		return 1
	case k == max+3:
		return 2
	}
	return k
}
