// Package gen: shared generators (scalar types, number mixtures, containers, matrices).
// Every random choice is drawn from rapid.
package gen

import (
	"fmt"
	"math"

	. "github.com/pbenner/autodiff"
	"pgregory.net/rapid"
)

type Kind int

const (
	KInt Kind = iota
	KFloat
	KReal
)

// SType describes one of the sixteen scalar types.
type SType struct {
	Name  string
	T     ScalarType
	Kind  Kind
	Bits  int  // 8,16,32,64 (Int: 64)
	Const bool // ConstXxx types
}

var (
	TInt8    = SType{"Int8", Int8Type, KInt, 8, false}
	TInt16   = SType{"Int16", Int16Type, KInt, 16, false}
	TInt32   = SType{"Int32", Int32Type, KInt, 32, false}
	TInt64   = SType{"Int64", Int64Type, KInt, 64, false}
	TInt     = SType{"Int", IntType, KInt, 64, false}
	TFloat32 = SType{"Float32", Float32Type, KFloat, 32, false}
	TFloat64 = SType{"Float64", Float64Type, KFloat, 64, false}
	TReal32  = SType{"Real32", Real32Type, KReal, 32, false}
	TReal64  = SType{"Real64", Real64Type, KReal, 64, false}

	TCInt8    = SType{"ConstInt8", ConstInt8Type, KInt, 8, true}
	TCInt16   = SType{"ConstInt16", ConstInt16Type, KInt, 16, true}
	TCInt32   = SType{"ConstInt32", ConstInt32Type, KInt, 32, true}
	TCInt64   = SType{"ConstInt64", ConstInt64Type, KInt, 64, true}
	TCInt     = SType{"ConstInt", ConstIntType, KInt, 64, true}
	TCFloat32 = SType{"ConstFloat32", ConstFloat32Type, KFloat, 32, true}
	TCFloat64 = SType{"ConstFloat64", ConstFloat64Type, KFloat, 64, true}

	MutableTypes = []SType{TFloat64, TReal64, TFloat32, TReal32, TInt, TInt8, TInt16, TInt32, TInt64}
	ConstTypes   = []SType{TCFloat64, TCFloat32, TCInt, TCInt8, TCInt16, TCInt32, TCInt64}
	AllTypes     = append(append([]SType{}, MutableTypes...), ConstTypes...)
	FloatClass   = []SType{TFloat64, TReal64, TFloat32, TReal32}
	IntClass     = []SType{TInt, TInt8, TInt16, TInt32, TInt64}
	RealTypes    = []SType{TReal64, TReal32}
)

func (s SType) String() string { return s.Name }
func (s SType) IsInt() bool    { return s.Kind == KInt }
func (s SType) IsReal() bool   { return s.Kind == KReal }

// Eps is the unit round-off of the storage type (1 for integers).
func (s SType) Eps() float64 {
	switch {
	case s.Kind == KInt:
		return 1
	case s.Bits == 32:
		return 1.0 / (1 << 23)
	default:
		return 1.0 / (1 << 52)
	}
}

// Range of an integer type.
func (s SType) IntRange() (int64, int64) {
	switch s.Bits {
	case 8:
		return math.MinInt8, math.MaxInt8
	case 16:
		return math.MinInt16, math.MaxInt16
	case 32:
		return math.MinInt32, math.MaxInt32
	}
	return math.MinInt64, math.MaxInt64
}

// Conv converts v the way Go converts a float64 to the storage type (v must be in range for ints).
func (s SType) Conv(v float64) float64 {
	switch s.Kind {
	case KInt:
		switch s.Bits {
		case 8:
			return float64(int8(v))
		case 16:
			return float64(int16(v))
		case 32:
			return float64(int32(v))
		}
		return float64(int64(v))
	default:
		if s.Bits == 32 {
			return float64(float32(v))
		}
		return v
	}
}

// New builds a scalar of the given type holding Conv(v).  Mutable types through the
// type-generic constructor, const types through their concrete constructors.
func (s SType) New(v float64) ConstScalar {
	if !s.Const {
		return NewScalar(s.T, v)
	}
	switch s.Name {
	case "ConstInt8":
		return ConstInt8(int8(v))
	case "ConstInt16":
		return ConstInt16(int16(v))
	case "ConstInt32":
		return ConstInt32(int32(v))
	case "ConstInt64":
		return ConstInt64(int64(v))
	case "ConstInt":
		return ConstInt(int(v))
	case "ConstFloat32":
		return ConstFloat32(float32(v))
	case "ConstFloat64":
		return ConstFloat64(v)
	}
	panic("gen: unknown const type " + s.Name)
}

// NewMut builds a mutable scalar (panics for const types).
func (s SType) NewMut(v float64) Scalar {
	if s.Const {
		panic("gen: const type is not mutable")
	}
	return NewScalar(s.T, v)
}

// DrawType picks one of the given types.
func DrawType(t *rapid.T, label string, from []SType) SType {
	return from[rapid.IntRange(0, len(from)-1).Draw(t, label)]
}

// ---- number mixtures -------------------------------------------------------------------

// SmallInt: -4..4 with boosted 0, ±1.
func SmallInt(t *rapid.T, label string) float64 {
	return float64(rapid.IntRange(-4, 4).Draw(t, label))
}

// Dyadic: k/8, k in -64..64 (exactly representable in every float type, and its
// products/sums of a few terms too).
func Dyadic(t *rapid.T, label string) float64 {
	return float64(rapid.IntRange(-64, 64).Draw(t, label)) / 8
}

// LogUniform: ±2^e * m with e in [emin,emax], m in [1,2).
func LogUniform(t *rapid.T, label string, emin, emax int, signed bool) float64 {
	e := rapid.IntRange(emin, emax).Draw(t, label+".e")
	m := 1 + float64(rapid.IntRange(0, 1<<20).Draw(t, label+".m"))/float64(1<<20)
	v := math.Ldexp(m, e)
	if signed && rapid.Bool().Draw(t, label+".neg") {
		v = -v
	}
	return v
}

// Float draws from the finite mixture: small ints, dyadics, log-uniform magnitudes within
// 2^emin..2^emax.  extra are caller-supplied boundary points (their ±1ulp neighbours are added).
func Float(t *rapid.T, label string, emin, emax int, extra ...float64) float64 {
	n := 4
	if len(extra) > 0 {
		n = 6
	}
	switch k := rapid.IntRange(0, n).Draw(t, label+".kind"); {
	case k == 0:
		return SmallInt(t, label)
	case k == 1:
		return Dyadic(t, label)
	case k <= 4:
		return LogUniform(t, label, emin, emax, true)
	default:
		b := extra[rapid.IntRange(0, len(extra)-1).Draw(t, label+".b")]
		switch rapid.IntRange(0, 2).Draw(t, label+".ulp") {
		case 0:
			return b
		case 1:
			return math.Nextafter(b, math.Inf(1))
		default:
			return math.Nextafter(b, math.Inf(-1))
		}
	}
}

// Positive draws a strictly positive finite value.
func Positive(t *rapid.T, label string, emin, emax int) float64 {
	switch rapid.IntRange(0, 3).Draw(t, label+".kind") {
	case 0:
		return float64(rapid.IntRange(1, 6).Draw(t, label))
	case 1:
		return float64(rapid.IntRange(1, 64).Draw(t, label)) / 8
	default:
		return LogUniform(t, label, emin, emax, false)
	}
}

// Special draws an IEEE special or extreme value.
func Special(t *rapid.T, label string) float64 {
	vals := []float64{0, math.Copysign(0, -1), math.Inf(1), math.Inf(-1), math.NaN(),
		math.SmallestNonzeroFloat64, -math.SmallestNonzeroFloat64, math.MaxFloat64, -math.MaxFloat64, 1, -1}
	return vals[rapid.IntRange(0, len(vals)-1).Draw(t, label)]
}

// IntIn draws an integer of the given type's full range with boosted bounds and small values.
func IntIn(t *rapid.T, label string, s SType) int64 {
	lo, hi := s.IntRange()
	switch rapid.IntRange(0, 4).Draw(t, label+".kind") {
	case 0:
		return int64(rapid.IntRange(-4, 4).Draw(t, label))
	case 1:
		b := []int64{lo, lo + 1, hi, hi - 1, 0, -1, 1}
		return b[rapid.IntRange(0, len(b)-1).Draw(t, label)]
	default:
		return rapid.Int64Range(lo, hi).Draw(t, label)
	}
}

// F formats a float for canonical descriptions (hex mantissa keeps every bit).
func F(v float64) string {
	if v == math.Trunc(v) && math.Abs(v) < 1e6 {
		if v == 0 && math.Signbit(v) {
			return "-0"
		}
		return fmt.Sprintf("%g", v)
	}
	return fmt.Sprintf("%g(%x)", v, v)
}
