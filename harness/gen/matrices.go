package gen

import (
	"math"

	. "github.com/pbenner/autodiff"
	"pgregory.net/rapid"
	"verifharness/model"
)

// Orthogonal draws an n x n orthogonal matrix as a product of Givens rotations (and optionally a
// reflection), computed in the harness.
func Orthogonal(t *rapid.T, label string, n int) model.Mat {
	q := model.Identity(n)
	if n < 2 {
		if n == 1 && rapid.Bool().Draw(t, label+".neg") {
			q[0][0] = -1
		}
		return q
	}
	k := rapid.IntRange(n, 2*n).Draw(t, label+".rot")
	for r := 0; r < k; r++ {
		i := rapid.IntRange(0, n-2).Draw(t, label+".i")
		j := rapid.IntRange(i+1, n-1).Draw(t, label+".j")
		th := float64(rapid.IntRange(1, 627).Draw(t, label+".theta")) / 100
		c, s := math.Cos(th), math.Sin(th)
		for col := 0; col < n; col++ {
			a, b := q[i][col], q[j][col]
			q[i][col], q[j][col] = c*a-s*b, s*a+c*b
		}
	}
	if rapid.Bool().Draw(t, label+".reflect") {
		for col := 0; col < n; col++ {
			q[0][col] = -q[0][col]
		}
	}
	return q
}

// Spectrum draws n values in [1, kappa], log-uniform, the extremes pinned so that the ratio is kappa.
func Spectrum(t *rapid.T, label string, n int, logKappaMax int) ([]float64, float64) {
	lk := rapid.IntRange(0, logKappaMax*10).Draw(t, label+".logk")
	kappa := math.Pow(10, float64(lk)/10)
	s := make([]float64, n)
	for i := range s {
		u := float64(rapid.IntRange(0, 1000).Draw(t, label+".u")) / 1000
		s[i] = math.Pow(kappa, u)
	}
	if n >= 1 {
		s[0] = kappa
	}
	if n >= 2 {
		s[n-1] = 1
	}
	return s, kappa
}

func diag(s []float64) model.Mat {
	d := model.NewMat(len(s), len(s))
	for i, v := range s {
		d[i][i] = v
	}
	return d
}

// LinSys is a generated nonsingular matrix with what is known about it by construction.
type LinSys struct {
	A      model.Mat
	Family string
	Kappa  float64 // 2-norm condition number (exact by construction, or an upper estimate for the combinatorial families)
	Det    float64 // NaN if not known by construction
	SPD    bool
	Upper  bool
	Perm   []int // forced pivot order (row Perm[i] is the pivot row of column i), nil if not forced
}

var Families = []string{"general", "spd", "pivot-forcing", "integer", "upper-triangular", "sparse-pattern", "graded"}

// DrawLinSys draws a nonsingular n x n system from one of the conditioned families.
func DrawLinSys(t *rapid.T, label string, n int, family string) LinSys {
	switch family {
	case "spd":
		q := Orthogonal(t, label+".q", n)
		s, k := Spectrum(t, label+".s", n, 3)
		a := q.Mul(diag(s)).Mul(q.T())
		// symmetrise exactly
		for i := 0; i < n; i++ {
			for j := 0; j < i; j++ {
				a[i][j] = a[j][i]
			}
		}
		det := 1.0
		for _, v := range s {
			det *= v
		}
		return LinSys{A: a, Family: family, Kappa: k, Det: det, SPD: true}
	case "pivot-forcing":
		// A = P (D + E): row perm[i] holds the dominant entry of column i, so partial pivoting
		// must choose the rows in the order perm
		perm := rapid.Permutation(seqInts(n)).Draw(t, label+".perm")
		a := model.NewMat(n, n)
		for i := 0; i < n; i++ {
			for j := 0; j < n; j++ {
				a[perm[i]][j] = float64(rapid.IntRange(-8, 8).Draw(t, label+".e")) / 64
			}
			d := float64(rapid.IntRange(8, 16).Draw(t, label+".d"))
			if rapid.Bool().Draw(t, label+".dneg") {
				d = -d
			}
			a[perm[i]][i] = d
		}
		return LinSys{A: a, Family: family, Kappa: 8, Det: math.NaN(), Perm: perm}
	case "integer":
		// L * D * U with unit triangular integer factors: integer-valued, det = prod(D) exactly
		l, u := model.Identity(n), model.Identity(n)
		for i := 0; i < n; i++ {
			for j := 0; j < i; j++ {
				l[i][j] = float64(rapid.IntRange(-2, 2).Draw(t, label+".l"))
				u[j][i] = float64(rapid.IntRange(-2, 2).Draw(t, label+".u"))
			}
		}
		d := make([]float64, n)
		det := 1.0
		for i := range d {
			d[i] = float64(rapid.SampledFrom([]int{1, -1, 2, -2, 3}).Draw(t, label+".d"))
			det *= d[i]
		}
		a := l.Mul(diag(d)).Mul(u)
		return LinSys{A: a, Family: family, Kappa: math.Pow(8, float64(n)), Det: det}
	case "upper-triangular":
		a := model.NewMat(n, n)
		det := 1.0
		for i := 0; i < n; i++ {
			for j := i + 1; j < n; j++ {
				a[i][j] = float64(rapid.IntRange(-16, 16).Draw(t, label+".r")) / 16
			}
			a[i][i] = float64(rapid.IntRange(8, 32).Draw(t, label+".d")) / 8
			if rapid.Bool().Draw(t, label+".dneg") {
				a[i][i] = -a[i][i]
			}
			det *= a[i][i]
		}
		return LinSys{A: a, Family: family, Kappa: math.Pow(4, float64(n)), Det: det, Upper: true}
	case "sparse-pattern":
		// strictly diagonally dominant with few off-diagonal entries
		a := model.NewMat(n, n)
		for i := 0; i < n; i++ {
			a[i][i] = float64(rapid.IntRange(4, 8).Draw(t, label+".d"))
			for k := 0; k < 2 && n > 1; k++ {
				j := rapid.IntRange(0, n-1).Draw(t, label+".j")
				if j != i {
					a[i][j] = float64(rapid.IntRange(-3, 3).Draw(t, label+".o")) / 4
				}
			}
		}
		return LinSys{A: a, Family: family, Kappa: 8, Det: math.NaN()}
	case "graded":
		g := DrawLinSys(t, label+".g", n, "general")
		det := g.Det
		kap := g.Kappa
		for i := 0; i < n; i++ {
			sc := math.Ldexp(1, rapid.IntRange(-6, 6).Draw(t, label+".scale"))
			for j := 0; j < n; j++ {
				g.A[i][j] *= sc
			}
			det *= sc
			kap *= 64
		}
		return LinSys{A: g.A, Family: family, Kappa: kap, Det: math.NaN()}
	default:
		q1, q2 := Orthogonal(t, label+".q1", n), Orthogonal(t, label+".q2", n)
		s, k := Spectrum(t, label+".s", n, 4)
		a := q1.Mul(diag(s)).Mul(q2.T())
		return LinSys{A: a, Family: "general", Kappa: k, Det: math.NaN()}
	}
}

func seqInts(n int) []int {
	r := make([]int, n)
	for i := range r {
		r[i] = i
	}
	return r
}

// ToDense builds a dense library matrix of the given element type from plain numbers.
func ToDense(st SType, a model.Mat) Matrix {
	r, c := a.Dims()
	m := NullDenseMatrix(st.T, r, c)
	for i := 0; i < r; i++ {
		for j := 0; j < c; j++ {
			m.At(i, j).SetFloat64(a[i][j])
		}
	}
	return m
}

func ToDenseVec(st SType, x []float64) Vector {
	v := NullDenseVector(st.T, len(x))
	for i, a := range x {
		v.At(i).SetFloat64(a)
	}
	return v
}

// CycleType describes a permutation by its sorted cycle lengths, e.g. "3" or "2+2" or "id".
func CycleType(p []int) string {
	seen := make([]bool, len(p))
	var ls []int
	for i := range p {
		if seen[i] {
			continue
		}
		l := 0
		for j := i; !seen[j]; j = p[j] {
			seen[j] = true
			l++
		}
		if l > 1 {
			ls = append(ls, l)
		}
	}
	if len(ls) == 0 {
		return "id"
	}
	// insertion sort descending
	for i := 1; i < len(ls); i++ {
		for j := i; j > 0 && ls[j] > ls[j-1]; j-- {
			ls[j], ls[j-1] = ls[j-1], ls[j]
		}
	}
	s := ""
	for i, l := range ls {
		if i > 0 {
			s += "+"
		}
		s += string(rune('0' + l))
	}
	return s
}
