// C11 — sparse containers stay coherent under any history of operations.
//
// rapid state machines over a sparse vector / sparse matrix with a plain dense model ([]float64).
// After every step: all in-range reads agree with the model, a fresh iterator visits exactly the
// non-zero positions ascending once each, the dimension is unchanged, String() does not panic and
// (by reflection) the key set of the value map equals the key set of the index tree, which itself
// satisfies the AVL invariants.
package c11

import (
	"fmt"
	"os"
	"reflect"
	"sort"
	"strings"
	"testing"
	"unsafe"

	. "github.com/pbenner/autodiff"
	"pgregory.net/rapid"
	"verifharness/gen"
	"verifharness/obs"
)

func TestMain(m *testing.M) {
	code := m.Run()
	obs.Flush()
	os.Exit(code)
}

func call(f func()) (perr string) {
	defer func() {
		if r := recover(); r != nil {
			perr = fmt.Sprint(r)
			if len(perr) > 120 {
				perr = perr[:120]
			}
		}
	}()
	f()
	return ""
}

// ---- reflection helpers -------------------------------------------------------------------

// internals returns (sorted keys of the value map, sorted keys of the index tree, problem)
func internals(v interface{}) (mapKeys, idxKeys []int, problem string) {
	rv := reflect.ValueOf(v)
	if rv.Kind() != reflect.Ptr {
		return nil, nil, ""
	}
	e := rv.Elem()
	vals := e.FieldByName("values")
	if !vals.IsValid() || vals.Kind() != reflect.Map {
		return nil, nil, ""
	}
	for _, k := range vals.MapKeys() {
		mapKeys = append(mapKeys, int(k.Int()))
		el := vals.MapIndex(k)
		// Float64-like handles: struct{ptr *T}; Real: *RealXX
		switch el.Kind() {
		case reflect.Struct:
			if p := el.FieldByName("ptr"); p.IsValid() && p.IsNil() {
				problem = fmt.Sprintf("value map holds a nil handle at key %d", k.Int())
			}
		case reflect.Ptr:
			if el.IsNil() {
				problem = fmt.Sprintf("value map holds a nil pointer at key %d", k.Int())
			}
		}
	}
	sort.Ints(mapKeys)
	idx := e.FieldByName("vectorSparseIndex")
	if idx.IsValid() {
		tr := idx.FieldByName("AvlTree")
		tree := (*AvlTree)(unsafe.Pointer(tr.UnsafeAddr()))
		n := 0
		last := 0
		for it := tree.Iterator(); it.Ok(); it.Next() {
			if n > 0 && it.Get() <= last {
				problem = "index tree iteration not ascending"
				break
			}
			last = it.Get()
			idxKeys = append(idxKeys, it.Get())
			n++
			if n > 100000 {
				problem = "index tree iteration does not end"
				break
			}
		}
		if _, _, err := checkNode(tree.Root, nil, nil, nil, 0); err != nil && problem == "" {
			problem = "index tree structure: " + err.Error()
		}
	}
	return
}

func checkNode(n *AvlNode, parent *AvlNode, lo, hi *int, depth int) (int, int, error) {
	if n == nil {
		return 0, 0, nil
	}
	if depth > 100 {
		return 0, 0, fmt.Errorf("depth > 100")
	}
	if n.Parent != parent {
		return 0, 0, fmt.Errorf("node %d: wrong Parent", n.Value)
	}
	if n.Deleted {
		return 0, 0, fmt.Errorf("reachable node %d has Deleted set", n.Value)
	}
	if (lo != nil && n.Value <= *lo) || (hi != nil && n.Value >= *hi) {
		return 0, 0, fmt.Errorf("BST order violated at %d", n.Value)
	}
	v := n.Value
	hl, cl, err := checkNode(n.Left, n, lo, &v, depth+1)
	if err != nil {
		return 0, 0, err
	}
	hr, cr, err := checkNode(n.Right, n, &v, hi, depth+1)
	if err != nil {
		return 0, 0, err
	}
	if n.Balance != hr-hl || n.Balance < -1 || n.Balance > 1 {
		return 0, 0, fmt.Errorf("node %d: Balance=%d, heights %d/%d", n.Value, n.Balance, hl, hr)
	}
	h := hl
	if hr > h {
		h = hr
	}
	return h + 1, cl + cr + 1, nil
}

// ---- vector machine -----------------------------------------------------------------------

type tracked struct {
	v Vector
	m []float64
}

type liveIter struct {
	it   VectorConstIterator
	obj  int
	last int
}

func drawValue(t *rapid.T, st gen.SType, label string) float64 {
	if st.IsInt() {
		return float64(rapid.IntRange(-3, 3).Draw(t, label))
	}
	return float64(rapid.IntRange(-16, 16).Draw(t, label)) / 8
}

func checkVector(t *rapid.T, tr *tracked, hist []string, who string, deep bool) {
	fail := func(format string, args ...interface{}) {
		t.Fatalf("%s: %s\nhistory: %s", who, fmt.Sprintf(format, args...), strings.Join(hist, " ; "))
	}
	if tr.v.Dim() != len(tr.m) {
		fail("Dim()=%d, model has %d", tr.v.Dim(), len(tr.m))
	}
	for i, w := range tr.m {
		var f, c float64
		var iv int
		if p := call(func() { f = tr.v.Float64At(i); c = tr.v.ConstAt(i).GetFloat64(); iv = tr.v.IntAt(i) }); p != "" {
			fail("reading element %d panicked: %s", i, p)
		}
		if f != w || c != w || iv != int(w) {
			fail("element %d: Float64At=%v ConstAt=%v IntAt=%v, model %v; model=%v", i, f, c, iv, w, tr.m)
		}
	}
	// before any clean-up by iteration: every stored key must be reachable through the index
	// (an index key without a value is tolerated: iterators drop it)
	if mk, ik, problem := internals(tr.v); problem == "" {
		in := map[int]bool{}
		for _, k := range ik {
			in[k] = true
		}
		for _, k := range mk {
			if !in[k] {
				fail("stored key %d is missing from the index %v (value map keys %v)", k, ik, mk)
			}
		}
	}
	if !deep {
		// reads only: a full iteration would purge stored zeros and hide defects that depend on
		// zero entries surviving until the next operation
		return
	}
	// fresh iterator: exactly the non-zero positions ascending once each
	var want, got []int
	for i, w := range tr.m {
		if w != 0 {
			want = append(want, i)
		}
	}
	if p := call(func() {
		for it := tr.v.ConstIterator(); it.Ok(); it.Next() {
			i := it.Index()
			got = append(got, i)
			if x := it.GetConst(); x == nil || x.GetFloat64() != tr.m[i] {
				panic(fmt.Sprintf("iterator at %d yields %v, model %v", i, x, tr.m[i]))
			}
			if len(got) > len(tr.m)+1 {
				panic("iterator does not end")
			}
		}
	}); p != "" {
		fail("iteration failed: %s (visited %v); model=%v", p, got, tr.m)
	}
	if fmt.Sprint(got) != fmt.Sprint(want) {
		fail("iterator visited %v, non-zero positions are %v; model=%v", got, want, tr.m)
	}
	if p := call(func() { _ = tr.v.String() }); p != "" {
		fail("String() panicked: %s", p)
	}
	// internal coherence (earlier detection): after the fresh iteration above zero entries are gone
	mk, ik, problem := internals(tr.v)
	if problem != "" {
		fail("%s", problem)
	}
	if fmt.Sprint(mk) != fmt.Sprint(ik) {
		fail("key set of the value map %v differs from the key set of the index %v", mk, ik)
	}
	for _, k := range mk {
		if k < 0 || k >= len(tr.m) {
			fail("stored key %d outside the dimension %d", k, len(tr.m))
		}
	}
}

func vectorMachine(t *rapid.T, aspect string) {
	st := gen.DrawType(t, "elem", []gen.SType{gen.TFloat64, gen.TFloat64, gen.TReal64, gen.TInt, gen.TFloat32})
	n0 := rapid.IntRange(0, 12).Draw(t, "n")
	c := obs.Begin(aspect, "sparse vector machine")
	objs := []*tracked{{NullSparseVector(st.T, n0), make([]float64, n0)}}
	var iters []*liveIter
	var hist []string
	nOps, mutAfterCreate, created, zeroWriteThenIter, iterAcrossMutation := 0, false, false, false, false
	zeroWritten := false
	used := map[string]bool{}
	defer func() {
		c.SetDesc(fmt.Sprintf("%s n=%d %s", st, n0, strings.Join(hist, " ; ")))
		c.NT(nOps >= 4 && mutAfterCreate)
		for a := range used {
			c.Class("action=" + a)
		}
		if zeroWriteThenIter {
			c.Class("zero written into a stored entry, then iteration")
		}
		if iterAcrossMutation {
			c.Class("iterator alive across a mutation")
		}
		c.Classf("elem=%s", st)
		c.End()
	}()
	pick := func(t *rapid.T) int {
		if len(objs) == 1 {
			return 0
		}
		return rapid.IntRange(0, len(objs)-1).Draw(t, "obj")
	}
	note := func(action, format string, args ...interface{}) {
		hist = append(hist, fmt.Sprintf(format, args...))
		used[action] = true
		nOps++
	}
	mutated := func(o int) {
		if created {
			mutAfterCreate = true
		}
		for _, it := range iters {
			if it.obj == o && it.it != nil {
				iterAcrossMutation = true
			}
		}
	}
	must := func(what string, f func()) {
		if p := call(f); p != "" {
			t.Fatalf("%s panicked: %s\nhistory: %s", what, p, strings.Join(hist, " ; "))
		}
	}
	operand := func(t *rapid.T, n int, label string) (Vector, []float64) {
		m := make([]float64, n)
		sparse := rapid.Bool().Draw(t, label+".sparse")
		var v Vector
		if sparse {
			v = NullSparseVector(st.T, n)
		} else {
			v = NullDenseVector(st.T, n)
		}
		for i := range m {
			if rapid.Bool().Draw(t, label+".nz") {
				m[i] = drawValue(t, st, label)
				if m[i] != 0 || rapid.Bool().Draw(t, label+".storezero") {
					v.At(i).SetFloat64(m[i])
				}
			}
		}
		return v, m
	}
	actions := map[string]func(*rapid.T){
		"touch": func(t *rapid.T) { // At(i) without writing creates an entry
			o := pick(t)
			if len(objs[o].m) == 0 {
				t.Skip("empty")
			}
			i := rapid.IntRange(0, len(objs[o].m)-1).Draw(t, "i")
			note("touch", "v%d.At(%d)", o, i)
			must("At", func() { _ = objs[o].v.At(i).GetFloat64() })
			created = true
		},
		"write": func(t *rapid.T) {
			o := pick(t)
			if len(objs[o].m) == 0 {
				t.Skip("empty")
			}
			i := rapid.IntRange(0, len(objs[o].m)-1).Draw(t, "i")
			x := drawValue(t, st, "x")
			if rapid.IntRange(0, 3).Draw(t, "zero") == 0 {
				x = 0
			}
			note("write", "v%d.At(%d).SetFloat64(%v)", o, i, x)
			if x == 0 && objs[o].m[i] != 0 {
				zeroWritten = true
			}
			must("At.SetFloat64", func() { objs[o].v.At(i).SetFloat64(x) })
			objs[o].m[i] = x
			created = true
			mutated(o)
		},
		"set": func(t *rapid.T) {
			o := pick(t)
			v, m := operand(t, len(objs[o].m), "set")
			note("set", "v%d.Set(%v)", o, m)
			must("Set", func() { objs[o].v.Set(v) })
			copy(objs[o].m, m)
			mutated(o)
		},
		"reset": func(t *rapid.T) {
			o := pick(t)
			note("reset", "v%d.Reset()", o)
			must("Reset", func() { objs[o].v.Reset() })
			for i := range objs[o].m {
				objs[o].m[i] = 0
			}
			mutated(o)
		},
		"swap": func(t *rapid.T) {
			o := pick(t)
			if len(objs[o].m) == 0 {
				t.Skip("empty")
			}
			i, j := rapid.IntRange(0, len(objs[o].m)-1).Draw(t, "i"), rapid.IntRange(0, len(objs[o].m)-1).Draw(t, "j")
			note("swap", "v%d.Swap(%d,%d)", o, i, j)
			must("Swap", func() { objs[o].v.Swap(i, j) })
			objs[o].m[i], objs[o].m[j] = objs[o].m[j], objs[o].m[i]
			mutated(o)
		},
		"permute": func(t *rapid.T) {
			o := pick(t)
			n := len(objs[o].m)
			pi := rapid.Permutation(seq(n)).Draw(t, "pi")
			note("permute", "v%d.Permute(%v)", o, pi)
			var err error
			must("Permute", func() { err = objs[o].v.Permute(pi) })
			if err != nil {
				t.Fatalf("Permute(%v) returned error %v", pi, err)
			}
			// documented by the dense implementation: for increasing i, exchange i and pi[i] if pi[i] > i
			for i := 0; i < n; i++ {
				if pi[i] > i {
					objs[o].m[i], objs[o].m[pi[i]] = objs[o].m[pi[i]], objs[o].m[i]
				}
			}
			mutated(o)
		},
		"sort": func(t *rapid.T) {
			o := pick(t)
			rev := rapid.Bool().Draw(t, "reverse")
			note("sort", "v%d.Sort(%v)", o, rev)
			must("Sort", func() { objs[o].v.Sort(rev) })
			sort.Float64s(objs[o].m)
			if rev {
				for i, j := 0, len(objs[o].m)-1; i < j; i, j = i+1, j-1 {
					objs[o].m[i], objs[o].m[j] = objs[o].m[j], objs[o].m[i]
				}
			}
			mutated(o)
		},
		"reverse": func(t *rapid.T) {
			o := pick(t)
			note("reverse", "v%d.ReverseOrder()", o)
			must("ReverseOrder", func() { objs[o].v.ReverseOrder() })
			for i, j := 0, len(objs[o].m)-1; i < j; i, j = i+1, j-1 {
				objs[o].m[i], objs[o].m[j] = objs[o].m[j], objs[o].m[i]
			}
			mutated(o)
		},
		"slice": func(t *rapid.T) { // the slice is checked at once and not tracked (it shares scalars, not the map)
			o := pick(t)
			n := len(objs[o].m)
			i := rapid.IntRange(0, n).Draw(t, "i")
			j := rapid.IntRange(i, n).Draw(t, "j")
			note("slice", "v%d.Slice(%d,%d)", o, i, j)
			var s Vector
			must("Slice", func() { s = objs[o].v.Slice(i, j) })
			checkVector(t, &tracked{s, append([]float64{}, objs[o].m[i:j]...)}, hist, "slice result", true)
		},
		"appendScalar": func(t *rapid.T) {
			if len(objs) >= 3 {
				t.Skip("enough objects")
			}
			o := pick(t)
			k := rapid.IntRange(1, 3).Draw(t, "k")
			var xs []Scalar
			var vals []float64
			for q := 0; q < k; q++ {
				x := drawValue(t, st, "x")
				vals = append(vals, x)
				// scalars of the element type or of another type (converted by the library)
				if rapid.Bool().Draw(t, "sameType") {
					xs = append(xs, st.NewMut(x))
				} else {
					xs = append(xs, gen.TFloat64.NewMut(x))
				}
			}
			note("appendScalar", "v%d=v%d.AppendScalar(%v)", len(objs), o, vals)
			var r Vector
			must("AppendScalar", func() { r = objs[o].v.AppendScalar(xs...) })
			objs = append(objs, &tracked{r, append(append([]float64{}, objs[o].m...), vals...)})
		},
		"appendVector": func(t *rapid.T) {
			if len(objs) >= 3 {
				t.Skip("enough objects")
			}
			o := pick(t)
			v, m := operand(t, rapid.IntRange(0, 4).Draw(t, "len"), "app")
			note("appendVector", "v%d=v%d.AppendVector(%v)", len(objs), o, m)
			var r Vector
			must("AppendVector", func() { r = objs[o].v.AppendVector(v) })
			objs = append(objs, &tracked{r, append(append([]float64{}, objs[o].m...), m...)})
		},
		"arith": func(t *rapid.T) {
			o := pick(t)
			n := len(objs[o].m)
			a, am := operand(t, n, "a")
			op := rapid.SampledFrom([]string{"VaddV(self,a)", "VsubV(a,self)", "VmulV(self,a)", "VmulS(self,s)", "VaddS(self,s)", "VaddV(a,a)"}).Draw(t, "op")
			s := drawValue(t, st, "s")
			note("arith", "v%d.%s a=%v s=%v", o, op, am, s)
			v := objs[o].v
			must(op, func() {
				switch op {
				case "VaddV(self,a)":
					v.VaddV(v, a)
				case "VsubV(a,self)":
					v.VsubV(a, v)
				case "VmulV(self,a)":
					v.VmulV(v, a)
				case "VmulS(self,s)":
					v.VmulS(v, st.NewMut(s))
				case "VaddS(self,s)":
					v.VaddS(v, st.NewMut(s))
				case "VaddV(a,a)":
					v.VaddV(a, a)
				}
			})
			for i := range objs[o].m {
				x := objs[o].m[i]
				switch op {
				case "VaddV(self,a)":
					x = x + am[i]
				case "VsubV(a,self)":
					x = am[i] - x
				case "VmulV(self,a)":
					x = x * am[i]
				case "VmulS(self,s)":
					x = x * s
				case "VaddS(self,s)":
					x = x + s
				case "VaddV(a,a)":
					x = am[i] + am[i]
				}
				objs[o].m[i] = st.Conv(x)
			}
			mutated(o)
		},
		"map": func(t *rapid.T) {
			o := pick(t)
			note("map", "v%d.Map(x*2)", o)
			// Map/MapSet visit stored entries; f(0)=0 so that absent entries are unaffected by definition
			if rapid.Bool().Draw(t, "mapset") {
				must("MapSet", func() {
					objs[o].v.MapSet(func(x ConstScalar) Scalar { r := st.NewMut(0); r.Mul(x, ConstFloat64(2)); return r })
				})
			} else {
				must("Map", func() { objs[o].v.Map(func(x Scalar) { x.Mul(x, ConstFloat64(2)) }) })
			}
			for i := range objs[o].m {
				objs[o].m[i] = st.Conv(objs[o].m[i] * 2)
			}
			mutated(o)
		},
		"clone": func(t *rapid.T) {
			if len(objs) >= 3 {
				t.Skip("enough objects")
			}
			o := pick(t)
			note("clone", "v%d=v%d.CloneVector()", len(objs), o)
			var r Vector
			must("CloneVector", func() { r = objs[o].v.CloneVector() })
			objs = append(objs, &tracked{r, append([]float64{}, objs[o].m...)})
		},
		"openIter": func(t *rapid.T) {
			if len(iters) >= 3 {
				t.Skip("enough iterators")
			}
			o := pick(t)
			note("openIter", "it%d=v%d.ConstIterator()", len(iters), o)
			var it VectorConstIterator
			from := 0
			if rapid.Bool().Draw(t, "from") && len(objs[o].m) > 0 {
				from = rapid.IntRange(0, len(objs[o].m)-1).Draw(t, "fromIdx")
				must("ConstIteratorFrom", func() { it = objs[o].v.ConstIteratorFrom(from) })
			} else {
				must("ConstIterator", func() { it = objs[o].v.ConstIterator() })
			}
			iters = append(iters, &liveIter{it, o, from - 1})
			if zeroWritten {
				zeroWriteThenIter = true
			}
		},
		"advanceIter": func(t *rapid.T) {
			if len(iters) == 0 {
				t.Skip("no iterator")
			}
			k := rapid.IntRange(0, len(iters)-1).Draw(t, "iter")
			li := iters[k]
			steps := rapid.IntRange(1, 4).Draw(t, "steps")
			note("advanceIter", "it%d advance %d", k, steps)
			// a live iterator keeps yielding ascending, in-range positions holding non-zero elements
			must("iterator", func() {
				for s := 0; s < steps && li.it.Ok(); s++ {
					i := li.it.Index()
					if i <= li.last || i < 0 || i >= len(objs[li.obj].m) {
						panic(fmt.Sprintf("live iterator yields index %d after %d (dimension %d)", i, li.last, len(objs[li.obj].m)))
					}
					li.last = i
					li.it.Next()
				}
			})
		},
		"cloneIter": func(t *rapid.T) {
			if len(iters) == 0 || len(iters) >= 4 {
				t.Skip("no iterator")
			}
			k := rapid.IntRange(0, len(iters)-1).Draw(t, "iter")
			note("cloneIter", "it%d=it%d.Clone()", len(iters), k)
			var cl VectorConstIterator
			must("CloneConstIterator", func() { cl = iters[k].it.CloneConstIterator() })
			iters = append(iters, &liveIter{cl, iters[k].obj, iters[k].last})
		},
		"": func(t *rapid.T) {
			// every step: all reads; one step in three additionally iterates (which purges zeros)
			deep := rapid.IntRange(0, 2).Draw(t, "deepCheck") == 0
			for i, tr := range objs {
				checkVector(t, tr, hist, fmt.Sprintf("v%d", i), deep)
			}
			if deep {
				hist = append(hist, "(iterate)")
				if zeroWritten {
					zeroWriteThenIter = true
				}
			}
		},
	}
	t.Repeat(actions)
}

func seq(n int) []int {
	r := make([]int, n)
	for i := range r {
		r[i] = i
	}
	return r
}

func TestC11_sparse_vector_machine(t *testing.T) {
	rapid.Check(t, func(t *rapid.T) { vectorMachine(t, "sparse_vector_machine") })
}

// ---- matrix machine -----------------------------------------------------------------------

type trackedM struct {
	m          Matrix
	g          [][]float64
	rows, cols int
}

func checkMatrix(t *rapid.T, tr *trackedM, hist []string, deep bool) {
	fail := func(format string, args ...interface{}) {
		t.Fatalf("%s\nhistory: %s", fmt.Sprintf(format, args...), strings.Join(hist, " ; "))
	}
	r, c := tr.m.Dims()
	if r != tr.rows || c != tr.cols {
		fail("Dims()=%dx%d, model %dx%d", r, c, tr.rows, tr.cols)
	}
	for i := 0; i < r; i++ {
		for j := 0; j < c; j++ {
			var f, cv float64
			if p := call(func() { f = tr.m.Float64At(i, j); cv = tr.m.ConstAt(i, j).GetFloat64() }); p != "" {
				fail("reading (%d,%d) panicked: %s", i, j, p)
			}
			if f != tr.g[i][j] || cv != tr.g[i][j] {
				fail("element (%d,%d): Float64At=%v ConstAt=%v, model %v; model=%v", i, j, f, cv, tr.g[i][j], tr.g)
			}
		}
	}
	if !deep {
		return
	}
	var want, got []string
	for i := 0; i < r; i++ {
		for j := 0; j < c; j++ {
			if tr.g[i][j] != 0 {
				want = append(want, fmt.Sprintf("(%d,%d)", i, j))
			}
		}
	}
	if p := call(func() {
		for it := tr.m.ConstIterator(); it.Ok(); it.Next() {
			i, j := it.Index()
			got = append(got, fmt.Sprintf("(%d,%d)", i, j))
			if len(got) > r*c+1 {
				panic("iterator does not end")
			}
		}
	}); p != "" {
		fail("iteration failed: %s", p)
	}
	if fmt.Sprint(got) != fmt.Sprint(want) {
		fail("iterator visited %v, non-zero positions (row-major) are %v", got, want)
	}
	if p := call(func() { _ = tr.m.String() }); p != "" {
		fail("String() panicked: %s", p)
	}
	// internal coherence of the underlying sparse vector
	if e := reflect.ValueOf(tr.m).Elem().FieldByName("values"); e.IsValid() && e.Kind() == reflect.Ptr && !e.IsNil() {
		inner := reflect.NewAt(e.Type(), unsafe.Pointer(e.UnsafeAddr())).Elem().Interface()
		mk, ik, problem := internals(inner)
		if problem != "" {
			fail("%s", problem)
		}
		if fmt.Sprint(mk) != fmt.Sprint(ik) {
			fail("key set of the value map %v differs from the key set of the index %v", mk, ik)
		}
	}
}

func TestC11_sparse_matrix_machine(t *testing.T) {
	rapid.Check(t, func(t *rapid.T) {
		st := gen.DrawType(t, "elem", []gen.SType{gen.TFloat64, gen.TFloat64, gen.TReal64, gen.TInt})
		rows, cols := rapid.IntRange(1, 4).Draw(t, "rows"), rapid.IntRange(1, 4).Draw(t, "cols")
		c := obs.Begin("sparse_matrix_machine", "sparse matrix machine")
		tr := &trackedM{NullSparseMatrix(st.T, rows, cols), nil, rows, cols}
		tr.g = make([][]float64, rows)
		for i := range tr.g {
			tr.g[i] = make([]float64, cols)
		}
		var hist []string
		used := map[string]bool{}
		nOps := 0
		defer func() {
			c.SetDesc(fmt.Sprintf("%s %dx%d %s", st, rows, cols, strings.Join(hist, " ; ")))
			c.NT(nOps >= 4 && (used["tip"] || used["swapRows"] || used["swapCols"] || used["write"]))
			for a := range used {
				c.Class("action=" + a)
			}
			c.End()
		}()
		note := func(a, format string, args ...interface{}) {
			hist = append(hist, fmt.Sprintf(format, args...))
			used[a] = true
			nOps++
		}
		must := func(what string, f func()) {
			if p := call(f); p != "" {
				t.Fatalf("%s panicked: %s\nhistory: %s", what, p, strings.Join(hist, " ; "))
			}
		}
		transposeModel := func() {
			g := make([][]float64, tr.cols)
			for j := range g {
				g[j] = make([]float64, tr.rows)
				for i := range g[j] {
					g[j][i] = tr.g[i][j]
				}
			}
			tr.g, tr.rows, tr.cols = g, tr.cols, tr.rows
		}
		t.Repeat(map[string]func(*rapid.T){
			"write": func(t *rapid.T) {
				i, j := rapid.IntRange(0, tr.rows-1).Draw(t, "i"), rapid.IntRange(0, tr.cols-1).Draw(t, "j")
				x := drawValue(t, st, "x")
				note("write", "At(%d,%d).SetFloat64(%v)", i, j, x)
				must("At.SetFloat64", func() { tr.m.At(i, j).SetFloat64(x) })
				tr.g[i][j] = x
			},
			"touch": func(t *rapid.T) {
				i, j := rapid.IntRange(0, tr.rows-1).Draw(t, "i"), rapid.IntRange(0, tr.cols-1).Draw(t, "j")
				note("touch", "At(%d,%d)", i, j)
				must("At", func() { _ = tr.m.At(i, j).GetFloat64() })
			},
			"tip": func(t *rapid.T) {
				note("tip", "Tip()")
				must("Tip", func() { tr.m.Tip() })
				transposeModel()
			},
			"T": func(t *rapid.T) { // T() result is read at once
				note("T", "T() read")
				var tm Matrix
				must("T", func() { tm = tr.m.T() })
				for i := 0; i < tr.rows; i++ {
					for j := 0; j < tr.cols; j++ {
						if x := tm.Float64At(j, i); x != tr.g[i][j] {
							t.Fatalf("T()(%d,%d)=%v, model (%d,%d)=%v\nhistory: %s", j, i, x, i, j, tr.g[i][j], strings.Join(hist, " ; "))
						}
					}
				}
			},
			"swapRows": func(t *rapid.T) {
				if tr.rows != tr.cols {
					t.Skip("square only")
				}
				i, j := rapid.IntRange(0, tr.rows-1).Draw(t, "i"), rapid.IntRange(0, tr.rows-1).Draw(t, "j")
				note("swapRows", "SwapRows(%d,%d)", i, j)
				must("SwapRows", func() { tr.m.SwapRows(i, j) })
				tr.g[i], tr.g[j] = tr.g[j], tr.g[i]
			},
			"swapCols": func(t *rapid.T) {
				if tr.rows != tr.cols {
					t.Skip("square only")
				}
				i, j := rapid.IntRange(0, tr.cols-1).Draw(t, "i"), rapid.IntRange(0, tr.cols-1).Draw(t, "j")
				note("swapCols", "SwapColumns(%d,%d)", i, j)
				must("SwapColumns", func() { tr.m.SwapColumns(i, j) })
				for r := range tr.g {
					tr.g[r][i], tr.g[r][j] = tr.g[r][j], tr.g[r][i]
				}
			},
			"rowcol": func(t *rapid.T) {
				i, j := rapid.IntRange(0, tr.rows-1).Draw(t, "i"), rapid.IntRange(0, tr.cols-1).Draw(t, "j")
				note("rowcol", "Row(%d)/Col(%d) read", i, j)
				var rv, cv Vector
				must("Row/Col", func() { rv, cv = tr.m.Row(i), tr.m.Col(j) })
				for q := 0; q < tr.cols; q++ {
					if rv.Float64At(q) != tr.g[i][q] {
						t.Fatalf("Row(%d)[%d]=%v, model %v\nhistory: %s", i, q, rv.Float64At(q), tr.g[i][q], strings.Join(hist, " ; "))
					}
				}
				for q := 0; q < tr.rows; q++ {
					if cv.Float64At(q) != tr.g[q][j] {
						t.Fatalf("Col(%d)[%d]=%v, model %v\nhistory: %s", j, q, cv.Float64At(q), tr.g[q][j], strings.Join(hist, " ; "))
					}
				}
			},
			"reset": func(t *rapid.T) {
				note("reset", "Reset()")
				must("Reset", func() { tr.m.Reset() })
				for i := range tr.g {
					for j := range tr.g[i] {
						tr.g[i][j] = 0
					}
				}
			},
			"arith": func(t *rapid.T) {
				s := drawValue(t, st, "s")
				op := rapid.SampledFrom([]string{"MmulS", "MaddM(self,self)", "MaddS"}).Draw(t, "op")
				note("arith", "%s s=%v", op, s)
				must(op, func() {
					switch op {
					case "MmulS":
						tr.m.MmulS(tr.m, st.NewMut(s))
					case "MaddM(self,self)":
						tr.m.MaddM(tr.m, tr.m)
					case "MaddS":
						tr.m.MaddS(tr.m, st.NewMut(s))
					}
				})
				for i := range tr.g {
					for j := range tr.g[i] {
						switch op {
						case "MmulS":
							tr.g[i][j] = st.Conv(tr.g[i][j] * s)
						case "MaddM(self,self)":
							tr.g[i][j] = st.Conv(tr.g[i][j] + tr.g[i][j])
						case "MaddS":
							tr.g[i][j] = st.Conv(tr.g[i][j] + s)
						}
					}
				}
			},
			"": func(t *rapid.T) { checkMatrix(t, tr, hist, rapid.IntRange(0, 2).Draw(t, "deepCheck") == 0) },
		})
	})
}

// ---------------------------------------------------------------------------------------------
// witnesses

func TestKF_permute_index_rebuild(t *testing.T) {
	v := NullSparseFloat64Vector(1)
	p := call(func() {
		v.Permute([]int{0})
		s := v.Slice(0, 1)
		_ = s.Float64At(0)
	})
	obs.KFStatus("C11/permute-index-lists-positions-without-a-value", p != "", p)
}
