// C02 — every scalar type computes the mathematical function its method names.
package c02

import (
	"fmt"
	"math"
	"os"
	"testing"

	. "github.com/pbenner/autodiff"
	"pgregory.net/rapid"
	"verifharness/gen"
	"verifharness/model"
	"verifharness/obs"
	"verifharness/scal"
)

func TestMain(m *testing.M) {
	code := m.Run()
	obs.Flush()
	os.Exit(code)
}

// call runs f and converts a panic into an error string.
func call(f func()) (perr string) {
	defer func() {
		if r := recover(); r != nil {
			perr = fmt.Sprint(r)
		}
	}()
	f()
	return ""
}

// set while drawing operands of a call in which some operand is infinite: integer-typed operands
// would be compared through an out-of-range float->int conversion (implementation-defined)
var intOperandsOff bool

func isIntVal(v float64, lim float64) bool {
	return v == math.Trunc(v) && math.Abs(v) <= lim
}

// operandType picks a type able to hold v exactly enough: integer types only for
// integer-valued |v|<=100 (fits every integer type); float types always (32-bit ones round).
func operandType(t *rapid.T, label string, v float64) gen.SType {
	if intOperandsOff {
		fl := []gen.SType{gen.TFloat64, gen.TReal64, gen.TFloat32, gen.TReal32, gen.TCFloat64, gen.TCFloat32}
		return gen.DrawType(t, label, fl)
	}
	if isIntVal(v, 100) && !(v == 0 && math.Signbit(v)) {
		return gen.DrawType(t, label, gen.AllTypes)
	}
	fl := []gen.SType{gen.TFloat64, gen.TReal64, gen.TFloat32, gen.TReal32, gen.TCFloat64, gen.TCFloat32}
	return gen.DrawType(t, label, fl)
}

// activate optionally turns Real operands into variables so that derivative tracking is on.
func activate(t *rapid.T, ops ...ConstScalar) bool {
	var reals []MagicScalar
	for _, o := range ops {
		if m, ok := o.(MagicScalar); ok {
			reals = append(reals, m)
		}
	}
	if len(reals) == 0 || !rapid.Bool().Draw(t, "activate") {
		return false
	}
	order := rapid.IntRange(1, 2).Draw(t, "order")
	// distinct objects only
	seen := map[MagicScalar]bool{}
	var u []MagicScalar
	for _, r := range reals {
		if !seen[r] {
			seen[r] = true
			u = append(u, r)
		}
	}
	if err := Variables(order, u...); err != nil {
		t.Fatalf("Variables: %v", err)
	}
	return true
}

// tolerance for a float-class receiver
func tol(op *scal.Op, recv gen.SType, ref float64, a scal.Args) (rel, abs float64) {
	eps := recv.Eps()
	switch {
	case op.Name == "Mlgamma":
		return 64 * eps, 64 * eps * (1 + math.Abs(ref))
	case op.Name == "LogErfc":
		return 1e4 * eps, 1e3 * eps
	case op.Name == "LogSub":
		gap := a.X - a.Y
		amp := 1.0
		if gap < 1 && gap > 0 {
			amp = 1 / gap
		}
		return 256 * eps * amp, 64 * eps * amp * (1 + math.Abs(a.X))
	case op.MultiStep:
		return 256 * eps, 64 * eps * (1 + math.Abs(a.X) + math.Abs(a.Y))
	default:
		return 4 * eps, 0
	}
}

func finite(v float64) bool { return !math.IsNaN(v) && !math.IsInf(v, 0) }

// ---------------------------------------------------------------------------------------------
// aspect: named_function_reference (float-class receivers)

func TestC02_named_function_reference(t *testing.T) {
	rapid.Check(t, func(t *rapid.T) {
		op := &scal.Ops[rapid.IntRange(0, len(scal.Ops)-1).Draw(t, "op")]
		recv := gen.DrawType(t, "recv", gen.FloatClass)
		wide := recv.Bits == 64 || !op.MultiStep
		a := op.Draw(t, wide)
		intOperandsOff = math.IsInf(a.X, 0) || math.IsInf(a.Y, 0)
		ta := operandType(t, "ta", a.X)
		tb := ta
		if op.Arity == 2 {
			tb = operandType(t, "tb", a.Y)
		}
		intOperandsOff = false
		// the multi-step operations compare their operands in the type of the first one: a value outside
		// the range of the other operand's integer type would be converted out of range there
		// (implementation defined), so that operand is held in a float type instead
		if op.Arity == 2 {
			if lo, hi := ta.IntRange(); ta.IsInt() && !(a.Y >= float64(lo) && a.Y <= float64(hi)) {
				ta = gen.TFloat64
			}
			if lo, hi := tb.IntRange(); tb.IsInt() && !(a.X >= float64(lo) && a.X <= float64(hi)) {
				tb = gen.TFloat64
			}
		}
		// values as held by the operand types
		held := a
		held.X = ta.Conv(a.X)
		if op.Arity == 2 {
			held.Y = tb.Conv(a.Y)
		}
		// temporaries are of the receiver's type (as in the library's own callers)
		c := obs.Begin("named_function_reference", "%s recv=%s a=%s:%s b=%s:%s extra=%v", op.Name, recv, ta, gen.F(held.X), tb, gen.F(held.Y), a.Extra)
		oa := ta.New(a.X)
		var ob ConstScalar
		if op.Arity == 2 {
			ob = tb.New(a.Y)
		}
		act := activate(t, oa, ob)
		r := recv.NewMut(rapid.SampledFrom([]float64{0, 1, -3.5}).Draw(t, "prior"))
		var tmp []Scalar
		for i := 0; i < op.Temps; i++ {
			tmp = append(tmp, recv.NewMut(0))
		}
		// the float32 multi-step implementations round intermediates to float32; their operand
		// must be representable or the comparison is about rounding, not about the function
		ref := op.Ref(held)
		if p := call(func() { op.Call(r, oa, ob, a.Extra, tmp) }); p != "" {
			t.Fatalf("%s panicked: %s", c.Desc(), p)
		}
		got := r.GetFloat64()
		want := recv.Conv(ref)
		rel, abs := tol(op, recv, ref, held)
		if recv.Bits == 32 && !model.Close(got, want, rel, abs) {
			// a 32-bit receiver may convert its operands to float32 first ("as represented in the
			// receiver's type"): accept that reading as well
			h2 := held
			h2.X, h2.Y = recv.Conv(held.X), recv.Conv(held.Y)
			if w2 := recv.Conv(op.Ref(h2)); model.Close(got, w2, rel, abs) {
				want = w2
			}
		}
		c.Classf("op=%s", op.Name)
		c.Classf("recv=%s", recv)
		c.Classf("op=%s/recv=%s", op.Name, recv)
		if op.Classify != nil {
			c.Class(op.Classify(held))
		}
		if ta.IsInt() != recv.IsInt() || (op.Arity == 2 && ta.Name != tb.Name) {
			c.Class("mixed-type operands")
		}
		if act {
			c.Class("derivatives tracked")
		}
		c.NT(got != held.X || ta.Name != recv.Name)
		if !model.Close(got, want, rel, abs) {
			// known findings of this aspect, narrow signatures
			if op.Name == "Erfc" && model.Close(got, recv.Conv(math.Erf(held.X)), 4*recv.Eps(), 0) && c.Known("C02/erfc-returns-erf") {
				c.End()
				return
			}
			if op.Name == "Log1pExp" && held.X > 18 && held.X <= 33.3 && c.Known("C02/log1pexp-branch3") {
				c.End()
				return
			}
			t.Fatalf("%s: got %v, reference %v (as %s: %v), |diff|=%g tol rel=%g abs=%g", c.Desc(), got, ref, recv, want, math.Abs(got-want), rel, abs)
		}
		if finite(want) && want != 0 {
			obs.Note("named_function_reference", "worst |got-ref|/tol "+op.Name, math.Abs(got-want)/(rel*math.Abs(want)+abs+1e-300))
		}
		c.End()
	})
}

// ---------------------------------------------------------------------------------------------
// aspect: cross_type_agreement — equal operands give equal values whatever type holds them and
// whether or not derivatives are tracked.

func TestC02_cross_type_agreement(t *testing.T) {
	rapid.Check(t, func(t *rapid.T) {
		op := &scal.Ops[rapid.IntRange(0, len(scal.Ops)-1).Draw(t, "op")]
		// cross-type exact operands: draw in the op's domain, then round to float32-representable
		a := op.Draw(t, false)
		a.X = float64(float32(a.X))
		a.Y = float64(float32(a.Y))
		c := obs.Begin("cross_type_agreement", "%s x=%s y=%s extra=%v", op.Name, gen.F(a.X), gen.F(a.Y), a.Extra)
		// after rounding the pair must still be in the op's domain: the reference tells
		ref := op.Ref(a)
		c.Classf("op=%s", op.Name)
		type outcome struct {
			recv, ta, tb string
			act          bool
			val          float64
		}
		var outs []outcome
		run := func(recv, ta, tb gen.SType, act bool) {
			oa := ta.New(a.X)
			var ob ConstScalar
			if op.Arity == 2 {
				ob = tb.New(a.Y)
			}
			if act {
				var ms []MagicScalar
				if m, ok := oa.(MagicScalar); ok {
					ms = append(ms, m)
				}
				if m, ok := ob.(MagicScalar); ok {
					ms = append(ms, m)
				}
				if len(ms) == 0 {
					return
				}
				Variables(2, ms...)
			}
			r := recv.NewMut(0)
			var tmp []Scalar
			for i := 0; i < op.Temps; i++ {
				tmp = append(tmp, recv.NewMut(0))
			}
			if p := call(func() { op.Call(r, oa, ob, a.Extra, tmp) }); p != "" {
				t.Fatalf("%s recv=%s a=%s b=%s panicked: %s", c.Desc(), recv, ta, tb, p)
			}
			outs = append(outs, outcome{recv.Name, ta.Name, tb.Name, act, r.GetFloat64()})
		}
		fl := []gen.SType{gen.TFloat64, gen.TReal64, gen.TFloat32, gen.TReal32, gen.TCFloat64, gen.TCFloat32}
		for _, recv := range gen.FloatClass {
			// all float operand types for a, one drawn for b, plus derivative-tracking variants
			tb := gen.DrawType(t, "tb", fl)
			for _, ta := range fl {
				run(recv, ta, tb, false)
				if ta.IsReal() || tb.IsReal() {
					run(recv, ta, tb, true)
				}
			}
		}
		// compare every outcome with the first of its precision class and with the reference
		var first64, first32 *outcome
		for i := range outs {
			o := &outs[i]
			is64 := o.recv == "Float64" || o.recv == "Real64"
			var base **outcome
			eps := 1.0 / (1 << 52)
			if is64 {
				base = &first64
			} else {
				base = &first32
				eps = 1.0 / (1 << 23)
			}
			if *base == nil {
				*base = o
			}
			rel, abs := 4*eps, 0.0
			if op.MultiStep || op.Name == "LogErfc" || op.Name == "Mlgamma" {
				rel, abs = tol(op, gen.SType{Kind: gen.KFloat, Bits: map[bool]int{true: 64, false: 32}[is64]}, ref, a)
			}
			if !model.Close(o.val, (*base).val, rel, abs) {
				if op.Name == "Log1pExp" && a.X > 18 && a.X <= 33.3 && c.Known("C02/log1pexp-branch3") {
					continue
				}
				t.Fatalf("%s: recv=%s(a=%s,b=%s,tracked=%v) gives %v but recv=%s(a=%s,b=%s,tracked=%v) gives %v",
					c.Desc(), o.recv, o.ta, o.tb, o.act, o.val, (*base).recv, (*base).ta, (*base).tb, (*base).act, (*base).val)
			}
		}
		if first64 != nil && first32 != nil {
			rel, abs := tol(op, gen.TFloat32, ref, a)
			if !model.Close(first32.val, float64(float32(first64.val)), 4*rel, 4*abs) {
				if !(op.Name == "Log1pExp" && a.X > 18 && a.X <= 33.3 && c.Known("C02/log1pexp-branch3")) {
					t.Fatalf("%s: float32-class value %v disagrees with float64-class value %v beyond float32 precision", c.Desc(), first32.val, first64.val)
				}
			}
		}
		c.NT(len(outs) >= 8)
		c.End()
	})
}

// ---------------------------------------------------------------------------------------------
// aspect: integer_ring_ops — Go integer arithmetic (wrap-around) on integer receivers.

func wrap(v int64, s gen.SType) int64 {
	switch s.Bits {
	case 8:
		return int64(int8(v))
	case 16:
		return int64(int16(v))
	case 32:
		return int64(int32(v))
	}
	return v
}

// holders returns the operand types that hold integer v exactly
func holders(v int64, recv gen.SType) []gen.SType {
	var r []gen.SType
	for _, s := range gen.AllTypes {
		if s.IsInt() {
			lo, hi := s.IntRange()
			if v >= lo && v <= hi {
				r = append(r, s)
			}
		} else {
			lim := int64(1) << 52
			if s.Bits == 32 {
				lim = 1 << 23
			}
			if v > -lim && v < lim {
				r = append(r, s)
			}
		}
	}
	return r
}

func getInt(s ConstScalar, st gen.SType) int64 {
	switch st.Name {
	case "Int8", "ConstInt8":
		return int64(s.GetInt8())
	case "Int16", "ConstInt16":
		return int64(s.GetInt16())
	case "Int32", "ConstInt32":
		return int64(s.GetInt32())
	case "Int", "ConstInt":
		return int64(s.GetInt())
	}
	return s.GetInt64()
}

func newIntScalar(st gen.SType, v int64) ConstScalar {
	switch st.Name {
	case "Int8":
		return NewInt8(int8(v))
	case "Int16":
		return NewInt16(int16(v))
	case "Int32":
		return NewInt32(int32(v))
	case "Int64":
		return NewInt64(v)
	case "Int":
		return NewInt(int(v))
	case "ConstInt8":
		return ConstInt8(v)
	case "ConstInt16":
		return ConstInt16(v)
	case "ConstInt32":
		return ConstInt32(v)
	case "ConstInt64":
		return ConstInt64(v)
	case "ConstInt":
		return ConstInt(v)
	}
	return st.New(float64(v))
}

func TestC02_integer_ring_ops(t *testing.T) {
	intOps := []string{"Neg", "Abs", "Add", "Sub", "Mul", "Div", "Min", "Max"}
	rapid.Check(t, func(t *rapid.T) {
		name := intOps[rapid.IntRange(0, len(intOps)-1).Draw(t, "op")]
		op := scal.ByName(name)
		recv := gen.DrawType(t, "recv", gen.IntClass)
		x := gen.IntIn(t, "x", recv)
		y := gen.IntIn(t, "y", recv)
		if name == "Div" && y == 0 {
			y = 1
		}
		hx, hy := holders(x, recv), holders(y, recv)
		ta := hx[rapid.IntRange(0, len(hx)-1).Draw(t, "ta")]
		tb := hy[rapid.IntRange(0, len(hy)-1).Draw(t, "tb")]
		c := obs.Begin("integer_ring_ops", "%s recv=%s a=%s:%d b=%s:%d", name, recv, ta, x, tb, y)
		var want int64
		switch name {
		case "Neg":
			want = wrap(-x, recv)
		case "Abs":
			want = x
			if x < 0 {
				want = wrap(-x, recv)
			}
		case "Add":
			want = wrap(x+y, recv)
		case "Sub":
			want = wrap(x-y, recv)
		case "Mul":
			want = wrap(x*y, recv)
		case "Div":
			want = wrap(x/y, recv)
			if x == math.MinInt64 && y == -1 {
				want = math.MinInt64
			}
		case "Min":
			want = x
			if y < x {
				want = y
			}
		case "Max":
			want = x
			if y > x {
				want = y
			}
		}
		oa, ob := newIntScalar(ta, x), newIntScalar(tb, y)
		r := recv.NewMut(7)
		if p := call(func() { op.Call(r, oa, ob, 0, nil) }); p != "" {
			t.Fatalf("%s panicked: %s", c.Desc(), p)
		}
		got := getInt(r, recv)
		c.Classf("op=%s/recv=%s", name, recv)
		lo, hi := recv.IntRange()
		if x == lo || x == hi || y == lo || y == hi {
			c.Class("operand at type bound")
		}
		if ta.Name != recv.Name || tb.Name != recv.Name {
			c.Class("mixed-type operands")
			if !ta.IsInt() || !tb.IsInt() {
				c.Class("mixed int/float operands")
			}
		}
		c.NT(want != x || ta.Name != recv.Name)
		if got != want {
			t.Fatalf("%s: got %d, Go integer arithmetic gives %d", c.Desc(), got, want)
		}
		if fmt.Sprint(r.Type()) != fmt.Sprint(recv.T) {
			t.Fatalf("%s: receiver type changed to %v", c.Desc(), r.Type())
		}
		c.End()
	})
}

// ---------------------------------------------------------------------------------------------
// aspect: order_and_sign — comparisons agree with the numeric order in the receiver's type

func TestC02_order_and_sign(t *testing.T) {
	rapid.Check(t, func(t *rapid.T) {
		recv := gen.DrawType(t, "recv", gen.AllTypes)
		var x, y float64
		if recv.IsInt() {
			x, y = float64(gen.IntIn(t, "x", recv)), float64(gen.IntIn(t, "y", recv))
			if math.Abs(x) >= 1<<53 {
				x = math.Trunc(x / 4096)
			}
			if math.Abs(y) >= 1<<53 {
				y = math.Trunc(y / 4096)
			}
		} else {
			x = gen.Float(t, "x", -20, 20)
			switch rapid.IntRange(0, 3).Draw(t, "rel") {
			case 0:
				y = x
			case 1:
				y = math.Nextafter(x, math.Inf(1))
			case 2:
				y = x * (1 + 1.0/(1<<30))
			default:
				y = gen.Float(t, "y", -20, 20)
			}
		}
		// the operand may be of any type that holds y exactly in the receiver's representation
		var tb gen.SType
		if recv.IsInt() {
			h := holders(int64(y), recv)
			tb = h[rapid.IntRange(0, len(h)-1).Draw(t, "tb")]
		} else {
			tb = operandType(t, "tb", y)
		}
		xs, ysr := recv.Conv(x), recv.Conv(tb.Conv(y))
		var a, b ConstScalar
		if recv.IsInt() {
			a, b = newIntScalar(recv, int64(x)), newIntScalar(tb, int64(y))
		} else {
			a, b = recv.New(x), tb.New(y)
		}
		c := obs.Begin("order_and_sign", "recv=%s x=%s operand=%s y=%s", recv, gen.F(xs), tb, gen.F(ysr))
		c.Classf("recv=%s", recv)
		if xs == ysr {
			c.Class("equal in receiver type")
		}
		if x != y && xs == ysr {
			c.Class("distinct but equal in receiver type")
		}
		c.NT(tb.Name != recv.Name || xs != ysr)
		if got := a.Greater(b); got != (xs > ysr) {
			t.Fatalf("%s: Greater=%v, numeric order in receiver type says %v", c.Desc(), got, xs > ysr)
		}
		if got := a.Smaller(b); got != (xs < ysr) {
			t.Fatalf("%s: Smaller=%v, numeric order in receiver type says %v", c.Desc(), got, xs < ysr)
		}
		sg := 0
		if xs < 0 {
			sg = -1
		} else if xs > 0 {
			sg = 1
		}
		if got := a.Sign(); got != sg {
			t.Fatalf("%s: Sign=%d, expected %d", c.Desc(), got, sg)
		}
		// Equals with a positive epsilon on operands representable in the receiver's type
		if tb.Conv(y) == ysr {
			e := []float64{0.5, 1e-3, 1e-9, 2}[rapid.IntRange(0, 3).Draw(t, "eps")]
			if got, want := a.Equals(b, e), math.Abs(xs-ysr) < e; got != want {
				t.Fatalf("%s: Equals(eps=%g)=%v, |x-y|<eps is %v", c.Desc(), e, got, want)
			}
		}
		if !recv.Const {
			r1, r2 := recv.NewMut(0), recv.NewMut(0)
			r1.Min(a, b)
			r2.Max(a, b)
			mn, mx := math.Min(xs, ysr), math.Max(xs, ysr)
			if r1.GetFloat64() != mn || r2.GetFloat64() != mx {
				t.Fatalf("%s: Min=%v Max=%v, expected %v %v", c.Desc(), r1.GetFloat64(), r2.GetFloat64(), mn, mx)
			}
		}
		c.End()
	})
}

// ---------------------------------------------------------------------------------------------
// aspect: conversion_and_registry

func TestC02_conversion_and_registry(t *testing.T) {
	rapid.Check(t, func(t *rapid.T) {
		src := gen.DrawType(t, "src", gen.AllTypes)
		mutTargets := gen.MutableTypes
		var v float64
		if src.IsInt() {
			v = float64(rapid.IntRange(-100, 100).Draw(t, "v"))
		} else {
			v = gen.Float(t, "v", -6, 6)
		}
		held := src.Conv(v)
		which := rapid.IntRange(0, 3).Draw(t, "entry")
		entries := []string{"ConvertScalar", "ConvertConstScalar", "ConvertMagicScalar", "constructors"}
		var dst gen.SType
		switch which {
		case 0:
			dst = gen.DrawType(t, "dst", mutTargets)
		case 1:
			dst = gen.DrawType(t, "dst", gen.AllTypes)
		case 2:
			dst = gen.DrawType(t, "dst", gen.RealTypes)
		default:
			dst = gen.DrawType(t, "dst", gen.AllTypes)
		}
		c := obs.Begin("conversion_and_registry", "%s src=%s:%s dst=%s", entries[which], src, gen.F(held), dst)
		c.Classf("entry=%s", entries[which])
		c.Classf("dst=%s", dst)
		// Go's numeric conversion of the held value into the target representation; float->int
		// conversion must be in range to be defined: |held| <= 100 always fits for ints when
		// truncated, larger floats only go to float targets
		if dst.IsInt() && math.Abs(held) > 100 {
			held = math.Trunc(math.Mod(held, 100))
			v = held
		}
		want := dst.Conv(held)
		s := src.New(v)
		check := func(what string, r ConstScalar) {
			if r == nil {
				t.Fatalf("%s: %s returned nil", c.Desc(), what)
			}
			if fmt.Sprint(r.Type()) != fmt.Sprint(dst.T) {
				if which <= 2 && src.IsReal() && src.Name != dst.Name && which != 1 && c.Known("C02/real-convert-returns-receiver") {
					return
				}
				t.Fatalf("%s: %s returned type %v, requested %v", c.Desc(), what, r.Type(), dst.T)
			}
			if got := r.GetFloat64(); !model.SameBits(got, want, false) {
				t.Fatalf("%s: %s holds %v, Go conversion gives %v", c.Desc(), what, got, want)
			}
		}
		c.NT(src.Name != dst.Name)
		var perr string
		switch which {
		case 0:
			m, ok := s.(Scalar)
			if !ok {
				c.Class("const source has no ConvertScalar")
				c.End()
				return
			}
			var r Scalar
			perr = call(func() { r = m.ConvertScalar(dst.T) })
			if perr == "" {
				check("ConvertScalar", r)
			}
		case 1:
			var r ConstScalar
			perr = call(func() { r = s.ConvertConstScalar(dst.T) })
			if perr == "" {
				check("ConvertConstScalar", r)
			}
		case 2:
			m, ok := s.(MagicScalar)
			if !ok {
				c.Class("non-magic source has no ConvertMagicScalar")
				c.End()
				return
			}
			var r MagicScalar
			perr = call(func() { r = m.ConvertMagicScalar(dst.T) })
			if perr == "" {
				check("ConvertMagicScalar", r)
			}
		default:
			if !dst.Const {
				var r Scalar
				perr = call(func() { r = NewScalar(dst.T, held) })
				if perr == "" {
					check("NewScalar", r)
					want0 := want
					want = 0
					check("NullScalar", NullScalar(dst.T))
					want = want0
				}
			}
			if perr == "" {
				var r ConstScalar
				perr = call(func() { r = NewConstScalar(dst.T, held) })
				if perr == "" {
					check("NewConstScalar", r)
				}
			}
			if perr == "" && dst.IsReal() {
				var r MagicScalar
				perr = call(func() { r = NewMagicScalar(dst.T, held) })
				if perr == "" {
					check("NewMagicScalar", r)
				}
			}
		}
		if perr != "" {
			if dst.Const && c.Known("C02/newconstscalar-wrong-registry") {
				c.End()
				return
			}
			if which == 3 && dst.IsReal() && c.Known("C02/magic-registry-empty") {
				c.End()
				return
			}
			t.Fatalf("%s: panicked: %s", c.Desc(), perr)
		}
		c.End()
	})
}

// ---------------------------------------------------------------------------------------------
// aspect: ieee_specials — arithmetic and elementary functions on ±0, ±Inf, NaN agree with Go's math

func TestC02_ieee_specials(t *testing.T) {
	names := []string{"Neg", "Add", "Sub", "Mul", "Div", "Sqrt", "Sin", "Cos", "Tan", "Sinh", "Cosh", "Tanh", "Exp", "Log", "Log1p",
		"Erf", "Erfc", "Abs", "Min", "Max", "Log1pExp", "Logistic", "Sigmoid", "LogAdd", "LogSub", "Pow"}
	rapid.Check(t, func(t *rapid.T) {
		name := names[rapid.IntRange(0, len(names)-1).Draw(t, "op")]
		op := scal.ByName(name)
		recv := gen.DrawType(t, "recv", gen.FloatClass)
		var a scal.Args
		a.X = gen.Special(t, "x")
		if op.Arity == 2 {
			if rapid.Bool().Draw(t, "ySpecial") {
				a.Y = gen.Special(t, "y")
			} else {
				a.Y = gen.Dyadic(t, "y")
			}
			if rapid.Bool().Draw(t, "swap") {
				a.X, a.Y = a.Y, a.X
			}
		}
		ta := gen.DrawType(t, "ta", gen.FloatClass)
		a.X, a.Y = ta.Conv(a.X), ta.Conv(a.Y)
		if recv.Bits == 32 && op.MultiStep {
			// operands outside the receiver type's range are not claimed for the multi-step ops
			a.X, a.Y = recv.Conv(a.X), recv.Conv(a.Y)
		}
		nan := math.IsNaN(a.X) || math.IsNaN(a.Y)
		// where the operation does not define a result: order-based ops with NaN, multi-step
		// log-scale ops with NaN or +Inf (no documented semantics), Sqrt/Pow outside their domain
		switch name {
		case "Min", "Max", "Abs":
			if nan {
				a.X, a.Y = 1, 2
			}
		case "LogAdd", "LogSub", "Log1pExp", "Logistic", "Sigmoid":
			if nan {
				a.X, a.Y = math.Inf(-1), 0
			}
			if name == "LogSub" && (math.IsInf(a.X, 0) || math.IsInf(a.Y, 1) || a.Y > a.X) {
				a.X, a.Y = 1, math.Inf(-1)
			}
			// a subnormal gap: the result is the logarithm of a subnormal number, which Go's math.Log
			// gets wrong on amd64 (-709.09 for every subnormal argument); not asserted
			if name == "LogSub" && a.X-a.Y > 0 && a.X-a.Y < 2.3e-308 {
				a.X, a.Y = 1, math.Inf(-1)
			}
			if name == "LogAdd" && (math.IsInf(a.X, 1) || math.IsInf(a.Y, 1)) {
				a.X, a.Y = math.Inf(-1), math.Inf(-1)
			}
		case "Sqrt":
			// Sqrt is Pow(x, 1/2): outside its domain (x<0) C99 pow and sqrt disagree at -Inf; not claimed
			if math.IsInf(a.X, -1) {
				a.X = math.Inf(1)
			}
		case "Pow":
			if a.X < 0 || nan {
				a.X = math.Abs(a.X)
				if math.IsNaN(a.X) {
					a.X = 0
				}
				if math.IsNaN(a.Y) {
					a.Y = 0
				}
			}
		}
		held := a
		c := obs.Begin("ieee_specials", "%s recv=%s operand type %s x=%s y=%s", name, recv, ta, gen.F(held.X), gen.F(held.Y))
		oa := ta.New(a.X)
		var ob ConstScalar
		if op.Arity == 2 {
			ob = ta.New(a.Y)
		}
		r := recv.NewMut(1)
		var tmp []Scalar
		for i := 0; i < op.Temps; i++ {
			tmp = append(tmp, recv.NewMut(0))
		}
		if p := call(func() { op.Call(r, oa, ob, 0, tmp) }); p != "" {
			t.Fatalf("%s panicked: %s", c.Desc(), p)
		}
		got, want := r.GetFloat64(), recv.Conv(op.Ref(held))
		want2 := want
		if recv.Bits == 32 {
			h2 := held
			h2.X, h2.Y = recv.Conv(held.X), recv.Conv(held.Y)
			want2 = recv.Conv(op.Ref(h2))
		}
		c.Classf("op=%s", name)
		switch {
		case math.IsNaN(held.X):
			c.Class("x=NaN")
		case math.IsInf(held.X, 0):
			c.Class("x=±Inf")
		case held.X == 0:
			c.Class("x=±0")
		}
		c.NT(true)
		cmp := func(want float64) bool {
			rel, abs := tol(op, recv, want, held)
			if !finite(want) {
				rel, abs = 0, 0
			}
			if name == "Abs" || name == "Min" || name == "Max" {
				return model.SameBits(got, want, false) // sign of zero is not claimed for the order-based ops
			}
			return model.Close(got, want, rel, abs)
		}
		ok := cmp(want) || cmp(want2)
		if !ok {
			if name == "Erfc" && model.Close(got, recv.Conv(math.Erf(held.X)), 4*recv.Eps(), 0) && c.Known("C02/erfc-returns-erf") {
				c.End()
				return
			}
			t.Fatalf("%s: got %v, Go math gives %v", c.Desc(), got, want)
		}
		c.End()
	})
}

// ---------------------------------------------------------------------------------------------
// aspect: reductions — Vnorm, Vmean, VdotV, Mtrace, Mnorm, SmoothMax and LogSmoothMax == SmoothMax

func TestC02_reductions(t *testing.T) {
	names := []string{"Vnorm", "Vmean", "VdotV", "Mtrace", "Mnorm", "SmoothMax", "LogSmoothMax"}
	rapid.Check(t, func(t *rapid.T) {
		name := names[rapid.IntRange(0, len(names)-1).Draw(t, "op")]
		recv := gen.DrawType(t, "recv", gen.FloatClass)
		et := gen.DrawType(t, "elem", gen.FloatClass)
		sparse := rapid.Bool().Draw(t, "sparse")
		n := rapid.IntRange(1, 6).Draw(t, "n")
		if name == "Mtrace" || name == "Mnorm" {
			n = rapid.IntRange(1, 3).Draw(t, "dim")
		}
		pos := name == "LogSmoothMax"
		draw := func(label string, k int) []float64 {
			xs := make([]float64, k)
			for i := range xs {
				if pos {
					xs[i] = float64(rapid.IntRange(1, 40).Draw(t, label)) / 8
				} else {
					xs[i] = gen.Dyadic(t, label)
				}
			}
			return xs
		}
		mkVec := func(xs []float64) Vector {
			var v Vector
			if sparse {
				v = NullSparseVector(et.T, len(xs))
			} else {
				v = NullDenseVector(et.T, len(xs))
			}
			for i, x := range xs {
				if x != 0 {
					v.At(i).SetFloat64(x)
				}
			}
			return v
		}
		r := recv.NewMut(3)
		var got, want float64
		var desc string
		wide := false
		rel := 64 * math.Max(recv.Eps(), et.Eps())
		var perr string
		switch name {
		case "Vnorm", "Vmean":
			xs := draw("x", n)
			desc = fmt.Sprintf("%v", xs)
			s := 0.0
			for _, x := range xs {
				if name == "Vnorm" {
					s += x * x
				} else {
					s += x
				}
			}
			if name == "Vnorm" {
				want = math.Sqrt(s)
				perr = call(func() { r.Vnorm(mkVec(xs)) })
			} else {
				want = s / float64(n)
				perr = call(func() { r.Vmean(mkVec(xs)) })
			}
		case "VdotV":
			xs, ys := draw("x", n), draw("y", n)
			desc = fmt.Sprintf("%v . %v", xs, ys)
			for i := range xs {
				want += xs[i] * ys[i]
			}
			perr = call(func() { r.VdotV(mkVec(xs), mkVec(ys)) })
		case "Mtrace", "Mnorm":
			xs := draw("x", n*n)
			desc = fmt.Sprintf("%dx%d %v", n, n, xs)
			var m Matrix
			if sparse {
				m = NullSparseMatrix(et.T, n, n)
			} else {
				m = NullDenseMatrix(et.T, n, n)
			}
			ss := 0.0
			for i := 0; i < n; i++ {
				for j := 0; j < n; j++ {
					x := xs[i*n+j]
					if x != 0 {
						m.At(i, j).SetFloat64(x)
					}
					ss += x * x
					if i == j && name == "Mtrace" {
						want += x
					}
				}
			}
			if name == "Mtrace" {
				perr = call(func() { r.Mtrace(m) })
			} else {
				want = math.Sqrt(ss)
				perr = call(func() { r.Mnorm(m) })
				if perr == "" && !model.Close(r.GetFloat64(), want, rel, 0) && model.Close(r.GetFloat64(), ss, rel, 0) {
					c := obs.Begin("reductions", "Mnorm recv=%s elem=%s sparse=%v %s", recv, et, sparse, desc)
					c.Class("op=Mnorm")
					if c.Known("C02/mnorm-sum-of-squares") {
						c.End()
						return
					}
				}
			}
		case "SmoothMax", "LogSmoothMax":
			xs := draw("x", n)
			alpha := float64(rapid.IntRange(-16, 16).Draw(t, "alpha")) / 4
			// one SmoothMax case in three spreads the arguments so far that exp(alpha*x_i) over- or
			// underflows unless the implementation shifts by max(alpha*x_i) (seed C02-5: the shift
			// of one scalar type was max(x_i)*alpha, wrong for negative alpha)
			wide = name == "SmoothMax" && rapid.IntRange(0, 2).Draw(t, "wide") == 0
			if wide {
				for i := range xs {
					xs[i] = float64(rapid.IntRange(-1200, 1200).Draw(t, "xw"))
				}
			}
			desc = fmt.Sprintf("alpha=%v %v", alpha, xs)
			shift := math.Inf(-1)
			for _, x := range xs {
				shift = math.Max(shift, alpha*x)
			}
			num, den := 0.0, 0.0
			for _, x := range xs {
				num += x * math.Exp(alpha*x-shift)
				den += math.Exp(alpha*x - shift)
			}
			want = num / den
			rel = 4096 * math.Max(recv.Eps(), et.Eps())
			v := mkVec(xs)
			if name == "SmoothMax" {
				tmp := [2]Scalar{recv.NewMut(0), recv.NewMut(0)}
				perr = call(func() { r.SmoothMax(v, ConstFloat64(alpha), tmp) })
			} else {
				tmp := [3]Scalar{recv.NewMut(0), recv.NewMut(0), recv.NewMut(0)}
				perr = call(func() { r.LogSmoothMax(v, ConstFloat64(alpha), tmp) })
				if perr == "" && !model.Close(r.GetFloat64(), want, rel, 0) && model.Close(r.GetFloat64(), (math.Exp(-shift)+num)/den, rel, 0) {
					c := obs.Begin("reductions", "LogSmoothMax recv=%s elem=%s sparse=%v %s", recv, et, sparse, desc)
					c.Class("op=LogSmoothMax")
					if c.Known("C02/logsmoothmax-accumulator-starts-at-log1") {
						c.End()
						return
					}
				}
			}
		}
		c := obs.Begin("reductions", "%s recv=%s elem=%s sparse=%v %s", name, recv, et, sparse, desc)
		c.Classf("op=%s", name)
		c.Classf("sparse=%v", sparse)
		if wide {
			c.Class("smoothmax=wide-spread")
		}
		c.NT(n >= 2)
		if perr != "" {
			t.Fatalf("%s panicked: %s", c.Desc(), perr)
		}
		got = r.GetFloat64()
		if !model.Close(got, recv.Conv(want), rel, rel) {
			t.Fatalf("%s: got %v, reference %v", c.Desc(), got, want)
		}
		c.End()
	})
}

// ---------------------------------------------------------------------------------------------
// witnesses of recorded findings (plain regression checks, no random source)

func TestKF_erfc_returns_erf(t *testing.T) {
	bad := ""
	for _, st := range gen.MutableTypes[:4] {
		r := st.NewMut(0)
		r.Erfc(ConstFloat64(0.5))
		if math.Abs(r.GetFloat64()-math.Erfc(0.5)) > 1e-6 {
			bad += fmt.Sprintf("%s.Erfc(0.5)=%v ", st, r.GetFloat64())
		}
	}
	obs.KFStatus("C02/erfc-returns-erf", bad != "", bad)
}

func TestKF_log1pexp_branch3(t *testing.T) {
	bad := ""
	for _, st := range gen.MutableTypes[:4] {
		r := st.NewMut(0)
		r.Log1pExp(ConstFloat64(20))
		if math.Abs(r.GetFloat64()-20) > 1e-3 {
			bad += fmt.Sprintf("%s.Log1pExp(20)=%v ", st, r.GetFloat64())
		}
	}
	obs.KFStatus("C02/log1pexp-branch3", bad != "", bad)
}

func TestKF_logsmoothmax(t *testing.T) {
	x := NewDenseFloat64Vector([]float64{1, 2, 3})
	r1, r2 := NewFloat64(0), NewFloat64(0)
	r1.SmoothMax(x, ConstFloat64(2), [2]Scalar{NewFloat64(0), NewFloat64(0)})
	r2.LogSmoothMax(x, ConstFloat64(2), [3]Scalar{NewFloat64(0), NewFloat64(0), NewFloat64(0)})
	obs.KFStatus("C02/logsmoothmax-accumulator-starts-at-log1", math.Abs(r1.GetFloat64()-r2.GetFloat64()) > 1e-9,
		fmt.Sprintf("SmoothMax=%v LogSmoothMax=%v", r1.GetFloat64(), r2.GetFloat64()))
}

func TestKF_real_convert(t *testing.T) {
	r := NewReal64(1.5).ConvertScalar(Float64Type)
	obs.KFStatus("C02/real-convert-returns-receiver", fmt.Sprint(r.Type()) != fmt.Sprint(Float64Type), fmt.Sprint(r.Type()))
}

func TestKF_magic_registry(t *testing.T) {
	p := call(func() { NewMagicScalar(Real64Type, 1) })
	obs.KFStatus("C02/magic-registry-empty", p != "", p)
}

func TestKF_newconstscalar(t *testing.T) {
	p := call(func() { NewFloat64(1.5).ConvertConstScalar(ConstFloat64Type) })
	obs.KFStatus("C02/newconstscalar-wrong-registry", p != "", p)
}

func TestKF_mnorm(t *testing.T) {
	m := NewDenseFloat64Matrix([]float64{3, 0, 0, 4}, 2, 2)
	r := NewFloat64(0)
	r.Mnorm(m)
	obs.KFStatus("C02/mnorm-sum-of-squares", r.GetFloat64() == 25, fmt.Sprintf("Mnorm([[3,0],[0,4]])=%v, Frobenius norm is 5", r.GetFloat64()))
}

// ---------------------------------------------------------------------------------------------
// aspect: typed_setters — SetInt8 .. SetInt64, SetInt, SetFloat32, SetFloat64 store the value that Go's
// conversion of the argument to the receiver's storage type gives; Real receivers drop their
// derivatives (a plain value has none)

func TestC02_typed_setters(t *testing.T) {
	setters := []string{"SetInt8", "SetInt16", "SetInt32", "SetInt64", "SetInt", "SetFloat32", "SetFloat64"}
	rapid.Check(t, func(t *rapid.T) {
		recv := gen.DrawType(t, "recv", gen.MutableTypes)
		set := setters[rapid.IntRange(0, len(setters)-1).Draw(t, "setter")]
		// the receiver's previous content, with derivatives for Real types
		r := recv.NewMut(float64(rapid.IntRange(-5, 5).Draw(t, "before")))
		if recv.IsReal() {
			order := rapid.IntRange(0, 2).Draw(t, "order")
			if order > 0 {
				m := r.(MagicScalar)
				m.Alloc(2, order)
				m.SetDerivative(0, 1.5)
				m.SetDerivative(1, -2)
				if order > 1 {
					m.SetHessian(0, 1, 0.25)
					m.SetHessian(1, 0, 0.25)
				}
			}
		}
		var want float64
		var desc string
		toRecvInt := func(v int64) float64 {
			// integer to integer conversions wrap (defined by the language); to floats they round
			if recv.IsInt() {
				switch recv.Bits {
				case 8:
					return float64(int8(v))
				case 16:
					return float64(int16(v))
				case 32:
					return float64(int32(v))
				}
				return float64(v)
			}
			if recv.Bits == 32 {
				return float64(float32(v))
			}
			return float64(v)
		}
		var perr string
		switch set {
		case "SetInt8":
			v := int8(rapid.IntRange(math.MinInt8, math.MaxInt8).Draw(t, "v"))
			want, desc = toRecvInt(int64(v)), fmt.Sprint(v)
			perr = call(func() { r.SetInt8(v) })
		case "SetInt16":
			v := int16(rapid.IntRange(math.MinInt16, math.MaxInt16).Draw(t, "v"))
			want, desc = toRecvInt(int64(v)), fmt.Sprint(v)
			perr = call(func() { r.SetInt16(v) })
		case "SetInt32":
			v := int32(rapid.IntRange(math.MinInt32, math.MaxInt32).Draw(t, "v"))
			want, desc = toRecvInt(int64(v)), fmt.Sprint(v)
			perr = call(func() { r.SetInt32(v) })
		case "SetInt64":
			v := rapid.Int64().Draw(t, "v")
			want, desc = toRecvInt(v), fmt.Sprint(v)
			perr = call(func() { r.SetInt64(v) })
		case "SetInt":
			v := rapid.Int().Draw(t, "v")
			want, desc = toRecvInt(int64(v)), fmt.Sprint(v)
			perr = call(func() { r.SetInt(v) })
		case "SetFloat32":
			// in the range of every integer type: float to integer conversion is defined only there
			v := float32(rapid.IntRange(-1000, 1000).Draw(t, "v8")) / 8
			want, desc = recv.Conv(float64(v)), fmt.Sprint(v)
			perr = call(func() { r.SetFloat32(v) })
		case "SetFloat64":
			v := float64(rapid.IntRange(-1000, 1000).Draw(t, "v8")) / 8
			want, desc = recv.Conv(v), fmt.Sprint(v)
			perr = call(func() { r.SetFloat64(v) })
		}
		c := obs.Begin("typed_setters", "%s.%s(%s)", recv, set, desc)
		c.Classf("recv=%s", recv)
		c.Classf("setter=%s", set)
		c.NT(true)
		if perr != "" {
			t.Fatalf("%s panicked: %s", c.Desc(), perr)
		}
		if got := r.GetFloat64(); got != want {
			t.Fatalf("%s: the receiver holds %v, the conversion of the argument to its storage type is %v", c.Desc(), got, want)
		}
		if recv.IsReal() {
			for i := 0; i < r.GetN() && r.GetOrder() >= 1; i++ {
				if r.GetDerivative(i) != 0 {
					t.Fatalf("%s: derivative %d is still %v after a plain value was stored", c.Desc(), i, r.GetDerivative(i))
				}
				for j := 0; j < r.GetN() && r.GetOrder() >= 2; j++ {
					if r.GetHessian(i, j) != 0 {
						t.Fatalf("%s: Hessian entry %d,%d is still %v after a plain value was stored", c.Desc(), i, j, r.GetHessian(i, j))
					}
				}
			}
		}
		c.End()
	})
}

// ---------------------------------------------------------------------------------------------
// aspect: wide_integer_conversions — ConvertScalar of the 64-bit integer types converts the stored
// integer directly (Go's integer conversion: exact or wrapping), not through a float64: values beyond
// 2^53 and beyond the range of the narrower targets are the cases that tell the two apart
// (ConvertConstScalar and the type-generic constructors take a float64 by design and are not asserted here)

func TestC02_wide_integer_conversions(t *testing.T) {
	special := []int64{1<<53 + 1, -(1<<53 + 1), math.MaxInt64, math.MinInt64, math.MaxInt64 - 1, 1<<31 + 5, -(1<<31 + 3), 1<<32 + 5, 1<<15 + 1, 1<<7 + 2, 1<<62 + 3, 255, 256, 65535, 65536, -129}
	rapid.Check(t, func(t *rapid.T) {
		var v int64
		if rapid.Bool().Draw(t, "special") {
			v = special[rapid.IntRange(0, len(special)-1).Draw(t, "which")]
		} else {
			v = rapid.Int64().Draw(t, "v")
		}
		srcInt := rapid.Bool().Draw(t, "source is Int")
		dst := gen.DrawType(t, "dst", gen.MutableTypes)
		var src Scalar
		name := "Int64"
		if srcInt {
			src, name = NewInt(int(v)), "Int"
		} else {
			src = NewInt64(v)
		}
		c := obs.Begin("wide_integer_conversions", "%s(%d).ConvertScalar(%s)", name, v, dst)
		c.Classf("dst=%s", dst)
		if v > 1<<53 || v < -(1<<53) {
			c.Class("beyond 2^53")
		}
		c.NT(true)
		var r Scalar
		if p := call(func() { r = src.ConvertScalar(dst.T) }); p != "" {
			t.Fatalf("%s panicked: %s", c.Desc(), p)
		}
		if r == nil || fmt.Sprint(r.Type()) != fmt.Sprint(dst.T) {
			t.Fatalf("%s: result %v", c.Desc(), r)
		}
		if dst.IsInt() {
			var want int64
			switch dst.Bits {
			case 8:
				want = int64(int8(v))
			case 16:
				want = int64(int16(v))
			case 32:
				want = int64(int32(v))
			default:
				want = v
			}
			if got := r.GetInt64(); got != want {
				t.Fatalf("%s: the result holds %d, Go's integer conversion gives %d", c.Desc(), got, want)
			}
		} else {
			want := float64(v)
			if dst.Bits == 32 {
				want = float64(float32(v))
			}
			if got := r.GetFloat64(); got != want {
				t.Fatalf("%s: the result holds %v, Go's conversion gives %v", c.Desc(), got, want)
			}
		}
		c.End()
	})
}
