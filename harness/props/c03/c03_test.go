// C03 — vector and matrix results do not depend on dense or sparse storage.
//
// Model-based: the expected receiver is computed element by element with the element type's own
// scalar operations (trusted base: C01/C02) on plain Go slices; the library's receiver must equal
// it for every storage combination, every prior receiver content and every zero pattern.
package c03

import (
	"fmt"
	"os"
	"sort"
	"strings"
	"testing"

	. "github.com/pbenner/autodiff"
	"pgregory.net/rapid"
	"verifharness/gen"
	"verifharness/model"
	"verifharness/obs"
)

func TestMain(m *testing.M) {
	code := m.Run()
	obs.Flush()
	os.Exit(code)
}

func call(f func()) (perr string) {
	defer func() {
		if r := recover(); r != nil {
			perr = fmt.Sprint(r)
		}
	}()
	f()
	return ""
}

var priors = []string{"empty", "zeros", "unrelated", "unrelated-sparse-pattern"}

// drawPrior draws the receiver's content before the call.
func drawPriorVec(t *rapid.T, st gen.SType, sparse bool, n int, dm gen.DerivMode) (gen.VecCase, string) {
	p := priors[rapid.IntRange(0, len(priors)-1).Draw(t, "prior")]
	c := gen.VecCase{T: st, Sparse: sparse, E: make([]gen.Elem, n), Pattern: p}
	switch p {
	case "zeros":
		for i := range c.E {
			c.E[i].Stored = true // explicitly stored zeros in sparse receivers
		}
	case "unrelated":
		c = gen.DrawVec(t, "r", st, sparse, n, dm, true)
	case "unrelated-sparse-pattern":
		c = gen.DrawVec(t, "r", st, sparse, n, dm, false)
	}
	return c, p
}

func drawPriorMat(t *rapid.T, st gen.SType, sparse bool, rows, cols int, dm gen.DerivMode) (gen.MatCase, string) {
	v, p := drawPriorVec(t, st, sparse, rows*cols, dm)
	return gen.MatCase{T: st, Sparse: sparse, Rows: rows, Cols: cols, E: v.E, Pattern: v.Pattern}, p
}

func sp(b bool) string {
	if b {
		return "S"
	}
	return "D"
}

// classes common to all aspects
func classify(c *obs.Case, op string, st gen.SType, rs bool, ops []bool, prior string, anySparse, zeroMeetsNonzero bool) {
	combo := sp(rs)
	for _, o := range ops {
		combo += sp(o)
	}
	c.Classf("op=%s", op)
	c.Classf("op=%s/storage=%s", op, combo)
	c.Classf("elem=%s", st)
	c.Classf("prior=%s", prior)
	c.NT(anySparse && zeroMeetsNonzero)
}

// zeroMeetsNonzero: some position where one of the participants is zero and another non-zero.
func zeroMeets(n int, parts ...[]gen.Elem) bool {
	for i := 0; i < n; i++ {
		z, nz := false, false
		for _, p := range parts {
			if i < len(p) {
				if p[i].IsZero() {
					z = true
				} else {
					nz = true
				}
			}
		}
		if z && nz {
			return true
		}
	}
	return false
}

type vop struct {
	name   string
	scalar bool // second operand is a scalar
	div    bool
	apply  func(r Scalar, a, b ConstScalar)
	call   func(r Vector, a ConstVector, b ConstVector, s ConstScalar)
}

var vops = []vop{
	{"VaddV", false, false, func(r Scalar, a, b ConstScalar) { r.Add(a, b) }, func(r Vector, a, b ConstVector, s ConstScalar) { r.VaddV(a, b) }},
	{"VsubV", false, false, func(r Scalar, a, b ConstScalar) { r.Sub(a, b) }, func(r Vector, a, b ConstVector, s ConstScalar) { r.VsubV(a, b) }},
	{"VmulV", false, false, func(r Scalar, a, b ConstScalar) { r.Mul(a, b) }, func(r Vector, a, b ConstVector, s ConstScalar) { r.VmulV(a, b) }},
	{"VdivV", false, true, func(r Scalar, a, b ConstScalar) { r.Div(a, b) }, func(r Vector, a, b ConstVector, s ConstScalar) { r.VdivV(a, b) }},
	{"VaddS", true, false, func(r Scalar, a, b ConstScalar) { r.Add(a, b) }, func(r Vector, a, b ConstVector, s ConstScalar) { r.VaddS(a, s) }},
	{"VsubS", true, false, func(r Scalar, a, b ConstScalar) { r.Sub(a, b) }, func(r Vector, a, b ConstVector, s ConstScalar) { r.VsubS(a, s) }},
	{"VmulS", true, false, func(r Scalar, a, b ConstScalar) { r.Mul(a, b) }, func(r Vector, a, b ConstVector, s ConstScalar) { r.VmulS(a, s) }},
	{"VdivS", true, true, func(r Scalar, a, b ConstScalar) { r.Div(a, b) }, func(r Vector, a, b ConstVector, s ConstScalar) { r.VdivS(a, s) }},
}

func divisible(st gen.SType, a, b gen.Elem) bool { return true }

// exactDiv: for integer element types draw divisors that are ±1 so that division is exact in every path
func fixIntDiv(st gen.SType, e []gen.Elem) {
	if st.IsInt() {
		for i := range e {
			if e[i].V != 1 && e[i].V != -1 {
				e[i].V = 1
			}
		}
	}
}

func vectorAspect(t *rapid.T, aspect string, ops []vop) {
	op := ops[rapid.IntRange(0, len(ops)-1).Draw(t, "op")]
	st := gen.DrawElemType(t, "elem")
	dm := gen.DrawDerivMode(t, "dm", st)
	n := gen.Dim(t, "n", 6)
	rs, as, bs := rapid.Bool().Draw(t, "rSparse"), rapid.Bool().Draw(t, "aSparse"), rapid.Bool().Draw(t, "bSparse")
	a := gen.DrawVec(t, "a", st, as, n, dm, false)
	var b gen.VecCase
	var sElem gen.Elem
	if op.scalar {
		// scalar operand: non-zero for division; may carry derivatives
		sv := gen.DrawVec(t, "s", st, false, 1, dm, op.div || rapid.IntRange(0, 3).Draw(t, "sNonZero") > 0)
		if op.div {
			fixIntDiv(st, sv.E)
		}
		sElem = sv.E[0]
		bs = false
	} else {
		b = gen.DrawVec(t, "b", st, bs, n, dm, op.div)
		if op.div {
			fixIntDiv(st, b.E)
		}
	}
	prior, pname := drawPriorVec(t, st, rs, n, dm)
	var c *obs.Case
	if op.scalar {
		c = obs.Begin(aspect, "%s r=%s a=%s s=%s", op.name, prior, a, sElem)
	} else {
		c = obs.Begin(aspect, "%s r=%s a=%s b=%s", op.name, prior, a, b)
	}
	// expected
	want := make([]Scalar, n)
	am := a.Model()
	var bm []Scalar
	if !op.scalar {
		bm = b.Model()
	}
	sc := sElem.Scalar(st)
	pm := prior.Model()
	for i := 0; i < n; i++ {
		want[i] = pm[i]
		if op.scalar {
			op.apply(want[i], am[i], sc)
		} else {
			op.apply(want[i], am[i], bm[i])
		}
	}
	// run
	r, av := prior.Build(), a.Build()
	var bv Vector
	if !op.scalar {
		bv = b.Build()
	}
	perr := call(func() { op.call(r, av, bv, sc) })
	parts := [][]gen.Elem{prior.E, a.E}
	if !op.scalar {
		parts = append(parts, b.E)
	}
	storages := []bool{as}
	if !op.scalar {
		storages = append(storages, bs)
	}
	classify(c, op.name, st, rs, storages, pname, rs || as || (bs && !op.scalar), zeroMeets(n, parts...))
	if n <= 1 {
		c.Classf("n=%d", n)
	}
	if !as && a.LeadingZero() || (!op.scalar && !bs && b.LeadingZero()) {
		c.Class("leading zero in a dense operand")
	}
	if a.HasStoredZero() || (!op.scalar && b.HasStoredZero()) {
		c.Class("stored zero in a sparse operand")
	}
	wantState := model.ObsScalars(want)
	absentNZ, presentZ := false, false
	if rs {
		for i := 0; i < n; i++ {
			if !prior.E[i].Stored && !wantState.E[i].IsZeroState() {
				absentNZ = true
			}
			if prior.E[i].Stored && wantState.E[i].IsZeroState() {
				presentZ = true
			}
		}
		if absentNZ {
			c.Class("receiver entry absent where result non-zero")
		}
		if presentZ {
			c.Class("receiver entry present where result zero")
		}
	}
	if perr != "" {
		t.Fatalf("%s: panicked: %s", c.Desc(), perr)
	}
	got, bad := model.ObsVector(r)
	if bad != "" {
		t.Fatalf("%s: %s", c.Desc(), bad)
	}
	if d := got.Diff(wantState, relTol(st, op.div)); d != "" {
		if knownVector(c, op.name, st, rs, as, bs, prior, a, b, got, wantState) {
			c.End()
			return
		}
		t.Fatalf("%s: receiver differs from the dense model: %s\n got  %v\n want %v", c.Desc(), d, got, wantState)
	}
	// operands unchanged is C12's; here only the result
	c.End()
}

func relTol(st gen.SType, div bool) float64 {
	if div && !st.IsInt() {
		return 4 * st.Eps()
	}
	return 0
}

// knownVector: narrow signatures of open findings in the vector aspects (none listed open ⇒ false).
func knownVector(c *obs.Case, op string, st gen.SType, rs, as, bs bool, prior, a, b gen.VecCase, got, want model.VState) bool {
	return false
}

func TestC03_vector_elementwise(t *testing.T) {
	rapid.Check(t, func(t *rapid.T) { vectorAspect(t, "vector_elementwise", vops[:4]) })
}

func TestC03_vector_scalar_broadcast(t *testing.T) {
	rapid.Check(t, func(t *rapid.T) { vectorAspect(t, "vector_scalar_broadcast", vops[4:]) })
}

// ---------------------------------------------------------------------------------------------
// dot products: VdotV (scalar receiver), MdotV, VdotM

func dot(st gen.SType, xs, ys []Scalar) Scalar {
	r := st.NewMut(0)
	tmp := st.NewMut(0)
	for i := range xs {
		tmp.Mul(xs[i], ys[i])
		r.Add(r, tmp)
	}
	return r
}

func TestC03_dot_products(t *testing.T) {
	rapid.Check(t, func(t *rapid.T) {
		which := rapid.IntRange(0, 2).Draw(t, "op")
		name := []string{"VdotV", "MdotV", "VdotM"}[which]
		st := gen.DrawElemType(t, "elem")
		dm := gen.DrawDerivMode(t, "dm", st)
		rs, as, bs := rapid.Bool().Draw(t, "rSparse"), rapid.Bool().Draw(t, "aSparse"), rapid.Bool().Draw(t, "bSparse")
		switch which {
		case 0:
			n := gen.Dim(t, "n", 6)
			a := gen.DrawVec(t, "a", st, as, n, dm, false)
			b := gen.DrawVec(t, "b", st, bs, n, dm, false)
			c := obs.Begin("dot_products", "VdotV a=%s b=%s", a, b)
			want := dot(st, a.Model(), b.Model())
			r := st.NewMut(7)
			perr := call(func() { r.VdotV(a.Build(), b.Build()) })
			classify(c, name, st, false, []bool{as, bs}, "scalar", as || bs, zeroMeets(n, a.E, b.E))
			if perr != "" {
				t.Fatalf("%s: panicked: %s", c.Desc(), perr)
			}
			if d := model.ObsScalar(r).Diff(model.ObsScalar(want), 16*st.Eps(), false); d != "" {
				t.Fatalf("%s: result differs from the model: %s (got %v want %v)", c.Desc(), d, model.ObsScalar(r), model.ObsScalar(want))
			}
			c.End()
		default:
			rows, cols := gen.Dim(t, "rows", 4), gen.Dim(t, "cols", 4)
			m := gen.DrawMat(t, "m", st, as, rows, cols, dm, false)
			vn, rn := cols, rows
			if which == 2 {
				vn, rn = rows, cols
			}
			v := gen.DrawVec(t, "v", st, bs, vn, dm, false)
			prior, pname := drawPriorVec(t, st, rs, rn, dm)
			c := obs.Begin("dot_products", "%s r=%s m=%s v=%s", name, prior, m, v)
			mm, vm := m.Model(), v.Model()
			want := make([]Scalar, rn)
			for i := 0; i < rn; i++ {
				xs := make([]Scalar, vn)
				for k := 0; k < vn; k++ {
					if which == 1 {
						xs[k] = mm[i][k]
					} else {
						xs[k] = mm[k][i]
					}
				}
				if which == 1 {
					want[i] = dot(st, xs, vm)
				} else {
					want[i] = dot(st, vm, xs)
				}
			}
			r, mv, vv := prior.Build(), m.Build(), v.Build()
			var perr string
			if which == 1 {
				perr = call(func() { r.MdotV(mv, vv) })
			} else {
				perr = call(func() { r.VdotM(vv, mv) })
			}
			classify(c, name, st, rs, []bool{as, bs}, pname, rs || as || bs, m.HasZero() || v.HasZero())
			if rows != cols {
				c.Class("rectangular")
			}
			if rows == 0 || cols == 0 {
				c.Class("zero dimension")
			}
			if perr != "" {
				if which == 2 && rs && rows > cols && c.Known("C03/sparse-vdotm-reset-bound") {
					c.End()
					return
				}
				t.Fatalf("%s: panicked: %s", c.Desc(), perr)
			}
			got, bad := model.ObsVector(r)
			if bad != "" {
				t.Fatalf("%s: %s", c.Desc(), bad)
			}
			ws := model.ObsScalars(want)
			if d := got.Diff(ws, 16*st.Eps()); d != "" {
				if which == 2 && rs && rows != cols && c.Known("C03/sparse-vdotm-reset-bound") {
					c.End()
					return
				}
				t.Fatalf("%s: receiver differs from the dense model: %s\n got  %v\n want %v", c.Desc(), d, got, ws)
			}
			c.End()
		}
	})
}

// ---------------------------------------------------------------------------------------------
// matrices

type mop struct {
	name   string
	scalar bool
	div    bool
	apply  func(r Scalar, a, b ConstScalar)
	call   func(r Matrix, a, b ConstMatrix, s ConstScalar)
}

var mops = []mop{
	{"MaddM", false, false, func(r Scalar, a, b ConstScalar) { r.Add(a, b) }, func(r Matrix, a, b ConstMatrix, s ConstScalar) { r.MaddM(a, b) }},
	{"MsubM", false, false, func(r Scalar, a, b ConstScalar) { r.Sub(a, b) }, func(r Matrix, a, b ConstMatrix, s ConstScalar) { r.MsubM(a, b) }},
	{"MmulM", false, false, func(r Scalar, a, b ConstScalar) { r.Mul(a, b) }, func(r Matrix, a, b ConstMatrix, s ConstScalar) { r.MmulM(a, b) }},
	{"MdivM", false, true, func(r Scalar, a, b ConstScalar) { r.Div(a, b) }, func(r Matrix, a, b ConstMatrix, s ConstScalar) { r.MdivM(a, b) }},
	{"MaddS", true, false, func(r Scalar, a, b ConstScalar) { r.Add(a, b) }, func(r Matrix, a, b ConstMatrix, s ConstScalar) { r.MaddS(a, s) }},
	{"MsubS", true, false, func(r Scalar, a, b ConstScalar) { r.Sub(a, b) }, func(r Matrix, a, b ConstMatrix, s ConstScalar) { r.MsubS(a, s) }},
	{"MmulS", true, false, func(r Scalar, a, b ConstScalar) { r.Mul(a, b) }, func(r Matrix, a, b ConstMatrix, s ConstScalar) { r.MmulS(a, s) }},
	{"MdivS", true, true, func(r Scalar, a, b ConstScalar) { r.Div(a, b) }, func(r Matrix, a, b ConstMatrix, s ConstScalar) { r.MdivS(a, s) }},
}

func TestC03_matrix_elementwise(t *testing.T) {
	rapid.Check(t, func(t *rapid.T) {
		op := mops[rapid.IntRange(0, len(mops)-1).Draw(t, "op")]
		st := gen.DrawElemType(t, "elem")
		dm := gen.DrawDerivMode(t, "dm", st)
		rows, cols := gen.Dim(t, "rows", 4), gen.Dim(t, "cols", 4)
		rs, as, bs := rapid.Bool().Draw(t, "rSparse"), rapid.Bool().Draw(t, "aSparse"), rapid.Bool().Draw(t, "bSparse")
		a := gen.DrawMat(t, "a", st, as, rows, cols, dm, false)
		var b gen.MatCase
		var sElem gen.Elem
		if op.scalar {
			sv := gen.DrawVec(t, "s", st, false, 1, dm, op.div || rapid.IntRange(0, 3).Draw(t, "sNonZero") > 0)
			if op.div {
				fixIntDiv(st, sv.E)
			}
			sElem = sv.E[0]
			bs = false
		} else {
			b = gen.DrawMat(t, "b", st, bs, rows, cols, dm, op.div)
			if op.div {
				fixIntDiv(st, b.E)
			}
		}
		prior, pname := drawPriorMat(t, st, rs, rows, cols, dm)
		var c *obs.Case
		if op.scalar {
			c = obs.Begin("matrix_elementwise", "%s r=%s a=%s s=%s", op.name, prior, a, sElem)
		} else {
			c = obs.Begin("matrix_elementwise", "%s r=%s a=%s b=%s", op.name, prior, a, b)
		}
		want := prior.Model()
		am := a.Model()
		var bm [][]Scalar
		if !op.scalar {
			bm = b.Model()
		}
		sc := sElem.Scalar(st)
		for i := 0; i < rows; i++ {
			for j := 0; j < cols; j++ {
				if op.scalar {
					op.apply(want[i][j], am[i][j], sc)
				} else {
					op.apply(want[i][j], am[i][j], bm[i][j])
				}
			}
		}
		r, av := prior.Build(), a.Build()
		var bv Matrix
		if !op.scalar {
			bv = b.Build()
		}
		perr := call(func() { op.call(r, av, bv, sc) })
		parts := [][]gen.Elem{prior.E, a.E}
		storages := []bool{as}
		if !op.scalar {
			parts = append(parts, b.E)
			storages = append(storages, bs)
		}
		classify(c, op.name, st, rs, storages, pname, rs || as || (bs && !op.scalar), zeroMeets(rows*cols, parts...))
		if rows != cols {
			c.Class("rectangular")
		}
		if rows == 0 || cols == 0 {
			c.Class("zero dimension")
		}
		if perr != "" {
			t.Fatalf("%s: panicked: %s", c.Desc(), perr)
		}
		got, bad := model.ObsMatrix(r)
		if bad != "" {
			t.Fatalf("%s: %s", c.Desc(), bad)
		}
		ws := model.ObsScalarGrid(want, rows, cols)
		if d := got.Diff(ws, relTol(st, op.div)); d != "" {
			t.Fatalf("%s: receiver differs from the dense model: %s\n got  %v\n want %v", c.Desc(), d, got, ws)
		}
		c.End()
	})
}

func TestC03_matrix_products(t *testing.T) {
	rapid.Check(t, func(t *rapid.T) {
		outer := rapid.IntRange(0, 2).Draw(t, "outer") == 0
		st := gen.DrawElemType(t, "elem")
		dm := gen.DrawDerivMode(t, "dm", st)
		n, k, m := gen.Dim(t, "n", 4), gen.Dim(t, "k", 4), gen.Dim(t, "m", 4)
		rs, as, bs := rapid.Bool().Draw(t, "rSparse"), rapid.Bool().Draw(t, "aSparse"), rapid.Bool().Draw(t, "bSparse")
		prior, pname := drawPriorMat(t, st, rs, n, m, dm)
		want := make([][]Scalar, n)
		var c *obs.Case
		var perr string
		r := prior.Build()
		name := "MdotM"
		var hasZero bool
		if outer {
			name = "Outer"
			a := gen.DrawVec(t, "a", st, as, n, dm, false)
			b := gen.DrawVec(t, "b", st, bs, m, dm, false)
			c = obs.Begin("matrix_products", "Outer r=%s a=%s b=%s", prior, a, b)
			am, bm := a.Model(), b.Model()
			for i := range want {
				want[i] = make([]Scalar, m)
				for j := range want[i] {
					want[i][j] = st.NewMut(0)
					want[i][j].Mul(am[i], bm[j])
				}
			}
			av, bv := a.Build(), b.Build()
			perr = call(func() { r.Outer(av, bv) })
			hasZero = a.HasZero() || b.HasZero()
		} else {
			a := gen.DrawMat(t, "a", st, as, n, k, dm, false)
			b := gen.DrawMat(t, "b", st, bs, k, m, dm, false)
			c = obs.Begin("matrix_products", "MdotM r=%s a=%s b=%s", prior, a, b)
			am, bm := a.Model(), b.Model()
			for i := range want {
				want[i] = make([]Scalar, m)
				for j := range want[i] {
					xs, ys := make([]Scalar, k), make([]Scalar, k)
					for l := 0; l < k; l++ {
						xs[l], ys[l] = am[i][l], bm[l][j]
					}
					want[i][j] = dot(st, xs, ys)
				}
			}
			av, bv := a.Build(), b.Build()
			perr = call(func() { r.MdotM(av, bv) })
			hasZero = a.HasZero() || b.HasZero()
		}
		classify(c, name, st, rs, []bool{as, bs}, pname, rs || as || bs, hasZero)
		if n != m || (!outer && k != n) {
			c.Class("rectangular")
		}
		if n == 0 || m == 0 || (!outer && k == 0) {
			c.Class("zero dimension")
		}
		if perr != "" {
			t.Fatalf("%s: panicked: %s", c.Desc(), perr)
		}
		got, bad := model.ObsMatrix(r)
		if bad != "" {
			t.Fatalf("%s: %s", c.Desc(), bad)
		}
		ws := model.ObsScalarGrid(want, n, m)
		if d := got.Diff(ws, 16*st.Eps()); d != "" {
			t.Fatalf("%s: receiver differs from the dense model: %s\n got  %v\n want %v", c.Desc(), d, got, ws)
		}
		c.End()
	})
}

// ---------------------------------------------------------------------------------------------
// Set / Equals / SetIdentity / Reset

func TestC03_set_equals_identity_reset(t *testing.T) {
	ops := []string{"vSet", "vEquals", "vReset", "mSet", "mEquals", "mSetIdentity", "mReset"}
	rapid.Check(t, func(t *rapid.T) {
		op := ops[rapid.IntRange(0, len(ops)-1).Draw(t, "op")]
		st := gen.DrawElemType(t, "elem")
		dm := gen.DrawDerivMode(t, "dm", st)
		rs, as := rapid.Bool().Draw(t, "rSparse"), rapid.Bool().Draw(t, "aSparse")
		if op[0] == 'v' {
			n := gen.Dim(t, "n", 6)
			prior, pname := drawPriorVec(t, st, rs, n, dm)
			a := gen.DrawVec(t, "a", st, as, n, dm, false)
			if op == "vEquals" && rapid.Bool().Draw(t, "same") {
				// equal content in the other representation (stored/absent zeros re-drawn)
				a = gen.VecCase{T: st, Sparse: as, E: append([]gen.Elem{}, prior.E...)}
				for i := range a.E {
					if a.E[i].IsZero() {
						a.E[i].Stored = rapid.Bool().Draw(t, "restore")
					}
				}
			}
			c := obs.Begin("set_equals_identity_reset", "%s r=%s a=%s", op, prior, a)
			classify(c, op, st, rs, []bool{as}, pname, rs || as, zeroMeets(n, prior.E, a.E) || prior.HasZero() || a.HasZero())
			r, av := prior.Build(), a.Build()
			switch op {
			case "vSet":
				if p := call(func() { r.Set(av) }); p != "" {
					t.Fatalf("%s: panicked: %s", c.Desc(), p)
				}
				got, bad := model.ObsVector(r)
				ws := model.ObsScalars(a.Model())
				if bad != "" {
					t.Fatalf("%s: %s", c.Desc(), bad)
				}
				if d := got.Diff(ws, 0); d != "" {
					t.Fatalf("%s: after Set the receiver differs from the source: %s\n got  %v\n want %v", c.Desc(), d, got, ws)
				}
			case "vReset":
				if p := call(func() { r.Reset() }); p != "" {
					t.Fatalf("%s: panicked: %s", c.Desc(), p)
				}
				got, _ := model.ObsVector(r)
				for i, e := range got.E {
					if !e.IsZeroState() {
						t.Fatalf("%s: after Reset element %d is %v", c.Desc(), i, e)
					}
				}
			case "vEquals":
				eq := true
				pm, am := prior.Model(), a.Model()
				for i := range pm {
					if pm[i].GetFloat64() != am[i].GetFloat64() {
						eq = false
					}
				}
				c.Classf("expected equal=%v", eq)
				var got bool
				if p := call(func() { got = r.Equals(av, 1e-12) }); p != "" {
					t.Fatalf("%s: panicked: %s", c.Desc(), p)
				}
				if got != eq {
					t.Fatalf("%s: Equals=%v, the element-wise model says %v", c.Desc(), got, eq)
				}
			}
			c.End()
			return
		}
		rows, cols := gen.Dim(t, "rows", 4), gen.Dim(t, "cols", 4)
		prior, pname := drawPriorMat(t, st, rs, rows, cols, dm)
		a := gen.DrawMat(t, "a", st, as, rows, cols, dm, false)
		if op == "mEquals" && rapid.Bool().Draw(t, "same") {
			a = gen.MatCase{T: st, Sparse: as, Rows: rows, Cols: cols, E: append([]gen.Elem{}, prior.E...)}
			for i := range a.E {
				if a.E[i].IsZero() {
					a.E[i].Stored = rapid.Bool().Draw(t, "restore")
				}
			}
		}
		c := obs.Begin("set_equals_identity_reset", "%s r=%s a=%s", op, prior, a)
		classify(c, op, st, rs, []bool{as}, pname, rs || as, prior.HasZero() || a.HasZero())
		r, av := prior.Build(), a.Build()
		switch op {
		case "mSet":
			if p := call(func() { r.Set(av) }); p != "" {
				t.Fatalf("%s: panicked: %s", c.Desc(), p)
			}
			got, bad := model.ObsMatrix(r)
			ws := model.ObsScalarGrid(a.Model(), rows, cols)
			if bad != "" {
				t.Fatalf("%s: %s", c.Desc(), bad)
			}
			if d := got.Diff(ws, 0); d != "" {
				t.Fatalf("%s: after Set the receiver differs from the source: %s\n got  %v\n want %v", c.Desc(), d, got, ws)
			}
		case "mReset", "mSetIdentity":
			var p string
			if op == "mReset" {
				p = call(func() { r.Reset() })
			} else {
				p = call(func() { r.SetIdentity() })
			}
			if p != "" {
				t.Fatalf("%s: panicked: %s", c.Desc(), p)
			}
			got, _ := model.ObsMatrix(r)
			for i := range got.E {
				for j, e := range got.E[i] {
					w := 0.0
					if op == "mSetIdentity" && i == j {
						w = 1
					}
					if e.Val != w || !e.NoDerivatives() {
						t.Fatalf("%s: element (%d,%d) is %v, expected %v with zero derivatives", c.Desc(), i, j, e, w)
					}
				}
			}
		case "mEquals":
			eq := true
			pm, am := prior.Model(), a.Model()
			for i := range pm {
				for j := range pm[i] {
					if pm[i][j].GetFloat64() != am[i][j].GetFloat64() {
						eq = false
					}
				}
			}
			c.Classf("expected equal=%v", eq)
			var got bool
			if p := call(func() { got = r.Equals(av, 1e-12) }); p != "" {
				t.Fatalf("%s: panicked: %s", c.Desc(), p)
			}
			if got != eq {
				t.Fatalf("%s: Equals=%v, the element-wise model says %v", c.Desc(), got, eq)
			}
		}
		c.End()
	})
}

// ---------------------------------------------------------------------------------------------
// conversions preserve every element

func TestC03_conversions(t *testing.T) {
	ops := []string{"AsDenseVector", "AsSparseVector", "AsDenseMatrix", "AsSparseMatrix", "AsMatrix", "AsVector", "NewSparseVector(indices,values)"}
	rapid.Check(t, func(t *rapid.T) {
		op := ops[rapid.IntRange(0, len(ops)-1).Draw(t, "op")]
		st := gen.DrawElemType(t, "elem")
		dst := st
		if rapid.IntRange(0, 2).Draw(t, "retype") == 0 {
			// element type conversion between float-class types keeps values (dyadic) and, between Real types, derivatives
			if st.IsReal() {
				dst = gen.DrawType(t, "dst", gen.RealTypes)
			} else if !st.IsInt() {
				dst = gen.DrawType(t, "dst", gen.FloatClass[:1])
			}
		}
		dm := gen.DrawDerivMode(t, "dm", st)
		as := rapid.Bool().Draw(t, "aSparse")
		switch op {
		case "AsDenseVector", "AsSparseVector", "AsMatrix":
			n := gen.Dim(t, "n", 6)
			rows, cols := 1, n
			if op == "AsMatrix" {
				rows, cols = gen.Dim(t, "rows", 3), gen.Dim(t, "cols", 3)
				n = rows * cols
			}
			a := gen.DrawVec(t, "a", st, as, n, dm, false)
			c := obs.Begin("conversions", "%s(%s) a=%s", op, dst, a)
			classify(c, op, st, op == "AsSparseVector", []bool{as}, "new", true, a.HasZero())
			av := a.Build()
			ws := model.ObsScalars(a.Model())
			switch op {
			case "AsDenseVector", "AsSparseVector":
				var r Vector
				p := call(func() {
					if op == "AsDenseVector" {
						r = AsDenseVector(dst.T, av)
					} else {
						r = AsSparseVector(dst.T, av)
					}
				})
				if p != "" {
					t.Fatalf("%s: panicked: %s", c.Desc(), p)
				}
				got, bad := model.ObsVector(r)
				if bad != "" {
					t.Fatalf("%s: %s", c.Desc(), bad)
				}
				if d := got.Diff(ws, 0); d != "" {
					t.Fatalf("%s: converted vector differs: %s\n got  %v\n want %v", c.Desc(), d, got, ws)
				}
				if fmt.Sprint(r.ElementType()) != fmt.Sprint(dst.T) {
					t.Fatalf("%s: element type %v, requested %v", c.Desc(), r.ElementType(), dst.T)
				}
			case "AsMatrix":
				var r Matrix
				if p := call(func() { r = av.AsMatrix(rows, cols) }); p != "" {
					t.Fatalf("%s: panicked: %s", c.Desc(), p)
				}
				got, bad := model.ObsMatrix(r)
				if bad != "" {
					t.Fatalf("%s: %s", c.Desc(), bad)
				}
				if got.Rows != rows || got.Cols != cols {
					t.Fatalf("%s: AsMatrix dims %dx%d", c.Desc(), got.Rows, got.Cols)
				}
				for i := 0; i < rows; i++ {
					for j := 0; j < cols; j++ {
						if d := got.E[i][j].Diff(ws.E[i*cols+j], 0, false); d != "" {
							t.Fatalf("%s: AsMatrix element (%d,%d): %s", c.Desc(), i, j, d)
						}
					}
				}
			}
			c.End()
		case "AsDenseMatrix", "AsSparseMatrix", "AsVector":
			rows, cols := gen.Dim(t, "rows", 4), gen.Dim(t, "cols", 4)
			a := gen.DrawMat(t, "a", st, as, rows, cols, dm, false)
			c := obs.Begin("conversions", "%s(%s) a=%s", op, dst, a)
			classify(c, op, st, op == "AsSparseMatrix", []bool{as}, "new", true, a.HasZero())
			av := a.Build()
			ws := model.ObsScalarGrid(a.Model(), rows, cols)
			if op == "AsVector" {
				var r Vector
				if p := call(func() { r = av.AsVector() }); p != "" {
					t.Fatalf("%s: panicked: %s", c.Desc(), p)
				}
				// order unspecified: multiset of values
				if r.Dim() != rows*cols {
					t.Fatalf("%s: AsVector length %d", c.Desc(), r.Dim())
				}
				cnt := map[string]int{}
				for i := 0; i < rows; i++ {
					for j := 0; j < cols; j++ {
						cnt[fmt.Sprint(ws.E[i][j].Val, ws.E[i][j].Grad)]++
					}
				}
				gv, _ := model.ObsVector(r)
				for _, e := range gv.E {
					cnt[fmt.Sprint(e.Val, e.Grad)]--
				}
				for k, v := range cnt {
					if v != 0 && !strings.HasPrefix(k, "0 ") {
						t.Fatalf("%s: AsVector multiset differs at %s (%+d)", c.Desc(), k, v)
					}
				}
				c.End()
				return
			}
			var r Matrix
			p := call(func() {
				if op == "AsDenseMatrix" {
					r = AsDenseMatrix(dst.T, av)
				} else {
					r = AsSparseMatrix(dst.T, av)
				}
			})
			if p != "" {
				t.Fatalf("%s: panicked: %s", c.Desc(), p)
			}
			got, bad := model.ObsMatrix(r)
			if bad != "" {
				t.Fatalf("%s: %s", c.Desc(), bad)
			}
			if d := got.Diff(ws, 0); d != "" {
				t.Fatalf("%s: converted matrix differs: %s\n got  %v\n want %v", c.Desc(), d, got, ws)
			}
			c.End()
		default:
			// index/value constructor with unsorted indices and explicit zero values
			n := rapid.IntRange(0, 8).Draw(t, "n")
			idx := rapid.SliceOfNDistinct(rapid.IntRange(0, n+1), 0, n, func(i int) int { return i }).Draw(t, "idx")
			var indices []int
			var values []float64
			want := make([]float64, n+2)
			for _, k := range idx {
				v := float64(rapid.IntRange(-3, 3).Draw(t, "v"))
				indices = append(indices, k)
				values = append(values, v)
				want[k] = v
			}
			c := obs.Begin("conversions", "NewSparseFloat64Vector(%v,%v,%d)", indices, values, n+2)
			classify(c, op, gen.TFloat64, true, nil, "new", true, true)
			var r Vector
			if p := call(func() { r = NewSparseFloat64Vector(indices, values, n+2) }); p != "" {
				t.Fatalf("%s: panicked: %s", c.Desc(), p)
			}
			for i, w := range want {
				if r.Float64At(i) != w || r.ConstAt(i).GetFloat64() != w {
					t.Fatalf("%s: element %d is %v, expected %v", c.Desc(), i, r.Float64At(i), w)
				}
			}
			// iteration visits exactly the non-zero positions ascending
			last := -1
			cntNZ := 0
			for it := r.ConstIterator(); it.Ok(); it.Next() {
				i := it.Index()
				if i <= last || want[i] == 0 {
					t.Fatalf("%s: iterator visits %d (last %d, value %v)", c.Desc(), i, last, want[i])
				}
				last = i
				cntNZ++
			}
			nz := 0
			for _, w := range want {
				if w != 0 {
					nz++
				}
			}
			if cntNZ != nz {
				t.Fatalf("%s: iterator visited %d entries, %d non-zero", c.Desc(), cntNZ, nz)
			}
			c.End()
		}
	})
}

// ---------------------------------------------------------------------------------------------
// witnesses of recorded findings (plain regression checks, no random source)

func vals(v ConstVector) []float64 {
	r := make([]float64, v.Dim())
	for i := range r {
		r[i] = v.Float64At(i)
	}
	return r
}

func TestKF_joint_iterator_stops_at_zero(t *testing.T) {
	s := NullSparseFloat64Vector(3)
	s.VaddV(s, NewDenseFloat64Vector([]float64{0, 5, 7}))
	got := vals(s)
	obs.KFStatus("C03/joint-iterator-stops-at-zero", fmt.Sprint(got) != "[0 5 7]", fmt.Sprintf("empty sparse s.VaddV(s, dense{0,5,7}) = %v", got))
}

func TestKF_sparse_vmul_skips_absent_receiver(t *testing.T) {
	r := NullSparseFloat64Vector(1)
	a := NewDenseFloat64Vector([]float64{0.5})
	r.VmulV(a, a)
	obs.KFStatus("C03/sparse-vmul-skips-absent-receiver", r.Float64At(0) != 0.25, fmt.Sprintf("empty sparse r.VmulV({.5},{.5}) = %v", vals(r)))
}

func TestKF_sparse_matrix_set_identity(t *testing.T) {
	r := NullSparseFloat64Matrix(1, 1)
	r.Set(NewDenseFloat64Matrix([]float64{0.5}, 1, 1))
	i := NullSparseFloat64Matrix(2, 2)
	i.SetIdentity()
	obs.KFStatus("C03/sparse-matrix-set-identity", r.Float64At(0, 0) != 0.5 || i.Float64At(1, 1) != 1, fmt.Sprintf("Null.Set([[.5]])=%v Null.SetIdentity()[1][1]=%v", r.Float64At(0, 0), i.Float64At(1, 1)))
}

func TestKF_sparse_equals_absent_entry(t *testing.T) {
	r := NullSparseFloat64Vector(1)
	eq := r.Equals(NewDenseFloat64Vector([]float64{1e-13}), 1e-12)
	obs.KFStatus("C03/sparse-equals-absent-entry", !eq, fmt.Sprintf("sparse[_].Equals(dense[1e-13], 1e-12) = %v", eq))
}

func TestKF_sparse_real_div_zero_value_derivative(t *testing.T) {
	a := NullDenseReal64Vector(1)
	x := NewReal64(0)
	x.Alloc(2, 1)
	x.SetDerivative(1, 0.25)
	a.At(0).Set(x)
	b := NewDenseReal64Vector([]float64{0.5})
	r := NullSparseReal64Vector(1)
	r.VdivV(a, b)
	obs.KFStatus("C03/sparse-real-div-zero-value-derivative", r.ConstAt(0).GetDerivative(1) != 0.5, fmt.Sprintf("d/dx1 = %v, expected 0.5", r.ConstAt(0).GetDerivative(1)))
}

func TestKF_dot_empty_inner_dimension(t *testing.T) {
	r := NewDenseFloat64Vector([]float64{0.5})
	r.VdotM(NullDenseFloat64Vector(0), NullDenseFloat64Matrix(0, 1))
	obs.KFStatus("C03/dot-empty-inner-dimension", r.Float64At(0) != 0, fmt.Sprintf("r=%v", vals(r)))
}

func TestKF_sparse_vdotm_reset_bound(t *testing.T) {
	r := NullSparseFloat64Vector(1)
	p := call(func() {
		r.VdotM(NewDenseFloat64Vector([]float64{1, 1}), NewDenseFloat64Matrix([]float64{0.5, 0.5}, 2, 1))
	})
	obs.KFStatus("C03/sparse-vdotm-reset-bound", p != "" || r.Float64At(0) != 1, fmt.Sprintf("panic=%q r=%v", p, vals(r)))
}

func TestKF_empty_matrix_storage_location(t *testing.T) {
	p := call(func() { NullDenseFloat64Matrix(0, 0).MdotM(NullDenseFloat64Matrix(0, 0), NullDenseFloat64Matrix(0, 0)) })
	obs.KFStatus("C03/empty-matrix-storage-location", p != "", p)
}

func TestKF_sparse_mdotm_accumulates(t *testing.T) {
	r := NullSparseFloat64Matrix(1, 1)
	r.At(0, 0).SetFloat64(0.5)
	p := call(func() {
		r.MdotM(NewDenseFloat64Matrix([]float64{2}, 1, 1), NewDenseFloat64Matrix([]float64{3}, 1, 1))
	})
	obs.KFStatus("C03/sparse-mdotm-accumulates", p != "" || r.Float64At(0, 0) != 6, fmt.Sprintf("panic=%q r=%v", p, r.Float64At(0, 0)))
}

func TestKF_sparse_mdotm_zero_columns(t *testing.T) {
	p := call(func() {
		NullSparseFloat64Matrix(1, 0).MdotM(NewDenseFloat64Matrix([]float64{0.5}, 1, 1), NullSparseFloat64Matrix(1, 0))
	})
	obs.KFStatus("C03/sparse-mdotm-zero-columns", p != "", p)
}

// ---------------------------------------------------------------------------------------------
// aspect: vector_container_ops — reordering, mapping, reducing, appending and slicing give the same
// elements for dense and sparse storage (the model is a plain slice of scalars)

func TestC03_vector_container_ops(t *testing.T) {
	ops := []string{"Sort", "ReverseOrder", "Reduce", "Map", "MapSet", "AppendScalar", "AppendVector", "Slice", "Swap", "Permute"}
	rapid.Check(t, func(t *rapid.T) {
		op := ops[rapid.IntRange(0, len(ops)-1).Draw(t, "op")]
		st := gen.DrawElemType(t, "elem")
		dm := gen.DrawDerivMode(t, "dm", st)
		n := gen.Dim(t, "n", 7)
		as := rapid.Bool().Draw(t, "aSparse")
		a := gen.DrawVec(t, "a", st, as, n, dm, false)
		c := obs.Begin("vector_container_ops", "%s a=%s", op, a)
		classify(c, op, st, as, []bool{as}, "new", as, a.HasZero())
		if a.HasStoredZero() {
			c.Class("stored zero in a sparse operand")
		}
		am := a.Model()
		av := a.Build()
		var want []Scalar
		var got ConstVector = av
		valuesOnly := false
		var perr string
		switch op {
		case "Sort":
			rev := rapid.Bool().Draw(t, "reverse")
			want = append([]Scalar{}, am...)
			sort.SliceStable(want, func(i, j int) bool {
				if rev {
					return want[i].GetFloat64() > want[j].GetFloat64()
				}
				return want[i].GetFloat64() < want[j].GetFloat64()
			})
			// equal values may carry different derivatives: their order is not specified
			valuesOnly = true
			perr = call(func() { av.Sort(rev) })
		case "ReverseOrder":
			want = make([]Scalar, n)
			for i := range am {
				want[n-1-i] = am[i]
			}
			perr = call(func() { av.ReverseOrder() })
		case "Reduce":
			acc := st.NewMut(0)
			for i := range am {
				acc.Add(acc, am[i])
			}
			want = []Scalar{acc}
			var r Scalar
			perr = call(func() {
				r = av.Reduce(func(r Scalar, x ConstScalar) Scalar { r.Add(r, x); return r }, st.NewMut(0))
			})
			if perr == "" {
				v := NullDenseVector(st.T, 1)
				v.At(0).Set(r)
				got = v
			}
		case "Map", "MapSet":
			// f(0) = 0: absent entries of a sparse vector stay what they are
			want = make([]Scalar, n)
			for i := range am {
				want[i] = st.NewMut(0)
				want[i].Mul(am[i], ConstFloat64(2))
			}
			if op == "Map" {
				perr = call(func() { av.Map(func(x Scalar) { x.Mul(x, ConstFloat64(2)) }) })
			} else {
				perr = call(func() {
					av.MapSet(func(x ConstScalar) Scalar { r := st.NewMut(0); r.Mul(x, ConstFloat64(2)); return r })
				})
			}
		case "AppendScalar":
			k := rapid.IntRange(0, 3).Draw(t, "k")
			ext := gen.DrawVec(t, "x", st, false, k, dm, false)
			want = append(append([]Scalar{}, am...), ext.Model()...)
			var r Vector
			perr = call(func() { r = av.AppendScalar(ext.Model()...) })
			got = r
		case "AppendVector":
			k := gen.Dim(t, "k", 4)
			bs := rapid.Bool().Draw(t, "bSparse")
			b := gen.DrawVec(t, "b", st, bs, k, dm, false)
			c.Classf("appended=%s", sp(bs))
			want = append(append([]Scalar{}, am...), b.Model()...)
			var r Vector
			bv := b.Build()
			perr = call(func() { r = av.AppendVector(bv) })
			got = r
		case "Slice":
			i := rapid.IntRange(0, n).Draw(t, "i")
			j := rapid.IntRange(i, n).Draw(t, "j")
			want = append([]Scalar{}, am[i:j]...)
			var r Vector
			perr = call(func() { r = av.Slice(i, j) })
			got = r
		case "Swap":
			if n == 0 {
				c.End()
				return
			}
			i := rapid.IntRange(0, n-1).Draw(t, "i")
			j := rapid.IntRange(0, n-1).Draw(t, "j")
			want = append([]Scalar{}, am...)
			want[i], want[j] = want[j], want[i]
			perr = call(func() { av.Swap(i, j) })
		case "Permute":
			pi := rapid.Permutation(seqInts(n)).Draw(t, "pi")
			// the semantics fixed by the dense implementation: for increasing i, positions i and pi[i] are
			// exchanged if pi[i] > i (a sequence of interchanges, as pivot vectors are applied)
			want = append([]Scalar{}, am...)
			for i := 0; i < n; i++ {
				if pi[i] > i {
					want[i], want[pi[i]] = want[pi[i]], want[i]
				}
			}
			var perr2 error
			perr = call(func() { perr2 = av.Permute(pi) })
			if perr == "" && perr2 != nil {
				t.Fatalf("%s: Permute(%v) returned %v", c.Desc(), pi, perr2)
			}
		}
		if perr != "" {
			t.Fatalf("%s: panicked: %s", c.Desc(), perr)
		}
		if got == nil {
			t.Fatalf("%s: returned nil", c.Desc())
		}
		g, bad := model.ObsVector(got)
		if bad != "" {
			t.Fatalf("%s: %s", c.Desc(), bad)
		}
		ws := model.ObsScalars(want)
		if valuesOnly {
			if g.N != ws.N {
				t.Fatalf("%s: dimension %d, expected %d", c.Desc(), g.N, ws.N)
			}
			for i := range g.E {
				if g.E[i].Val != ws.E[i].Val {
					t.Fatalf("%s: element %d is %v, the sorted model has %v\n got  %v\n want %v", c.Desc(), i, g.E[i].Val, ws.E[i].Val, g, ws)
				}
			}
		} else if d := g.Diff(ws, 0); d != "" {
			t.Fatalf("%s: result differs from the slice model: %s\n got  %v\n want %v", c.Desc(), d, g, ws)
		}
		c.End()
	})
}

func seqInts(n int) []int {
	r := make([]int, n)
	for i := range r {
		r[i] = i
	}
	return r
}
