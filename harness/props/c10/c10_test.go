// C10 — views and transposes address exactly the elements they denote.
//
// Model: a view is a composition of index maps (view (i,j) -> base (I,J)) applied to a plain
// element grid.  Oracles: definition of Slice/T (reads, writes), view vs independent deep copy
// for a catalogue of probes, and "the parent changes only where the view denotes".
package c10

import (
	"encoding/json"
	"fmt"
	"os"
	"path/filepath"
	"sort"
	"strings"
	"testing"

	. "github.com/pbenner/autodiff"
	"pgregory.net/rapid"
	"verifharness/gen"
	"verifharness/model"
	"verifharness/obs"
)

func TestMain(m *testing.M) {
	code := m.Run()
	obs.Flush()
	os.Exit(code)
}

func call(f func()) (perr string) {
	defer func() {
		if r := recover(); r != nil {
			perr = fmt.Sprint(r)
			if len(perr) > 120 {
				perr = perr[:120]
			}
		}
	}()
	f()
	return ""
}

// viewModel maps view coordinates to base coordinates.
type viewModel struct {
	rows, cols int
	at         func(i, j int) (int, int)
}

type step struct {
	t              bool
	r0, r1, c0, c1 int
	api            string // which entry point builds the step: Slice | ConstSlice | MagicSlice ; T | MagicT
}

type viewCase struct {
	base       gen.MatCase
	word       []string
	steps      []step
	vm         viewModel
	nontrivial bool
	classes    []string
}

// slice appends a Slice step.
func (vc *viewCase) slice(r0, r1, c0, c1 int) {
	prev := vc.vm
	vc.vm = viewModel{r1 - r0, c1 - c0, func(i, j int) (int, int) { return prev.at(r0+i, c0+j) }}
	vc.steps = append(vc.steps, step{false, r0, r1, c0, c1, "Slice"})
	vc.word = append(vc.word, fmt.Sprintf("Slice(%d,%d,%d,%d)", r0, r1, c0, c1))
}

func (vc *viewCase) apply(m Matrix) Matrix {
	for _, s := range vc.steps {
		switch {
		case s.t && s.api == "MagicT":
			m = m.(MagicMatrix).MagicT().(Matrix)
		case s.t:
			m = m.T()
		case s.api == "ConstSlice":
			m = m.ConstSlice(s.r0, s.r1, s.c0, s.c1).(Matrix)
		case s.api == "MagicSlice":
			m = m.(MagicMatrix).MagicSlice(s.r0, s.r1, s.c0, s.c1).(Matrix)
		default:
			m = m.Slice(s.r0, s.r1, s.c0, s.c1)
		}
	}
	return m
}

func drawElemType(t *rapid.T) gen.SType {
	return gen.DrawType(t, "elem", []gen.SType{gen.TFloat64, gen.TFloat64, gen.TReal64, gen.TReal64, gen.TInt, gen.TFloat32})
}

// drawView draws base matrix and a view word; apply() builds the library view on a given base.
func drawView(t *rapid.T, maxLen int) (viewCase, func(Matrix) Matrix) {
	st := drawElemType(t)
	dm := gen.DrawDerivMode(t, "dm", st)
	rows, cols := rapid.IntRange(1, 6).Draw(t, "rows"), rapid.IntRange(1, 6).Draw(t, "cols")
	sparse := rapid.Bool().Draw(t, "sparse")
	vc := viewCase{base: gen.DrawMat(t, "base", st, sparse, rows, cols, dm, false)}
	vm := viewModel{rows, cols, func(i, j int) (int, int) { return i, j }}
	n := rapid.IntRange(0, maxLen).Draw(t, "wordLen")
	sliced, tAfterSlice, unequal, smaller := false, false, false, false
	vc.vm = vm
	for k := 0; k < n; k++ {
		vm = vc.vm
		if rapid.IntRange(0, 2).Draw(t, "isT") == 0 {
			prev := vm
			vc.vm = viewModel{prev.cols, prev.rows, func(i, j int) (int, int) { return prev.at(j, i) }}
			api := "T"
			if st.IsReal() && rapid.Bool().Draw(t, "magicT") {
				api = "MagicT"
			}
			vc.steps = append(vc.steps, step{t: true, api: api})
			vc.word = append(vc.word, api)
			if sliced {
				tAfterSlice = true
			}
		} else {
			// non-empty windows are favoured (an empty window once in ten slices)
			lo := 1
			if rapid.IntRange(0, 9).Draw(t, "allowEmpty") == 0 || vm.rows == 0 || vm.cols == 0 {
				lo = 0
			}
			r0 := rapid.IntRange(0, vm.rows-lo).Draw(t, "r0")
			r1 := rapid.IntRange(r0+lo, vm.rows).Draw(t, "r1")
			c0 := rapid.IntRange(0, vm.cols-lo).Draw(t, "c0")
			c1 := rapid.IntRange(c0+lo, vm.cols).Draw(t, "c1")
			vc.slice(r0, r1, c0, c1)
			apis := []string{"Slice", "Slice", "ConstSlice"}
			if st.IsReal() {
				apis = append(apis, "MagicSlice")
			}
			api := apis[rapid.IntRange(0, len(apis)-1).Draw(t, "sliceApi")]
			vc.steps[len(vc.steps)-1].api = api
			vc.word[len(vc.word)-1] = api + vc.word[len(vc.word)-1][len("Slice"):]
			vc.classes = append(vc.classes, "step="+api)
			sliced = true
			if r0 != c0 {
				unequal = true
			}
			if vc.vm.rows*vc.vm.cols < rows*cols {
				smaller = true
			}
		}
	}
	vm = vc.vm
	vc.vm = vm
	vc.nontrivial = smaller && (unequal || tAfterSlice)
	if tAfterSlice {
		vc.classes = append(vc.classes, "transposed slice")
	}
	if sliced && len(vc.steps) >= 3 {
		vc.classes = append(vc.classes, "nested view (>=3 steps)")
	}
	if vm.rows == 0 || vm.cols == 0 {
		vc.classes = append(vc.classes, "empty window")
	}
	if n == 0 {
		vc.classes = append(vc.classes, "no view (base)")
	}
	vc.classes = append(vc.classes, fmt.Sprintf("storage=%v", map[bool]string{true: "sparse", false: "dense"}[sparse]), "elem="+st.Name)
	apply := func(m Matrix) Matrix { return vc.apply(m) }
	return vc, apply
}

func (vc viewCase) String() string {
	return fmt.Sprintf("base=%s view=%s", vc.base, strings.Join(vc.word, "."))
}

// expected elements of the view
func (vc viewCase) elems() [][]gen.Elem {
	r := make([][]gen.Elem, vc.vm.rows)
	for i := range r {
		r[i] = make([]gen.Elem, vc.vm.cols)
		for j := range r[i] {
			I, J := vc.vm.at(i, j)
			r[i][j] = vc.base.At(I, J)
		}
	}
	return r
}

func (vc viewCase) expectState() model.MState {
	es := vc.elems()
	g := make([][]Scalar, vc.vm.rows)
	for i := range g {
		g[i] = make([]Scalar, vc.vm.cols)
		for j := range g[i] {
			g[i][j] = es[i][j].Scalar(vc.base.T)
		}
	}
	return model.ObsScalarGrid(g, vc.vm.rows, vc.vm.cols)
}

// deepCopy builds an independent matrix (same storage kind and element type) holding the view's elements.
func (vc viewCase) deepCopy() Matrix {
	var m Matrix
	if vc.base.Sparse {
		m = NullSparseMatrix(vc.base.T.T, vc.vm.rows, vc.vm.cols)
	} else {
		m = NullDenseMatrix(vc.base.T.T, vc.vm.rows, vc.vm.cols)
	}
	for i, row := range vc.elems() {
		for j, e := range row {
			if !e.IsZero() {
				m.At(i, j).Set(e.Scalar(vc.base.T))
			}
		}
	}
	return m
}

func hasT(word []string) bool {
	for _, w := range word {
		if w == "T" || w == "MagicT" {
			return true
		}
	}
	return false
}

func (vc viewCase) smaller() bool { return vc.vm.rows*vc.vm.cols < vc.base.Rows*vc.base.Cols }

func begin(aspect string, vc viewCase, extra string) *obs.Case {
	c := obs.Begin(aspect, "%s %s", vc, extra)
	c.Class(vc.classes...)
	c.NT(vc.nontrivial)
	return c
}

// ---------------------------------------------------------------------------------------------

func TestC10_index_map_reads(t *testing.T) {
	rapid.Check(t, func(t *rapid.T) {
		vc, apply := drawView(t, 4)
		c := begin("index_map_reads", vc, "")
		base := vc.base.Build()
		var v Matrix
		if p := call(func() { v = apply(base) }); p != "" {
			t.Fatalf("%s: building the view panicked: %s", c.Desc(), p)
		}
		if r, cl := v.Dims(); r != vc.vm.rows || cl != vc.vm.cols {
			t.Fatalf("%s: Dims()=%dx%d, expected %dx%d", c.Desc(), r, cl, vc.vm.rows, vc.vm.cols)
		}
		var got model.MState
		var bad string
		if p := call(func() { got, bad = model.ObsMatrix(v) }); p != "" {
			t.Fatalf("%s: reading the view panicked: %s", c.Desc(), p)
		}
		if bad != "" {
			t.Fatalf("%s: %s", c.Desc(), bad)
		}
		if d := got.Diff(vc.expectState(), 0); d != "" {
			t.Fatalf("%s: view element differs from the base element its definition names: %s", c.Desc(), d)
		}
		// At() (creating access) reads the same
		for i := 0; i < vc.vm.rows; i++ {
			for j := 0; j < vc.vm.cols; j++ {
				I, J := vc.vm.at(i, j)
				if x := v.At(i, j).GetFloat64(); x != vc.base.At(I, J).V {
					t.Fatalf("%s: At(%d,%d)=%v, base(%d,%d)=%v", c.Desc(), i, j, x, I, J, vc.base.At(I, J).V)
				}
			}
		}
		// out of range access panics
		for _, ij := range [][2]int{{-1, 0}, {0, -1}, {vc.vm.rows, 0}, {0, vc.vm.cols}} {
			if p := call(func() { v.ConstAt(ij[0], ij[1]) }); p == "" {
				t.Fatalf("%s: ConstAt(%d,%d) outside the %dx%d view did not panic", c.Desc(), ij[0], ij[1], vc.vm.rows, vc.vm.cols)
			}
			if p := call(func() { v.At(ij[0], ij[1]) }); p == "" {
				t.Fatalf("%s: At(%d,%d) outside the %dx%d view did not panic", c.Desc(), ij[0], ij[1], vc.vm.rows, vc.vm.cols)
			}
		}
		c.End()
	})
}

func TestC10_write_through_vs_copy(t *testing.T) {
	rapid.Check(t, func(t *rapid.T) {
		vc, apply := drawView(t, 4)
		if vc.vm.rows == 0 || vc.vm.cols == 0 {
			vc, apply = drawView(t, 0)
		}
		i, j := rapid.IntRange(0, vc.vm.rows-1).Draw(t, "i"), rapid.IntRange(0, vc.vm.cols-1).Draw(t, "j")
		kind := rapid.SampledFrom([]string{"At", "Row", "Col", "Diag", "CloneMatrix", "AsVector"}).Draw(t, "accessor")
		if kind == "Diag" && vc.vm.rows != vc.vm.cols {
			kind = "Row"
		}
		c := begin("write_through_vs_copy", vc, fmt.Sprintf("write 42 through %s at (%d,%d)", kind, i, j))
		c.Classf("accessor=%s", kind)
		base := vc.base.Build()
		v := apply(base)
		before, _ := model.ObsMatrix(base)
		I, J := vc.vm.at(i, j)
		p := call(func() {
			switch kind {
			case "At":
				v.At(i, j).SetFloat64(42)
			case "Row":
				v.Row(i).At(j).SetFloat64(42)
			case "Col":
				v.Col(j).At(i).SetFloat64(42)
			case "Diag":
				v.Diag().At(i).SetFloat64(42)
			case "CloneMatrix":
				v.CloneMatrix().At(i, j).SetFloat64(42)
			}
		})
		if kind == "AsVector" {
			c.End() // AsVector is a reference with unspecified order: nothing to assert on writes
			return
		}
		if p != "" {
			t.Fatalf("%s: panicked: %s", c.Desc(), p)
		}
		after, _ := model.ObsMatrix(base)
		for r := 0; r < before.Rows; r++ {
			for cc := 0; cc < before.Cols; cc++ {
				want := before.E[r][cc].Canon()
				if kind == "At" && r == I && cc == J {
					want = model.SState{Val: 42}.Canon()
				}
				if after.E[r][cc].Canon() != want {
					if kind == "At" && vc.base.Sparse && hasT(vc.word) && !vc.base.At(I, J).Stored && r == I && cc == J && c.Known("C10/sparse-T-creates-entries-only-in-the-transposed-copy") {
						c.End()
						return
					}
					t.Fatalf("%s: base element (%d,%d) is %v afterwards, expected %s (view element maps to base (%d,%d))", c.Desc(), r, cc, after.E[r][cc], want, I, J)
				}
			}
		}
		if kind == "At" {
			if x := v.ConstAt(i, j).GetFloat64(); x != 42 {
				t.Fatalf("%s: the view reads %v after the write", c.Desc(), x)
			}
		}
		c.End()
	})
}

func TestC10_tip_equals_former_T(t *testing.T) {
	rapid.Check(t, func(t *rapid.T) {
		vc, _ := drawView(t, 0)
		c := begin("tip_equals_former_T", vc, "Tip()")
		c.NT(vc.base.Rows != vc.base.Cols && vc.base.Rows > 1 && vc.base.Cols > 1)
		m := vc.base.Build()
		var want model.MState
		if p := call(func() { want, _ = model.ObsMatrix(m.T()) }); p != "" {
			t.Fatalf("%s: T() panicked: %s", c.Desc(), p)
		}
		if p := call(func() { m.Tip() }); p != "" {
			t.Fatalf("%s: Tip() panicked: %s", c.Desc(), p)
		}
		got, bad := model.ObsMatrix(m)
		if bad != "" {
			t.Fatalf("%s: %s", c.Desc(), bad)
		}
		if got.Canon() != want.Canon() {
			t.Fatalf("%s: after Tip() the matrix is %v, its former T() was %v", c.Desc(), got, want)
		}
		c.End()
	})
}

// ---------------------------------------------------------------------------------------------
// probe catalogue: the probe applied to the view and to an independent deep copy gives the same
// result and leaves both in the same state; the parent changes only inside the window.

type params struct {
	i, j, i2, j2 int
	perm         []int
	other, nz    gen.MatCase // same dims as the view; nz without zeros
	vecC, vecR   gen.VecCase // length cols / rows
	left         gen.MatCase // k x rows
	right        gen.MatCase // cols x k
	s            gen.Elem
	tmpdir       string
}

type probe struct {
	name   string
	square bool
	nonEmp bool
	run    func(m Matrix, p params, st gen.SType) string
}

func canonM(m ConstMatrix) string {
	s, bad := model.ObsMatrix(m)
	return s.Canon() + bad
}

func canonV(v ConstVector) string {
	s, bad := model.ObsVector(v)
	return s.Canon() + bad
}

func walkIter(it MatrixConstIterator) string {
	var sb strings.Builder
	for n := 0; it.Ok() && n < 200; it.Next() {
		i, j := it.Index()
		fmt.Fprintf(&sb, "(%d,%d)=%s ", i, j, model.ObsScalar(it.GetConst()).Canon())
		n++
	}
	return sb.String()
}

func fresh(st gen.SType, sparse bool, r, c int) Matrix {
	if sparse {
		return NullSparseMatrix(st.T, r, c)
	}
	return NullDenseMatrix(st.T, r, c)
}

func multiset(v ConstVector) string {
	var xs []string
	for i := 0; i < v.Dim(); i++ {
		x := model.ObsScalar(v.ConstAt(i)).Canon()
		if x != "0" {
			xs = append(xs, x)
		}
	}
	sort.Strings(xs)
	return fmt.Sprintf("%d:%v", v.Dim(), xs)
}

var probes = []probe{
	{"ConstRow", false, true, func(m Matrix, p params, st gen.SType) string { return canonV(m.ConstRow(p.i)) }},
	{"ConstCol", false, true, func(m Matrix, p params, st gen.SType) string { return canonV(m.ConstCol(p.j)) }},
	{"ConstDiag", true, true, func(m Matrix, p params, st gen.SType) string { return canonV(m.ConstDiag()) }},
	{"Row", false, true, func(m Matrix, p params, st gen.SType) string { return canonV(m.Row(p.i)) }},
	{"Col", false, true, func(m Matrix, p params, st gen.SType) string { return canonV(m.Col(p.j)) }},
	{"Diag", true, true, func(m Matrix, p params, st gen.SType) string { return canonV(m.Diag()) }},
	{"ConstIterator", false, false, func(m Matrix, p params, st gen.SType) string { return walkIter(m.ConstIterator()) }},
	{"ConstIteratorFrom", false, true, func(m Matrix, p params, st gen.SType) string { return walkIter(m.ConstIteratorFrom(p.i, p.j)) }},
	{"Iterator+write", false, false, func(m Matrix, p params, st gen.SType) string {
		n := 0
		for it := m.Iterator(); it.Ok() && n < 200; it.Next() {
			it.Get().Add(it.Get(), ConstFloat64(1))
			n++
		}
		return fmt.Sprint(n)
	}},
	{"JointIterator", false, false, func(m Matrix, p params, st gen.SType) string {
		var sb strings.Builder
		n := 0
		for it := m.JointIterator(p.other.Build()); it.Ok() && n < 200; it.Next() {
			i, j := it.Index()
			a, b := it.GetConst()
			as, bs := "0", "0"
			if a != nil {
				as = model.ObsScalar(a).Canon()
			}
			if b != nil {
				bs = model.ObsScalar(b).Canon()
			}
			if as != "0" || bs != "0" {
				fmt.Fprintf(&sb, "(%d,%d)=%s,%s ", i, j, as, bs)
			}
			n++
		}
		return sb.String()
	}},
	{"recv.MaddM", false, false, func(m Matrix, p params, st gen.SType) string { m.MaddM(p.other.Build(), p.nz.Build()); return "" }},
	{"recv.MmulM", false, false, func(m Matrix, p params, st gen.SType) string { m.MmulM(p.other.Build(), p.nz.Build()); return "" }},
	{"recv.MsubS", false, false, func(m Matrix, p params, st gen.SType) string { m.MsubS(p.other.Build(), p.s.Scalar(st)); return "" }},
	{"recv.MdivM", false, false, func(m Matrix, p params, st gen.SType) string { m.MdivM(p.other.Build(), p.nz.Build()); return "" }},
	{"operand.MaddM", false, false, func(m Matrix, p params, st gen.SType) string {
		r, c := m.Dims()
		x := fresh(st, p.other.Sparse, r, c)
		x.MaddM(m, p.other.Build())
		return canonM(x)
	}},
	{"operand.MsubM(second)", false, false, func(m Matrix, p params, st gen.SType) string {
		r, c := m.Dims()
		x := fresh(st, p.other.Sparse, r, c)
		x.MsubM(p.other.Build(), m)
		return canonM(x)
	}},
	{"operand.MmulS", false, false, func(m Matrix, p params, st gen.SType) string {
		r, c := m.Dims()
		x := fresh(st, p.other.Sparse, r, c)
		x.MmulS(m, p.s.Scalar(st))
		return canonM(x)
	}},
	{"MdotM(view,right)", false, false, func(m Matrix, p params, st gen.SType) string {
		r, _ := m.Dims()
		x := fresh(st, p.right.Sparse, r, p.right.Cols)
		x.MdotM(m, p.right.Build())
		return canonM(x)
	}},
	{"MdotM(left,view)", false, false, func(m Matrix, p params, st gen.SType) string {
		_, c := m.Dims()
		x := fresh(st, p.left.Sparse, p.left.Rows, c)
		x.MdotM(p.left.Build(), m)
		return canonM(x)
	}},
	{"MdotV", false, false, func(m Matrix, p params, st gen.SType) string {
		r, _ := m.Dims()
		x := NullDenseVector(st.T, r)
		x.MdotV(m, p.vecC.Build())
		return canonV(x)
	}},
	{"VdotM", false, false, func(m Matrix, p params, st gen.SType) string {
		_, c := m.Dims()
		x := NullDenseVector(st.T, c)
		x.VdotM(p.vecR.Build(), m)
		return canonV(x)
	}},
	{"recv.Outer", false, false, func(m Matrix, p params, st gen.SType) string { m.Outer(p.vecR.Build(), p.vecC.Build()); return "" }},
	{"Set", false, false, func(m Matrix, p params, st gen.SType) string { m.Set(p.other.Build()); return "" }},
	{"Set(from view)", false, false, func(m Matrix, p params, st gen.SType) string {
		r, c := m.Dims()
		x := fresh(st, p.other.Sparse, r, c)
		x.Set(m)
		return canonM(x)
	}},
	{"Reset", false, false, func(m Matrix, p params, st gen.SType) string { m.Reset(); return "" }},
	{"SetIdentity", false, false, func(m Matrix, p params, st gen.SType) string { m.SetIdentity(); return "" }},
	{"Swap", false, true, func(m Matrix, p params, st gen.SType) string { m.Swap(p.i, p.j, p.i2, p.j2); return "" }},
	{"SwapRows", true, true, func(m Matrix, p params, st gen.SType) string { return fmt.Sprint(m.SwapRows(p.i, p.i2)) }},
	{"SwapColumns", true, true, func(m Matrix, p params, st gen.SType) string { return fmt.Sprint(m.SwapColumns(p.j, p.j2)) }},
	{"PermuteRows", true, true, func(m Matrix, p params, st gen.SType) string { return fmt.Sprint(m.PermuteRows(p.perm)) }},
	{"PermuteColumns", true, true, func(m Matrix, p params, st gen.SType) string { return fmt.Sprint(m.PermuteColumns(p.perm)) }},
	{"SymmetricPermutation", true, true, func(m Matrix, p params, st gen.SType) string { return fmt.Sprint(m.SymmetricPermutation(p.perm)) }},
	{"Map", false, false, func(m Matrix, p params, st gen.SType) string {
		m.Map(func(x Scalar) { x.Add(x, ConstFloat64(1)) })
		return ""
	}},
	{"MapSet", false, false, func(m Matrix, p params, st gen.SType) string {
		m.MapSet(func(x ConstScalar) Scalar { r := st.NewMut(0); r.Mul(x, ConstFloat64(2)); return r })
		return ""
	}},
	{"Reduce", false, false, func(m Matrix, p params, st gen.SType) string {
		r := m.Reduce(func(r Scalar, x ConstScalar) Scalar { r.Add(r, x); return r }, st.NewMut(0))
		return model.ObsScalar(r).Canon()
	}},
	{"Equals", false, false, func(m Matrix, p params, st gen.SType) string {
		return fmt.Sprint(m.Equals(p.other.Build(), 1e-12), m.Equals(m.CloneMatrix(), 1e-12))
	}},
	{"IsSymmetric", false, false, func(m Matrix, p params, st gen.SType) string { return fmt.Sprint(m.IsSymmetric(1e-12)) }},
	{"Mtrace", true, true, func(m Matrix, p params, st gen.SType) string {
		return model.ObsScalar(st.NewMut(0).Mtrace(m)).Canon()
	}},
	{"Mnorm", false, true, func(m Matrix, p params, st gen.SType) string {
		return model.ObsScalar(st.NewMut(0).Mnorm(m)).Canon()
	}},
	{"AsVector", false, false, func(m Matrix, p params, st gen.SType) string { return multiset(m.AsVector()) }},
	{"AsConstVector", false, false, func(m Matrix, p params, st gen.SType) string { return multiset(m.AsConstVector()) }},
	{"String", false, false, func(m Matrix, p params, st gen.SType) string { return m.String() }},
	{"Table", false, false, func(m Matrix, p params, st gen.SType) string { return m.Table() }},
	{"CloneMatrix", false, false, func(m Matrix, p params, st gen.SType) string {
		x := m.CloneMatrix()
		return canonM(x)
	}},
	{"Export+Import", false, true, func(m Matrix, p params, st gen.SType) string {
		f := filepath.Join(p.tmpdir, "m.table")
		if err := m.Export(f); err != nil {
			return "export error: " + err.Error()
		}
		x := fresh(st, false, 0, 0)
		imp, ok := x.(interface{ Import(string) error })
		if !ok {
			return "no Import"
		}
		if err := imp.Import(f); err != nil {
			return "import error: " + err.Error()
		}
		return canonM(x)
	}},
	{"MarshalJSON+UnmarshalJSON", false, true, func(m Matrix, p params, st gen.SType) string {
		b, err := m.MarshalJSON()
		if err != nil {
			return "marshal error: " + err.Error()
		}
		x := fresh(st, strings.Contains(fmt.Sprintf("%T", m), "Sparse"), 0, 0)
		if err := json.Unmarshal(b, x); err != nil {
			return "unmarshal error: " + err.Error()
		}
		return canonM(x)
	}},
}

func drawParams(t *rapid.T, vc viewCase, tmpdir string) params {
	st := vc.base.T
	dm := gen.DerivMode{}
	if st.IsReal() && rapid.Bool().Draw(t, "pderiv") {
		dm = gen.DerivMode{Order: 1, NVar: 2}
	}
	r, c := vc.vm.rows, vc.vm.cols
	p := params{tmpdir: tmpdir}
	if r > 0 && c > 0 {
		p.i, p.j = rapid.IntRange(0, r-1).Draw(t, "pi"), rapid.IntRange(0, c-1).Draw(t, "pj")
		p.i2, p.j2 = rapid.IntRange(0, r-1).Draw(t, "pi2"), rapid.IntRange(0, c-1).Draw(t, "pj2")
	}
	p.perm = rapid.Permutation(seq(r)).Draw(t, "perm")
	os_ := rapid.Bool().Draw(t, "otherSparse")
	p.other = gen.DrawMat(t, "other", st, os_, r, c, dm, false)
	p.nz = gen.DrawMat(t, "nz", st, os_, r, c, dm, true)
	if st.IsInt() {
		for i := range p.nz.E {
			p.nz.E[i].V = 1
		}
	}
	p.vecC = gen.DrawVec(t, "vecC", st, rapid.Bool().Draw(t, "vcSparse"), c, dm, false)
	p.vecR = gen.DrawVec(t, "vecR", st, rapid.Bool().Draw(t, "vrSparse"), r, dm, false)
	k := rapid.IntRange(1, 3).Draw(t, "k")
	p.left = gen.DrawMat(t, "left", st, os_, k, r, dm, false)
	p.right = gen.DrawMat(t, "right", st, os_, c, k, dm, false)
	p.s = gen.DrawVec(t, "s", st, false, 1, dm, true).E[0]
	return p
}

func seq(n int) []int {
	r := make([]int, n)
	for i := range r {
		r[i] = i
	}
	return r
}

var tmpCounter int

func TestC10_probe_view_vs_deepcopy(t *testing.T) {
	dir := os.Getenv("VERIF_OUT")
	if dir == "" {
		dir = os.TempDir()
	}
	tmpdir, err := os.MkdirTemp(dir, "c10io")
	if err != nil {
		t.Fatal(err)
	}
	defer os.RemoveAll(tmpdir)
	rapid.Check(t, func(t *rapid.T) {
		vc, apply := drawView(t, 4)
		pr := probes[rapid.IntRange(0, len(probes)-1).Draw(t, "probe")]
		if pr.square && vc.vm.rows != vc.vm.cols {
			// make the view square by construction: one more slice
			k := vc.vm.rows
			if vc.vm.cols < k {
				k = vc.vm.cols
			}
			r0 := rapid.IntRange(0, vc.vm.rows-k).Draw(t, "sq.r0")
			c0 := rapid.IntRange(0, vc.vm.cols-k).Draw(t, "sq.c0")
			vc.slice(r0, r0+k, c0, c0+k)
			vc.nontrivial = true
			apply = func(m Matrix) Matrix { return vc.apply(m) }
		}
		if pr.nonEmp && (vc.vm.rows == 0 || vc.vm.cols == 0) {
			// constructive fallback: a probe without shape requirement
			pr = probes[6]
		}
		p := drawParams(t, vc, tmpdir)
		c := begin("probe_view_vs_deepcopy", vc, "probe="+pr.name+fmt.Sprintf(" i=%d j=%d i2=%d j2=%d perm=%v other=%s", p.i, p.j, p.i2, p.j2, p.perm, p.other))
		c.Classf("probe=%s", pr.name)
		st := vc.base.T
		base := vc.base.Build()
		view := apply(base)
		cp := vc.deepCopy()
		parentBefore, _ := model.ObsMatrix(base)
		var resV, resC string
		pV := call(func() { resV = pr.run(view, p, st) })
		pC := call(func() { resC = pr.run(cp, p, st) })
		known := func() bool {
			if (pr.name == "Mnorm" || pr.name == "AsVector" || pr.name == "AsConstVector") && !vc.base.Sparse && vc.smaller() && c.Known("C10/dense-asvector-of-a-slice-is-the-parent-storage") {
				return true
			}
			return false
		}
		if (pV == "") != (pC == "") {
			if known() {
				c.End()
				return
			}
			t.Fatalf("%s: panic behaviour differs: on the view %q, on the deep copy %q", c.Desc(), pV, pC)
		}
		if pV != "" {
			c.Class("both panic")
			c.End()
			return
		}
		if resV != resC {
			if known() {
				c.End()
				return
			}
			t.Fatalf("%s: result on the view:\n  %s\nresult on the deep copy:\n  %s", c.Desc(), resV, resC)
		}
		sv, sc := canonM(view), canonM(cp)
		if sv != sc {
			t.Fatalf("%s: state afterwards: view %s, deep copy %s", c.Desc(), sv, sc)
		}
		// the parent differs from its snapshot only at positions the view denotes
		inWindow := map[[2]int]bool{}
		for i := 0; i < vc.vm.rows; i++ {
			for j := 0; j < vc.vm.cols; j++ {
				I, J := vc.vm.at(i, j)
				inWindow[[2]int{I, J}] = true
			}
		}
		parentAfter, _ := model.ObsMatrix(base)
		for i := 0; i < parentBefore.Rows; i++ {
			for j := 0; j < parentBefore.Cols; j++ {
				if !inWindow[[2]int{i, j}] && parentBefore.E[i][j].Canon() != parentAfter.E[i][j].Canon() {
					t.Fatalf("%s: parent element (%d,%d) outside the view's window changed from %v to %v", c.Desc(), i, j, parentBefore.E[i][j], parentAfter.E[i][j])
				}
			}
		}
		c.End()
	})
}

// ---------------------------------------------------------------------------------------------
// witnesses

func TestKF_sparse_T_write_through(t *testing.T) {
	b := NullSparseFloat64Matrix(2, 1)
	v := b.T()
	v.At(0, 1).SetFloat64(42)
	obs.KFStatus("C10/sparse-T-creates-entries-only-in-the-transposed-copy", b.Float64At(1, 0) != 42, fmt.Sprintf("b.T().At(0,1).SetFloat64(42): b(1,0)=%v", b.Float64At(1, 0)))
}

func TestKF_dense_asvector_slice(t *testing.T) {
	b := NewDenseFloat64Matrix([]float64{1, 2, 3, 4}, 2, 2)
	v := b.Slice(0, 1, 0, 1)
	obs.KFStatus("C10/dense-asvector-of-a-slice-is-the-parent-storage", v.AsVector().Dim() != 1, fmt.Sprintf("1x1 slice of a 2x2 matrix: AsVector().Dim()=%d", v.AsVector().Dim()))
}

func TestKF_sparse_T_of_slice(t *testing.T) {
	b := NullSparseFloat64Matrix(2, 2)
	b.At(1, 1).SetFloat64(3)
	p := call(func() { b.Slice(0, 1, 0, 1).T() })
	obs.KFStatus("C10/sparse-T-of-slice-panics", p != "", p)
}

func TestKF_sparse_swap(t *testing.T) {
	v := NullSparseFloat64Vector(3)
	v.At(0).SetFloat64(5)
	var visited []int
	p := call(func() {
		v.Swap(0, 2)
		for it := v.ConstIterator(); it.Ok(); it.Next() {
			visited = append(visited, it.Index())
		}
	})
	obs.KFStatus("C10/sparse-vector-swap-raw-slots", p != "" || v.Float64At(2) != 5 || v.Float64At(0) != 0 || fmt.Sprint(visited) != "[2]",
		fmt.Sprintf("panic=%q v=[%v %v %v] iterator visits %v", p, v.Float64At(0), v.Float64At(1), v.Float64At(2), visited))
}

func TestKF_dense_iterator_on_slice(t *testing.T) {
	b := NewDenseFloat64Matrix([]float64{1, 2, 3, 4, 5, 6, 7, 8, 9}, 3, 3)
	v := b.Slice(1, 3, 1, 3) // [[5,6],[8,9]]
	var got []float64
	p := call(func() {
		for it := v.ConstIterator(); it.Ok(); it.Next() {
			got = append(got, it.GetConst().GetFloat64())
		}
	})
	obs.KFStatus("C10/dense-iterator-on-views", p != "" || fmt.Sprint(got) != "[5 6 8 9]", fmt.Sprintf("panic=%q iterating Slice(1,3,1,3) of 3x3 1..9 yields %v", p, got))
}

func TestKF_dense_reset_on_slice(t *testing.T) {
	b := NewDenseFloat64Matrix([]float64{1, 2, 3, 4}, 2, 2)
	b.Slice(0, 1, 0, 1).Reset()
	obs.KFStatus("C10/dense-reset-clears-parent", b.Float64At(1, 1) != 4 || b.Float64At(0, 0) != 0, fmt.Sprintf("after Slice(0,1,0,1).Reset(): b=[%v %v; %v %v]", b.Float64At(0, 0), b.Float64At(0, 1), b.Float64At(1, 0), b.Float64At(1, 1)))
}

func TestKF_sparse_iterator_on_slice(t *testing.T) {
	b := NullSparseFloat64Matrix(2, 2)
	b.At(0, 0).SetFloat64(1)
	b.At(1, 1).SetFloat64(4)
	v := b.Slice(1, 2, 1, 2)
	var got []string
	p := call(func() {
		for it := v.ConstIterator(); it.Ok(); it.Next() {
			i, j := it.Index()
			got = append(got, fmt.Sprintf("(%d,%d)=%v", i, j, it.GetConst().GetFloat64()))
		}
	})
	obs.KFStatus("C10/sparse-iterator-on-views", p != "" || fmt.Sprint(got) != "[(0,0)=4]", fmt.Sprintf("panic=%q iterating Slice(1,2,1,2) yields %v", p, got))
}

func TestKF_sparse_asvector_slice(t *testing.T) {
	b := NullSparseFloat64Matrix(2, 2)
	b.At(0, 0).SetFloat64(1)
	b.At(1, 1).SetFloat64(4)
	n := b.Slice(1, 2, 0, 2).AsVector().Dim()
	obs.KFStatus("C10/sparse-asvector-view-test", n != 2, fmt.Sprintf("AsVector of the 1x2 slice rows(1,2) has length %d", n))
}
