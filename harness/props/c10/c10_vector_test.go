package c10

import (
	"fmt"
	"testing"

	. "github.com/pbenner/autodiff"
	"pgregory.net/rapid"
	"verifharness/gen"
	"verifharness/model"
	"verifharness/obs"
)

// ---------------------------------------------------------------------------------------------
// aspect: vector_views — Slice / ConstSlice / MagicSlice of vectors (nested) and the reinterpretation
// of a vector as a matrix address the elements their definition names and, being reference views,
// write through to the parent

type vstep struct {
	api  string
	i, j int
}

func TestC10_vector_views(t *testing.T) {
	rapid.Check(t, func(t *rapid.T) {
		st := gen.DrawElemType(t, "elem")
		dm := gen.DrawDerivMode(t, "dm", st)
		sparse := rapid.Bool().Draw(t, "sparse")
		n := rapid.IntRange(1, 8).Draw(t, "n")
		a := gen.DrawVec(t, "a", st, sparse, n, dm, false)
		base := a.Build()
		// the constant sparse vector type (read-only): ConstSlice words only
		constBase := st.Name == "Float64" && sparse && rapid.IntRange(0, 2).Draw(t, "constant type") == 0
		var cbase ConstVector
		if constBase {
			var idx []int
			var vals []float64
			for i, e := range a.Model() {
				if v := e.GetFloat64(); v != 0 {
					idx = append(idx, i)
					vals = append(vals, v)
				}
			}
			cbase = NewSparseConstFloat64Vector(idx, vals, n)
		}
		// a word of nested slices
		depth := rapid.IntRange(0, 3).Draw(t, "depth")
		var word []vstep
		off, length := 0, n
		for d := 0; d < depth; d++ {
			apis := []string{"Slice", "Slice", "ConstSlice"}
			if st.IsReal() {
				apis = append(apis, "MagicSlice")
			}
			if constBase {
				apis = []string{"ConstSlice"}
			}
			i := rapid.IntRange(0, length).Draw(t, "i")
			j := rapid.IntRange(i, length).Draw(t, "j")
			if j == i && rapid.IntRange(0, 9).Draw(t, "allowEmpty") != 0 && length > 0 {
				if i == length {
					i--
				} else {
					j++
				}
			}
			word = append(word, vstep{rapid.SampledFrom(apis).Draw(t, "api"), i, j})
			off, length = off+i, j-i
		}
		// (whether AsMatrix shares storage is not specified: dense vectors do, sparse vectors copy; only its reads are asserted)
		op := rapid.SampledFrom([]string{"read", "read", "write", "move", "AsMatrix read", "out of range"}).Draw(t, "op")
		if constBase {
			op = "read"
		}
		c := obs.Begin("vector_views", "%s word=%v %s", a, word, op)
		c.Classf("elem=%s", st)
		c.Classf("storage=%s", map[bool]string{true: "sparse", false: "dense"}[sparse])
		c.Classf("depth=%d", depth)
		c.Classf("op=%s", op)
		c.NT(depth >= 1 && length < n)
		var view ConstVector = base
		if constBase {
			view = cbase
			c.Class("storage=sparse constant type")
		}
		writable := true
		p := call(func() {
			for _, s := range word {
				switch s.api {
				case "Slice":
					view = view.(Vector).Slice(s.i, s.j)
				case "ConstSlice":
					view = view.ConstSlice(s.i, s.j)
					if _, ok := view.(Vector); !ok {
						writable = false
					}
				case "MagicSlice":
					view = view.(MagicVector).MagicSlice(s.i, s.j)
				}
			}
		})
		if p != "" {
			if !writable {
				// a ConstSlice result need not support further mutable slicing
				c.Class("const view cannot be sliced further (not asserted)")
				c.End()
				return
			}
			t.Fatalf("%s: building the view panicked: %s", c.Desc(), p)
		}
		am := model.ObsScalars(a.Model())
		switch op {
		case "read":
			if view.Dim() != length {
				t.Fatalf("%s: the view has dimension %d, expected %d", c.Desc(), view.Dim(), length)
			}
			g, bad := model.ObsVector(view)
			if bad != "" {
				t.Fatalf("%s: %s", c.Desc(), bad)
			}
			for k := 0; k < length; k++ {
				if constBase {
					if g.E[k].Val != am.E[off+k].Val {
						t.Fatalf("%s: view element %d is %v, base element %d is %v", c.Desc(), k, g.E[k].Val, off+k, am.E[off+k].Val)
					}
					continue
				}
				if d := g.E[k].Diff(am.E[off+k], 0, false); d != "" {
					t.Fatalf("%s: view element %d should be base element %d: %s", c.Desc(), k, off+k, d)
				}
			}
			// the iterator visits positions of the view, with the values found there
			for it := view.ConstIterator(); it.Ok(); it.Next() {
				k := it.Index()
				if k < 0 || k >= length {
					t.Fatalf("%s: the iterator of the view reports index %d, the view has dimension %d", c.Desc(), k, length)
				}
				if v := it.GetConst().GetFloat64(); v != am.E[off+k].Val {
					t.Fatalf("%s: the iterator reports %v at index %d, base element %d is %v", c.Desc(), v, k, off+k, am.E[off+k].Val)
				}
			}
		case "out of range":
			k := length + rapid.IntRange(0, 2).Draw(t, "beyond")
			if rapid.Bool().Draw(t, "negative") {
				k = -1 - rapid.IntRange(0, 1).Draw(t, "below")
			}
			var v float64
			if p := call(func() { v = view.ConstAt(k).GetFloat64() }); p == "" {
				// sparse containers answer absent positions with zero; a position outside the view must not
				// silently denote a parent element
				inParent := off+k >= 0 && off+k < n
				if inParent && v != 0 && v == am.E[off+k].Val {
					t.Fatalf("%s: ConstAt(%d) is outside the view of dimension %d but returns the parent element %v", c.Desc(), k, length, v)
				}
				c.Class("out of range read answered without panic")
			}
		case "write":
			w, ok := view.(Vector)
			if !ok || length == 0 {
				c.Class("not writable or empty (not asserted)")
				c.End()
				return
			}
			k := rapid.IntRange(0, length-1).Draw(t, "k")
			if p := call(func() { w.At(k).SetFloat64(42) }); p != "" {
				t.Fatalf("%s: writing element %d of the view panicked: %s", c.Desc(), k, p)
			}
			if x := w.ConstAt(k).GetFloat64(); x != st.Conv(42) {
				t.Fatalf("%s: the view reads %v after 42 was written to element %d", c.Desc(), x, k)
			}
			after, _ := model.ObsVector(base)
			for q := 0; q < n; q++ {
				want := am.E[q]
				if q == off+k {
					if after.E[q].Val != st.Conv(42) {
						if sparse && !a.E[q].Stored && depth >= 1 && c.Known("C10/sparse-vector-slice-does-not-write-absent-entries-through") {
							c.End()
							return
						}
						t.Fatalf("%s: the write to view element %d did not reach base element %d (it holds %v)", c.Desc(), k, q, after.E[q].Val)
					}
					continue
				}
				if d := after.E[q].Diff(want, 0, false); d != "" {
					t.Fatalf("%s: base element %d changed although the write went to view element %d (base %d): %s", c.Desc(), q, k, off+k, d)
				}
			}
		case "move":
			// a reference view: exchanging or reversing its elements rearranges the parent
			w, ok := view.(Vector)
			if !ok || length < 2 {
				c.Class("not writable or too short (not asserted)")
				c.End()
				return
			}
			how := rapid.SampledFrom([]string{"Swap", "ReverseOrder"}).Draw(t, "how")
			c.Classf("move=%s", how)
			want := make([]model.SState, n)
			copy(want, am.E)
			var p string
			if how == "Swap" {
				k1 := rapid.IntRange(0, length-1).Draw(t, "k1")
				k2 := rapid.IntRange(0, length-1).Draw(t, "k2")
				want[off+k1], want[off+k2] = want[off+k2], want[off+k1]
				p = call(func() { w.Swap(k1, k2) })
			} else {
				for k := 0; k < length; k++ {
					want[off+k] = am.E[off+length-1-k]
				}
				p = call(func() { w.ReverseOrder() })
			}
			if p != "" {
				t.Fatalf("%s: %s on the view panicked: %s", c.Desc(), how, p)
			}
			after, _ := model.ObsVector(base)
			vw, _ := model.ObsVector(w)
			for k := 0; k < length; k++ {
				if d := vw.E[k].Diff(want[off+k], 0, false); d != "" {
					t.Fatalf("%s: after %s the view element %d is wrong: %s", c.Desc(), how, k, d)
				}
			}
			for q := 0; q < n; q++ {
				if d := after.E[q].Diff(want[q], 0, false); d != "" {
					if sparse && depth >= 1 && c.Known("C10/sparse-vector-slice-does-not-write-absent-entries-through") {
						c.End()
						return
					}
					t.Fatalf("%s: after %s on the view the parent element %d is wrong (the view is a reference view): %s", c.Desc(), how, q, d)
				}
			}
		case "AsMatrix read", "AsMatrix write":
			if length == 0 {
				c.End()
				return
			}
			// all factorisations rows*cols = length
			var dims [][2]int
			for r := 1; r <= length; r++ {
				if length%r == 0 {
					dims = append(dims, [2]int{r, length / r})
				}
			}
			d := dims[rapid.IntRange(0, len(dims)-1).Draw(t, "dims")]
			var m ConstMatrix
			w, isVec := view.(Vector)
			p := call(func() {
				if isVec && op == "AsMatrix write" {
					m = w.AsMatrix(d[0], d[1])
				} else {
					m = view.AsConstMatrix(d[0], d[1])
				}
			})
			if p != "" {
				t.Fatalf("%s: AsMatrix(%d,%d) panicked: %s", c.Desc(), d[0], d[1], p)
			}
			if r, cc := m.Dims(); r != d[0] || cc != d[1] {
				t.Fatalf("%s: AsMatrix(%d,%d) has dimensions %dx%d", c.Desc(), d[0], d[1], r, cc)
			}
			for r := 0; r < d[0]; r++ {
				for cc := 0; cc < d[1]; cc++ {
					if df := model.ObsScalar(m.ConstAt(r, cc)).Diff(am.E[off+r*d[1]+cc], 0, false); df != "" {
						t.Fatalf("%s: AsMatrix(%d,%d) element (%d,%d) should be base element %d: %s", c.Desc(), d[0], d[1], r, cc, off+r*d[1]+cc, df)
					}
				}
			}
			if op == "AsMatrix write" && isVec {
				r, cc := rapid.IntRange(0, d[0]-1).Draw(t, "r"), rapid.IntRange(0, d[1]-1).Draw(t, "c")
				mm := m.(Matrix)
				if p := call(func() { mm.At(r, cc).SetFloat64(42) }); p != "" {
					t.Fatalf("%s: writing through AsMatrix panicked: %s", c.Desc(), p)
				}
				q := off + r*d[1] + cc
				after, _ := model.ObsVector(base)
				if after.E[q].Val != st.Conv(42) {
					if sparse && !a.E[q].Stored && c.Known("C10/sparse-vector-slice-does-not-write-absent-entries-through") {
						c.End()
						return
					}
					t.Fatalf("%s: the write to AsMatrix element (%d,%d) did not reach base element %d (it holds %v)", c.Desc(), r, cc, q, after.E[q].Val)
				}
				for z := 0; z < n; z++ {
					if z != q {
						if df := after.E[z].Diff(am.E[z], 0, false); df != "" {
							t.Fatalf("%s: base element %d changed by a write to AsMatrix element (%d,%d): %s", c.Desc(), z, r, cc, df)
						}
					}
				}
			}
		}
		c.End()
	})
}

func TestKF_sparse_vector_slice_absent_entry(t *testing.T) {
	v := NewSparseFloat64Vector([]int{0, 4}, []float64{1, 5}, 5)
	s := v.Slice(1, 4)
	s.At(1).SetFloat64(7)
	obs.KFStatus("C10/sparse-vector-slice-does-not-write-absent-entries-through", v.Float64At(2) != 7, fmt.Sprintf("parent %v, slice %v", v, s))
}
