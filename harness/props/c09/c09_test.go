// C09 — generic and concrete-typed (capital-letter) methods are interchangeable.
//
// The pair list is discovered by reflection: for every scalar, vector and matrix type each method
// whose name is entirely upper-case is paired with the method of the same type whose name is equal
// after stripping underscores and ignoring case.  Both are invoked (by reflection) on separately
// built, equal receivers and operands; receiver state, return values and panic behaviour must agree.
package c09

import (
	"fmt"
	"os"
	"reflect"
	"regexp"
	"sort"
	"strings"
	"testing"

	. "github.com/pbenner/autodiff"
	"pgregory.net/rapid"
	"verifharness/gen"
	"verifharness/model"
	"verifharness/obs"
)

func TestMain(m *testing.M) {
	discover()
	code := m.Run()
	obs.Flush()
	os.Exit(code)
}

type pair struct {
	recv     string // type name
	kind     string // scalar | vector | matrix
	st       gen.SType
	sparse   bool
	concrete string
	generic  string
	mtype    reflect.Type // concrete method type (receiver is parameter 0)
}

var (
	pairs   = map[string][]pair{} // by kind
	lone    []string
	typeRe  = regexp.MustCompile(`(Dense|Sparse)(Float32|Float64|Real32|Real64|Int8|Int16|Int32|Int64|Int)(Vector|Matrix)`)
	noTwin  = map[string]bool{"T": true, "AT_": true, "JOINT3_ITERATOR": true, "JOINT3_ITERATOR_": true}
	renamed = map[string]string{"APPEND": "AppendVector"}
)

func isCaps(n string) bool {
	ok := false
	for _, r := range n {
		if r >= 'a' && r <= 'z' {
			return false
		}
		if r >= 'A' && r <= 'Z' {
			ok = true
		}
	}
	return ok
}

func norm(n string) string { return strings.ToLower(strings.ReplaceAll(n, "_", "")) }

func stByName(n string) gen.SType {
	for _, s := range gen.MutableTypes {
		if s.Name == n {
			return s
		}
	}
	panic("unknown element type " + n)
}

func discover() {
	add := func(x interface{}, kind string, st gen.SType, sparse bool) {
		ty := reflect.TypeOf(x)
		for i := 0; i < ty.NumMethod(); i++ {
			m := ty.Method(i)
			if !isCaps(m.Name) || noTwin[m.Name] {
				continue
			}
			found := renamed[m.Name]
			for j := 0; j < ty.NumMethod() && found == ""; j++ {
				g := ty.Method(j)
				if !isCaps(g.Name) && norm(g.Name) == norm(m.Name) {
					found = g.Name
				}
			}
			if found == "" {
				lone = append(lone, ty.String()+"."+m.Name)
				continue
			}
			pairs[kind] = append(pairs[kind], pair{ty.String(), kind, st, sparse, m.Name, found, m.Type})
		}
	}
	for _, st := range gen.MutableTypes {
		add(NullScalar(st.T), "scalar", st, false)
		add(NullDenseVector(st.T, 1), "vector", st, false)
		add(NullSparseVector(st.T, 1), "vector", st, true)
		add(NullDenseMatrix(st.T, 1, 1), "matrix", st, false)
		add(NullSparseMatrix(st.T, 1, 1), "matrix", st, true)
	}
	for k := range pairs {
		sort.Slice(pairs[k], func(i, j int) bool {
			a, b := pairs[k][i], pairs[k][j]
			return a.recv+"."+a.concrete < b.recv+"."+b.concrete
		})
	}
}

// TestC09_pair_list prints the discovered pair list into the statistics (one class per pair) so
// that a silently vanished pair is visible in the evidence.
func TestC09_pair_list(t *testing.T) {
	n := 0
	for _, k := range []string{"scalar", "vector", "matrix"} {
		for _, p := range pairs[k] {
			c := obs.Begin("pair_list", "%s.%s/%s", p.recv, p.concrete, p.generic)
			c.Classf("%s pairs", k)
			c.NT(true)
			c.End()
			n++
		}
	}
	for _, l := range lone {
		c := obs.Begin("pair_list", "no generic twin: %s", l)
		c.Class("capital-letter method without generic twin")
		c.End()
	}
	if len(pairs["scalar"]) < 9*15 || len(pairs["vector"]) < 18*10 || len(pairs["matrix"]) < 9*15 {
		t.Fatalf("pair discovery found too few pairs: scalar=%d vector=%d matrix=%d", len(pairs["scalar"]), len(pairs["vector"]), len(pairs["matrix"]))
	}
	t.Logf("%d pairs (scalar %d, vector %d, matrix %d); %d capital-letter methods without twin: %v", n, len(pairs["scalar"]), len(pairs["vector"]), len(pairs["matrix"]), len(lone), lone)
}

var (
	tConstVector = reflect.TypeOf((*ConstVector)(nil)).Elem()
	tConstMatrix = reflect.TypeOf((*ConstMatrix)(nil)).Elem()
	tConstScalar = reflect.TypeOf((*ConstScalar)(nil)).Elem()
)

// argument plan: built twice (once per call) from the same drawn specification
type argSpec struct {
	kind string // int, float, scalar, vector, matrix
	i    int
	f    float64
	e    gen.Elem
	st   gen.SType
	v    gen.VecCase
	m    gen.MatCase
	// the matrix is handed over as the T() view of a matrix that stores the transposed content
	tview bool
}

func (a argSpec) build() reflect.Value {
	switch a.kind {
	case "int":
		return reflect.ValueOf(a.i)
	case "float":
		return reflect.ValueOf(a.f)
	case "scalar":
		return reflect.ValueOf(a.e.Scalar(a.st))
	case "vector":
		return reflect.ValueOf(a.v.Build())
	default:
		if a.tview {
			tc := gen.MatCase{T: a.m.T, Sparse: a.m.Sparse, Rows: a.m.Cols, Cols: a.m.Rows, E: make([]gen.Elem, len(a.m.E)), Pattern: a.m.Pattern}
			for i := 0; i < a.m.Rows; i++ {
				for j := 0; j < a.m.Cols; j++ {
					tc.E[j*a.m.Rows+i] = a.m.E[i*a.m.Cols+j]
				}
			}
			return reflect.ValueOf(tc.Build().T())
		}
		return reflect.ValueOf(a.m.Build())
	}
}

func (a argSpec) String() string {
	switch a.kind {
	case "int":
		return fmt.Sprint(a.i)
	case "float":
		return fmt.Sprint(a.f)
	case "scalar":
		return a.st.Name + ":" + a.e.String()
	case "vector":
		return a.v.String()
	default:
		if a.tview {
			return a.m.String() + " (as a T() view)"
		}
		return a.m.String()
	}
}

func parseContainer(t reflect.Type) (sparse bool, st gen.SType, isMatrix bool, ok bool) {
	m := typeRe.FindStringSubmatch(t.String())
	if m == nil {
		return
	}
	return m[1] == "Sparse", stByName(m[2]), m[3] == "Matrix", true
}

func scalarTypeOf(t reflect.Type) (gen.SType, bool) {
	n := strings.TrimPrefix(strings.TrimPrefix(t.String(), "*"), "autodiff.")
	for _, s := range gen.MutableTypes {
		if s.Name == n {
			return s, true
		}
	}
	return gen.SType{}, false
}

type result struct {
	panicked string
	recv     string
	rets     []string
}

// describe a returned value canonically
func describe(v reflect.Value) string {
	if !v.IsValid() {
		return "invalid"
	}
	if (v.Kind() == reflect.Ptr || v.Kind() == reflect.Interface || v.Kind() == reflect.Slice || v.Kind() == reflect.Map) && v.IsNil() {
		return "nil"
	}
	x := v.Interface()
	switch y := x.(type) {
	case bool, int:
		return fmt.Sprint(y)
	case ConstMatrix:
		s, bad := model.ObsMatrix(y)
		return s.Canon() + bad
	case ConstVector:
		s, bad := model.ObsVector(y)
		return s.Canon() + bad
	case ConstScalar:
		return model.ObsScalar(y).Canon()
	}
	// iterators: walk
	if v.MethodByName("Ok").IsValid() && v.MethodByName("Next").IsValid() {
		var sb strings.Builder
		get := v.MethodByName("GetConst")
		if !get.IsValid() {
			get = v.MethodByName("GET")
		}
		for n := 0; n < 500 && v.MethodByName("Ok").Call(nil)[0].Bool(); n++ {
			for _, r := range v.MethodByName("Index").Call(nil) {
				fmt.Fprintf(&sb, "%d,", r.Int())
			}
			if get.IsValid() {
				for _, r := range get.Call(nil) {
					if (r.Kind() == reflect.Interface || r.Kind() == reflect.Ptr) && r.IsNil() {
						sb.WriteString("=0") // an absent entry reads as zero
					} else if cs, ok := r.Interface().(ConstScalar); ok {
						// a typed nil pointer / empty handle inside the interface counts as nil
						func() {
							defer func() {
								if recover() != nil {
									sb.WriteString("=0") // empty handle: absent entry
								}
							}()
							fmt.Fprintf(&sb, "=%v", model.ObsScalar(cs).Canon())
						}()
					}
				}
			}
			sb.WriteString(" ")
			v.MethodByName("Next").Call(nil)
		}
		return "iter[" + sb.String() + "]"
	}
	return fmt.Sprintf("%T", x)
}

func obsAny(x interface{}) string {
	switch y := x.(type) {
	case ConstMatrix:
		s, bad := model.ObsMatrix(y)
		return s.Canon() + bad
	case ConstVector:
		s, bad := model.ObsVector(y)
		return s.Canon() + bad
	case ConstScalar:
		return model.ObsScalar(y).Canon()
	}
	return fmt.Sprint(x)
}

func invoke(recv reflect.Value, method string, args []reflect.Value) (res result) {
	defer func() {
		if r := recover(); r != nil {
			res.panicked = fmt.Sprint(r)
			if len(res.panicked) > 80 {
				res.panicked = res.panicked[:80]
			}
		}
	}()
	m := recv.MethodByName(method)
	out := m.Call(args)
	for _, o := range out {
		res.rets = append(res.rets, describe(o))
	}
	res.recv = obsAny(recv.Interface())
	return
}

func runPair(t *rapid.T, aspect string, kind string) {
	ps := pairs[kind]
	p := ps[rapid.IntRange(0, len(ps)-1).Draw(t, "pair")]
	st := p.st
	dm := gen.DrawDerivMode(t, "dm", st)
	n, k, m := rapid.IntRange(1, 5).Draw(t, "n"), rapid.IntRange(1, 4).Draw(t, "k"), rapid.IntRange(1, 4).Draw(t, "m")
	name := p.concrete
	// receiver specification
	var recvSpec argSpec
	switch kind {
	case "scalar":
		e := gen.DrawVec(t, "r", st, false, 1, dm, false).E[0]
		recvSpec = argSpec{kind: "scalar", e: e, st: st}
	case "vector":
		rn := n
		if name == "VDOTM" {
			rn = m
		}
		recvSpec = argSpec{kind: "vector", v: gen.DrawVec(t, "r", st, p.sparse, rn, dm, false)}
	case "matrix":
		recvSpec = argSpec{kind: "matrix", m: gen.DrawMat(t, "r", st, p.sparse, n, m, dm, false)}
	}
	// arguments from the concrete method's parameter types
	var specs []argSpec
	nin := p.mtype.NumIn()
	intIdx := 0
	for i := 1; i < nin; i++ {
		pt := p.mtype.In(i)
		label := fmt.Sprintf("arg%d", i)
		switch {
		case pt.Kind() == reflect.Int:
			var v int
			switch kind {
			case "vector":
				if name == "SLICE" {
					if intIdx == 0 {
						v = rapid.IntRange(0, n).Draw(t, label)
					} else {
						v = rapid.IntRange(specs[len(specs)-1].i, n).Draw(t, label)
					}
				} else {
					v = rapid.IntRange(0, n-1).Draw(t, label)
				}
			case "matrix":
				switch name {
				case "SLICE": // r0, r1, c0, c1
					switch intIdx {
					case 0:
						v = rapid.IntRange(0, n).Draw(t, label)
					case 1:
						v = rapid.IntRange(specs[len(specs)-1].i, n).Draw(t, label)
					case 2:
						v = rapid.IntRange(0, m).Draw(t, label)
					default:
						v = rapid.IntRange(specs[len(specs)-1].i, m).Draw(t, label)
					}
				case "COL":
					v = rapid.IntRange(0, m-1).Draw(t, label)
				case "ROW":
					v = rapid.IntRange(0, n-1).Draw(t, label)
				default: // AT(i,j), ITERATOR_FROM(i,j)
					if intIdx == 0 {
						v = rapid.IntRange(0, n-1).Draw(t, label)
					} else {
						v = rapid.IntRange(0, m-1).Draw(t, label)
					}
				}
			}
			intIdx++
			specs = append(specs, argSpec{kind: "int", i: v})
		case pt.Kind() == reflect.Float64:
			specs = append(specs, argSpec{kind: "float", f: []float64{1e-12, 0.3, 2}[rapid.IntRange(0, 2).Draw(t, label)]})
		default:
			if sparse, est, isMat, ok := parseContainer(pt); ok {
				if isMat {
					rows, cols := n, m
					switch {
					case name == "MDOTM" && i == 1:
						rows, cols = n, k
					case name == "MDOTM" && i == 2:
						rows, cols = k, m
					case name == "MDOTV": // r = a.b, a is n x m
						rows, cols = n, m
					case name == "VDOTM": // r(m) = a(n).b(n x m)
						rows, cols = n, m
					}
					nz := strings.Contains(name, "DIV") && i == 2
					specs = append(specs, argSpec{kind: "matrix", m: gen.DrawMat(t, label, est, sparse, rows, cols, dm, nz)})
				} else {
					l := n
					switch {
					case name == "MDOTV":
						l = m
					case name == "VDOTM":
						l = n
					case name == "OUTER" && i == 2:
						l = m
					case name == "APPEND":
						l = rapid.IntRange(0, 3).Draw(t, label+".len")
					}
					nz := strings.Contains(name, "DIV") && i == 2
					specs = append(specs, argSpec{kind: "vector", v: gen.DrawVec(t, label, est, sparse, l, dm, nz)})
				}
			} else if est, ok := scalarTypeOf(pt); ok {
				nz := strings.Contains(name, "DIV") && i == 2
				e := gen.DrawVec(t, label, est, false, 1, dm, nz).E[0]
				if est.IsInt() && nz {
					e.V = 1
				}
				specs = append(specs, argSpec{kind: "scalar", e: e, st: est})
			} else if pt == tConstVector {
				specs = append(specs, argSpec{kind: "vector", v: gen.DrawVec(t, label, st, rapid.Bool().Draw(t, label+".sparse"), n, dm, false)})
			} else if pt == tConstMatrix {
				specs = append(specs, argSpec{kind: "matrix", m: gen.DrawMat(t, label, st, rapid.Bool().Draw(t, label+".sparse"), n, m, dm, false)})
			} else {
				t.Fatalf("harness: cannot build argument of type %v for %s.%s", pt, p.recv, name)
			}
		}
	}
	if kind == "vector" && name == "MDOTV" {
		recvSpec.v = gen.DrawVec(t, "r2", st, p.sparse, n, dm, false)
	}
	// matrices may be transposed views (same elements, other memory layout)
	tviews := false
	if recvSpec.kind == "matrix" && rapid.IntRange(0, 3).Draw(t, "recv.tview") == 0 {
		recvSpec.tview, tviews = true, true
	}
	for i := range specs {
		if specs[i].kind == "matrix" && rapid.IntRange(0, 3).Draw(t, fmt.Sprintf("arg%d.tview", i+1)) == 0 {
			specs[i].tview, tviews = true, true
		}
	}
	var descs []string
	for _, s := range specs {
		descs = append(descs, s.String())
	}
	c := obs.Begin(aspect, "%s.%s/%s recv=%s args=[%s]", p.recv, p.concrete, p.generic, recvSpec, strings.Join(descs, " | "))
	c.Classf("%s.%s", p.recv, p.concrete)
	c.Classf("method=%s", p.concrete)
	if tviews {
		c.Class("a matrix is a transposed view")
	}
	// with probability 1/3 the receiver is passed as one of its own operands (in both calls): the
	// concrete and the generic method must agree under aliasing as well
	alias := -1
	if rapid.IntRange(0, 2).Draw(t, "aliasReceiver") == 0 {
		var cand []int
		for i, s := range specs {
			if s.kind != recvSpec.kind || p.mtype.In(i+1) != p.mtype.In(0) {
				continue
			}
			switch s.kind {
			case "scalar":
				cand = append(cand, i)
			case "vector":
				if s.v.N() == recvSpec.v.N() {
					cand = append(cand, i)
				}
			case "matrix":
				if s.m.Rows == recvSpec.m.Rows && s.m.Cols == recvSpec.m.Cols {
					cand = append(cand, i)
				}
			}
		}
		if len(cand) > 0 {
			alias = cand[rapid.IntRange(0, len(cand)-1).Draw(t, "aliasArg")]
		}
	}
	build := func() (reflect.Value, []reflect.Value) {
		r := recvSpec.build()
		var as []reflect.Value
		for i, s := range specs {
			if i == alias {
				as = append(as, r)
			} else {
				as = append(as, s.build())
			}
		}
		return r, as
	}
	if alias >= 0 {
		c.Class("receiver aliases an operand")
		c.SetDesc(c.Desc() + fmt.Sprintf(" receiver==arg%d", alias+1))
	}
	r1, a1 := build()
	r2, a2 := build()
	resC := invoke(r1, p.concrete, a1)
	resG := invoke(r2, p.generic, a2)
	nonzero, absent := false, false
	for _, s := range append([]argSpec{recvSpec}, specs...) {
		switch s.kind {
		case "scalar":
			nonzero = nonzero || !s.e.IsZero()
		case "vector":
			for _, e := range s.v.E {
				nonzero = nonzero || !e.IsZero()
				absent = absent || (s.v.Sparse && !e.Stored)
			}
		case "matrix":
			for _, e := range s.m.E {
				nonzero = nonzero || !e.IsZero()
				absent = absent || (s.m.Sparse && !e.Stored)
			}
		}
	}
	c.NT(nonzero && (!p.sparse || absent))
	if p.sparse && absent {
		c.Class("sparse operand/receiver with absent entries")
	}
	if resC.panicked != "" || resG.panicked != "" {
		c.Class("panicked")
		if (resC.panicked == "") != (resG.panicked == "") {
			t.Fatalf("%s: panic behaviour differs: concrete %q, generic %q", c.Desc(), resC.panicked, resG.panicked)
		}
		c.End()
		return
	}
	if resC.recv != resG.recv {
		t.Fatalf("%s: receiver after %s: %s\nreceiver after %s: %s", c.Desc(), p.concrete, resC.recv, p.generic, resG.recv)
	}
	if fmt.Sprint(resC.rets) != fmt.Sprint(resG.rets) {
		t.Fatalf("%s: return values differ:\n %s: %v\n %s: %v", c.Desc(), p.concrete, resC.rets, p.generic, resG.rets)
	}
	c.End()
}

func TestC09_scalar_pairs(t *testing.T) {
	rapid.Check(t, func(t *rapid.T) { runPair(t, "scalar_pairs", "scalar") })
}

func TestC09_vector_pairs(t *testing.T) {
	rapid.Check(t, func(t *rapid.T) { runPair(t, "vector_pairs", "vector") })
}

func TestC09_matrix_pairs(t *testing.T) {
	rapid.Check(t, func(t *rapid.T) { runPair(t, "matrix_pairs", "matrix") })
}

func TestKF_abs_receiver_sign(t *testing.T) {
	r := NewInt64(1)
	r.ABS(NewInt64(-1))
	x := NewReal64(0)
	x.Alloc(2, 1)
	x.SetDerivative(1, 0.25)
	q := NewReal64(3)
	q.ABS(x)
	obs.KFStatus("C09/abs-tests-receiver-sign", r.GetInt64() != 1 || q.GetDerivative(1) != 0, fmt.Sprintf("Int64(1).ABS(-1)=%d; ABS(0 with derivative) keeps derivative %v", r.GetInt64(), q.GetDerivative(1)))
}
