// C07 — optimizers and root finders return points that meet their stopping condition.
package c07

import (
	"fmt"
	"math"
	"os"
	"testing"
	"time"

	. "github.com/pbenner/autodiff"
	"github.com/pbenner/autodiff/algorithm/adam"
	"github.com/pbenner/autodiff/algorithm/bfgs"
	"github.com/pbenner/autodiff/algorithm/blahut"
	"github.com/pbenner/autodiff/algorithm/gradientDescent"
	"github.com/pbenner/autodiff/algorithm/lineSearch"
	"github.com/pbenner/autodiff/algorithm/newton"
	"github.com/pbenner/autodiff/algorithm/rprop"
	"github.com/pbenner/autodiff/algorithm/saga"
	"pgregory.net/rapid"
	"verifharness/gen"
	"verifharness/model"
	"verifharness/obs"
)

func TestMain(m *testing.M) {
	code := m.Run()
	obs.Flush()
	os.Exit(code)
}

var watchdog = 10 * time.Second

func guarded(f func()) (perr string, timedOut bool) {
	done := make(chan string, 1)
	go func() {
		defer func() {
			if r := recover(); r != nil {
				s := fmt.Sprint(r)
				if len(s) > 200 {
					s = s[:200]
				}
				done <- "panic: " + s
			}
		}()
		f()
		done <- ""
	}()
	select {
	case p := <-done:
		return p, false
	case <-time.After(watchdog):
		return "", true
	}
}

// ---------------------------------------------------------------------------------------------
// objective families: the AD version (library scalars, any element type the routine chooses) and
// the analytic value / gradient in plain float64

type objective struct {
	name      string
	n         int
	desc      string
	ad        func(x ConstVector) (MagicScalar, error)
	val       func(x []float64) float64
	grad      func(x []float64) []float64
	minimiser []float64 // nil: not known in closed form
	lambdaMin float64   // smallest Hessian eigenvalue (quadratics)
	lambdaMax float64
}

func cf(v float64) ConstScalar { return ConstFloat64(v) }

func quadratic(t *rapid.T) objective {
	n := rapid.IntRange(1, 4).Draw(t, "n")
	q := gen.Orthogonal(t, "Q", n)
	lam, _ := gen.Spectrum(t, "lambda", n, 3)
	for i := range lam {
		lam[i] = math.Abs(lam[i])
		if lam[i] < 1e-3 {
			lam[i] = 1e-3
		}
	}
	a := model.NewMat(n, n)
	for i := 0; i < n; i++ {
		for j := 0; j < n; j++ {
			for k := 0; k < n; k++ {
				a[i][j] += q[i][k] * lam[k] * q[j][k]
			}
		}
	}
	for i := 0; i < n; i++ {
		for j := 0; j < i; j++ {
			a[i][j] = a[j][i]
		}
	}
	c := make([]float64, n)
	for i := range c {
		c[i] = rapid.Float64Range(-2, 2).Draw(t, fmt.Sprintf("c[%d]", i))
	}
	lmin, lmax := math.Inf(1), 0.0
	for _, l := range lam {
		lmin, lmax = math.Min(lmin, l), math.Max(lmax, l)
	}
	o := objective{name: "quadratic", n: n, desc: fmt.Sprintf("quadratic A=%v c=%v", a, c), minimiser: c, lambdaMin: lmin, lambdaMax: lmax}
	o.val = func(x []float64) float64 {
		s := 0.0
		for i := 0; i < n; i++ {
			for j := 0; j < n; j++ {
				s += 0.5 * a[i][j] * (x[i] - c[i]) * (x[j] - c[j])
			}
		}
		return s
	}
	o.grad = func(x []float64) []float64 {
		g := make([]float64, n)
		for i := 0; i < n; i++ {
			for j := 0; j < n; j++ {
				g[i] += a[i][j] * (x[j] - c[j])
			}
		}
		return g
	}
	o.ad = func(x ConstVector) (MagicScalar, error) {
		ty := x.ElementType()
		d := make([]Scalar, n)
		for i := range d {
			d[i] = NullScalar(ty)
			d[i].Sub(x.ConstAt(i), cf(c[i]))
		}
		r := NullScalar(ty)
		tt := NullScalar(ty)
		for i := 0; i < n; i++ {
			for j := 0; j < n; j++ {
				tt.Mul(d[i], d[j])
				tt.Mul(tt, cf(0.5*a[i][j]))
				r.Add(r, tt)
			}
		}
		return r.(MagicScalar), nil
	}
	return o
}

func rosenbrock(t *rapid.T) objective {
	a := rapid.Float64Range(0.5, 2).Draw(t, "a")
	b := rapid.Float64Range(1, 50).Draw(t, "b")
	o := objective{name: "rosenbrock", n: 2, desc: fmt.Sprintf("rosenbrock a=%v b=%v", a, b), minimiser: []float64{a, a * a}}
	o.val = func(x []float64) float64 { return (a-x[0])*(a-x[0]) + b*(x[1]-x[0]*x[0])*(x[1]-x[0]*x[0]) }
	o.grad = func(x []float64) []float64 {
		u := x[1] - x[0]*x[0]
		return []float64{-2*(a-x[0]) - 4*b*u*x[0], 2 * b * u}
	}
	o.ad = func(x ConstVector) (MagicScalar, error) {
		ty := x.ElementType()
		t1, t2, r := NullScalar(ty), NullScalar(ty), NullScalar(ty)
		t1.Sub(cf(a), x.ConstAt(0))
		t1.Mul(t1, t1)
		t2.Mul(x.ConstAt(0), x.ConstAt(0))
		t2.Sub(x.ConstAt(1), t2)
		t2.Mul(t2, t2)
		t2.Mul(t2, cf(b))
		r.Add(t1, t2)
		return r.(MagicScalar), nil
	}
	return o
}

func quartic(t *rapid.T) objective {
	n := rapid.IntRange(1, 4).Draw(t, "n")
	c, w := make([]float64, n), make([]float64, n)
	for i := range c {
		c[i] = rapid.Float64Range(-2, 2).Draw(t, fmt.Sprintf("c[%d]", i))
		w[i] = rapid.Float64Range(0.2, 5).Draw(t, fmt.Sprintf("w[%d]", i))
	}
	o := objective{name: "separable quartic", n: n, desc: fmt.Sprintf("sum w(d^2+0.1 d^4) w=%v c=%v", w, c), minimiser: c}
	o.val = func(x []float64) float64 {
		s := 0.0
		for i := range x {
			d := x[i] - c[i]
			s += w[i] * (d*d + 0.1*d*d*d*d)
		}
		return s
	}
	o.grad = func(x []float64) []float64 {
		g := make([]float64, n)
		for i := range x {
			d := x[i] - c[i]
			g[i] = w[i] * (2*d + 0.4*d*d*d)
		}
		return g
	}
	o.ad = func(x ConstVector) (MagicScalar, error) {
		ty := x.ElementType()
		r, d, d2, d4 := NullScalar(ty), NullScalar(ty), NullScalar(ty), NullScalar(ty)
		for i := 0; i < n; i++ {
			d.Sub(x.ConstAt(i), cf(c[i]))
			d2.Mul(d, d)
			d4.Mul(d2, d2)
			d4.Mul(d4, cf(0.1))
			d2.Add(d2, d4)
			d2.Mul(d2, cf(w[i]))
			r.Add(r, d2)
		}
		return r.(MagicScalar), nil
	}
	return o
}

func logistic(t *rapid.T) objective {
	n := rapid.IntRange(1, 3).Draw(t, "n")
	m := rapid.IntRange(2, 8).Draw(t, "observations")
	z := model.NewMat(m, n)
	y := make([]float64, m)
	for i := 0; i < m; i++ {
		for j := 0; j < n; j++ {
			z[i][j] = rapid.Float64Range(-2, 2).Draw(t, fmt.Sprintf("z[%d][%d]", i, j))
		}
		y[i] = float64(2*rapid.IntRange(0, 1).Draw(t, fmt.Sprintf("y[%d]", i)) - 1)
	}
	lambda := rapid.Float64Range(0.1, 2).Draw(t, "ridge")
	o := objective{name: "ridge logistic", n: n, desc: fmt.Sprintf("logistic z=%v y=%v ridge=%v", z, y, lambda)}
	margin := func(x []float64, i int) float64 {
		s := 0.0
		for j := 0; j < n; j++ {
			s += z[i][j] * x[j]
		}
		return y[i] * s
	}
	o.val = func(x []float64) float64 {
		s := 0.0
		for i := 0; i < m; i++ {
			u := -margin(x, i)
			// log(1+exp(u))
			if u > 0 {
				s += u + math.Log1p(math.Exp(-u))
			} else {
				s += math.Log1p(math.Exp(u))
			}
		}
		for j := 0; j < n; j++ {
			s += 0.5 * lambda * x[j] * x[j]
		}
		return s
	}
	o.grad = func(x []float64) []float64 {
		g := make([]float64, n)
		for i := 0; i < m; i++ {
			sg := 1 / (1 + math.Exp(margin(x, i))) // sigma(-margin)
			for j := 0; j < n; j++ {
				g[j] -= sg * y[i] * z[i][j]
			}
		}
		for j := 0; j < n; j++ {
			g[j] += lambda * x[j]
		}
		return g
	}
	o.ad = func(x ConstVector) (MagicScalar, error) {
		ty := x.ElementType()
		r, u, tt := NullScalar(ty), NullScalar(ty), NullScalar(ty)
		for i := 0; i < m; i++ {
			u.Reset()
			for j := 0; j < n; j++ {
				tt.Mul(x.ConstAt(j), cf(-y[i]*z[i][j]))
				u.Add(u, tt)
			}
			// log(1+exp(u)) in the overflow-free form the library offers
			u.Log1pExp(u)
			r.Add(r, u)
		}
		for j := 0; j < n; j++ {
			tt.Mul(x.ConstAt(j), x.ConstAt(j))
			tt.Mul(tt, cf(0.5*lambda))
			r.Add(r, tt)
		}
		return r.(MagicScalar), nil
	}
	return o
}

func drawObjective(t *rapid.T, kinds ...string) objective {
	if len(kinds) == 0 {
		kinds = []string{"quadratic", "quadratic", "rosenbrock", "separable quartic", "ridge logistic"}
	}
	switch rapid.SampledFrom(kinds).Draw(t, "objective") {
	case "quadratic":
		return quadratic(t)
	case "rosenbrock":
		return rosenbrock(t)
	case "separable quartic":
		return quartic(t)
	default:
		return logistic(t)
	}
}

func norm(v []float64) float64 {
	s := 0.0
	for _, x := range v {
		s += x * x
	}
	return math.Sqrt(s)
}

func floats(v ConstVector) []float64 {
	r := make([]float64, v.Dim())
	for i := range r {
		r[i] = v.ConstAt(i).GetFloat64()
	}
	return r
}

// half-space constraint a.x <= b that contains the start
type halfspace struct {
	a []float64
	b float64
}

func (h halfspace) ok(x []float64) bool {
	s := 0.0
	for i := range x {
		s += h.a[i] * x[i]
	}
	return s <= h.b
}

func drawHalfspace(t *rapid.T, x0 []float64) *halfspace {
	if rapid.IntRange(0, 2).Draw(t, "constrained") != 0 {
		return nil
	}
	h := halfspace{a: make([]float64, len(x0))}
	s := 0.0
	for i := range h.a {
		h.a[i] = rapid.Float64Range(-1, 1).Draw(t, fmt.Sprintf("ha[%d]", i))
		s += h.a[i] * x0[i]
	}
	h.b = s + rapid.Float64Range(0.05, 3).Draw(t, "hslack")
	return &h
}

// hook bookkeeping shared by all routines
type hookLog struct {
	calls    int
	stopAt   int // hook returns true at this call (0: never)
	stopped  bool
	mismatch string
}

func (h *hookLog) check(o objective, x, g []float64, y float64, haveY bool) bool {
	h.calls++
	if h.mismatch == "" {
		gw := o.grad(x)
		sc := 1 + norm(gw)
		for i := range gw {
			if math.Abs(g[i]-gw[i]) > 1e-7*sc {
				h.mismatch = fmt.Sprintf("hook call %d: gradient %v passed with x=%v, the gradient there is %v", h.calls, g, x, gw)
			}
		}
		if yw := o.val(x); haveY && math.Abs(y-yw) > 1e-8*(1+math.Abs(yw)) {
			h.mismatch = fmt.Sprintf("hook call %d: value %v passed with x=%v, the function value there is %v", h.calls, y, x, yw)
		}
	}
	if h.stopAt > 0 && h.calls >= h.stopAt {
		h.stopped = true
		return true
	}
	return false
}

// ---------------------------------------------------------------------------------------------
// (a) minimisers: BFGS, Newton (min / crit), Rprop, gradient descent, Adam

var minimisers = []string{"bfgs", "newton.RunMin", "newton.RunCrit", "rprop", "gradientDescent", "adam", "rprop.RunGradient", "adam.RunGradient"}

func TestC07_minimisers_meet_stop_condition(t *testing.T) {
	rapid.Check(t, func(t *rapid.T) {
		routine := rapid.SampledFrom(minimisers).Draw(t, "routine")
		var o objective
		switch routine {
		case "gradientDescent", "adam", "adam.RunGradient":
			o = drawObjective(t, "quadratic", "separable quartic", "ridge logistic")
		default:
			o = drawObjective(t)
		}
		x0 := make([]float64, o.n)
		for i := range x0 {
			x0[i] = rapid.Float64Range(-3, 3).Draw(t, fmt.Sprintf("x0[%d]", i))
		}
		eps := math.Pow(10, -float64(rapid.IntRange(3, 10).Draw(t, "epsExp")))
		maxIt := rapid.SampledFrom([]int{3, 50, 2000, 100000}).Draw(t, "maxIterations")
		hs := drawHalfspace(t, x0)
		if routine == "gradientDescent" {
			hs = nil // the routine has no constraints option
		}
		hl := &hookLog{}
		if rapid.IntRange(0, 5).Draw(t, "hookStops") == 0 {
			hl.stopAt = rapid.IntRange(1, 6).Draw(t, "hookStopAt")
		}
		hmod := rapid.SampledFrom([]string{"None", "LDL", "Eigenvalue"}).Draw(t, "hessianModification")
		// all draws happen here, on the test goroutine (the routine itself runs under a watchdog)
		rpropStep := rapid.Float64Range(0.001, 0.5).Draw(t, "stepInit")
		rpropEta := []float64{rapid.Float64Range(1.05, 1.5).Draw(t, "etaPlus"), rapid.Float64Range(0.3, 0.9).Draw(t, "etaMinus")}
		gdFactor := rapid.Float64Range(0.05, 1.2).Draw(t, "stepFactor")
		adamStep := rapid.Float64Range(0.001, 0.1).Draw(t, "stepSize")
		c := obs.Begin("minimisers_meet_stop_condition", "%s on %s x0=%v eps=%g maxIterations=%d halfspace=%v hookStopAt=%d hessianModification=%s", routine, o.desc, x0, eps, maxIt, hs, hl.stopAt, hmod)
		c.Classf("routine=%s", routine)
		c.Classf("objective=%s", o.name)
		constraintHit := false
		cons := func(x Vector) bool {
			if hs == nil {
				return true
			}
			ok := hs.ok(floats(x))
			if !ok {
				constraintHit = true
			}
			return ok
		}
		x0v := NewDenseFloat64Vector(x0)
		var res Vector
		var err error
		capKnown := true // whether "capped" can be decided from the number of hook calls
		run := func() {
			switch routine {
			case "bfgs":
				args := []interface{}{bfgs.Epsilon{Value: eps}, bfgs.MaxIterations{Value: maxIt},
					bfgs.Hook{Value: func(x, g ConstVector, y ConstScalar) bool {
						return hl.check(o, floats(x), floats(g), y.GetFloat64(), true)
					}}}
				if hs != nil {
					args = append(args, bfgs.Constraints{Value: cons})
				}
				res, err = bfgs.Run(o.ad, x0v, args...)
			case "newton.RunMin":
				args := []interface{}{newton.Epsilon{Value: eps}, newton.MaxIterations{Value: maxIt}, newton.HessianModification{Value: hmod},
					newton.HookMin{Value: func(x, g ConstVector, H ConstMatrix, y ConstScalar) bool {
						return hl.check(o, floats(x), floats(g), y.GetFloat64(), true)
					}}}
				if hs != nil {
					args = append(args, newton.Constraints{Value: cons})
				}
				c.Classf("hessianModification=%s", hmod)
				res, err = newton.RunMin(o.ad, x0v, args...)
			case "newton.RunCrit":
				args := []interface{}{newton.Epsilon{Value: eps}, newton.MaxIterations{Value: maxIt}, newton.HessianModification{Value: "None"},
					newton.HookCrit{Value: func(x ConstVector, H ConstMatrix, g ConstVector) bool {
						return hl.check(o, floats(x), floats(g), 0, false)
					}}}
				if hs != nil {
					args = append(args, newton.Constraints{Value: cons})
				}
				res, err = newton.RunCrit(o.ad, x0v, args...)
			case "rprop":
				step, eta := rpropStep, rpropEta
				args := []interface{}{rprop.Epsilon{Value: eps}, rprop.MaxIterations{Value: maxIt},
					rprop.Hook{Value: func(g, step []float64, x ConstVector, y ConstScalar) bool {
						return hl.check(o, floats(x), append([]float64{}, g...), y.GetFloat64(), true)
					}}}
				if hs != nil {
					args = append(args, rprop.Constraints{Value: cons})
				}
				res, err = rprop.Run(o.ad, x0v, step, eta, args...)
			case "rprop.RunGradient":
				// the variant that is handed a gradient function on plain float vectors
				step, eta := rpropStep, rpropEta
				gf := rprop.DenseGradientF(func(x, g DenseFloat64Vector) error {
					copy(g, o.grad(x))
					return nil
				})
				args := []interface{}{rprop.Epsilon{Value: eps}, rprop.MaxIterations{Value: maxIt},
					rprop.Hook{Value: func(g, step []float64, x ConstVector, y ConstScalar) bool {
						return hl.check(o, floats(x), append([]float64{}, g...), 0, false)
					}}}
				if hs != nil {
					args = append(args, rprop.ConstConstraints{Value: func(x ConstVector) bool {
						ok := hs.ok(floats(x))
						if !ok {
							constraintHit = true
						}
						return ok
					}})
				}
				var r ConstVector
				r, err = rprop.RunGradient(gf, DenseFloat64Vector(append([]float64{}, x0...)), step, eta, args...)
				if r != nil {
					res = NewDenseFloat64Vector(floats(r))
				}
			case "adam.RunGradient":
				gf := adam.DenseGradientF(func(x, g DenseFloat64Vector) error {
					copy(g, o.grad(x))
					return nil
				})
				args := []interface{}{adam.Epsilon{Value: eps}, adam.MaxIterations{Value: maxIt}, adam.StepSize{Value: adamStep},
					adam.Hook{Value: func(x, g ConstVector, y ConstScalar) bool { return hl.check(o, floats(x), floats(g), 0, false) }}}
				if hs != nil {
					args = append(args, adam.ConstConstraints{Value: func(x ConstVector) bool {
						ok := hs.ok(floats(x))
						if !ok {
							constraintHit = true
						}
						return ok
					}})
				}
				var r ConstVector
				r, err = adam.RunGradient(gf, DenseFloat64Vector(append([]float64{}, x0...)), args...)
				if r != nil {
					res = NewDenseFloat64Vector(floats(r))
				}
			case "gradientDescent":
				// no iteration cap in the interface: the hook enforces one
				hl2 := hl
				if hl2.stopAt == 0 || hl2.stopAt > maxIt {
					hl2.stopAt = maxIt
				}
				lmax := o.lambdaMax
				if lmax == 0 {
					lmax = 30
				}
				step := gdFactor / lmax
				res, err = gradientDescent.Run(o.ad, x0v, step, gradientDescent.Epsilon{Value: eps},
					gradientDescent.Hook{Value: func(g []float64, x ConstVector, y ConstScalar) bool {
						return hl.check(o, floats(x), append([]float64{}, g...), y.GetFloat64(), true)
					}})
			case "adam":
				step := adamStep
				args := []interface{}{adam.Epsilon{Value: eps}, adam.MaxIterations{Value: maxIt}, adam.StepSize{Value: step},
					adam.Hook{Value: func(x, g ConstVector, y ConstScalar) bool {
						return hl.check(o, floats(x), floats(g), y.GetFloat64(), true)
					}}}
				if hs != nil {
					args = append(args, adam.Constraints{Value: cons})
				}
				res, err = adam.Run(o.ad, x0v, args...)
			}
		}
		p, to := guarded(run)
		if to {
			c.Class("inconclusive: watchdog (termination is C20's subject)")
			c.End()
			return
		}
		if p != "" {
			if routine == "gradientDescent" && p == "panic: Gradient descent diverged!" {
				c.Class("gradient descent diverged (documented panic)")
				c.End()
				return
			}
			t.Fatalf("%s: %s", c.Desc(), p)
		}
		if constraintHit {
			c.Class("constraint rejected a trial point")
		}
		if hl.mismatch != "" {
			t.Fatalf("%s: %s", c.Desc(), hl.mismatch)
		}
		if err != nil {
			c.Class("routine reported an error")
			c.End()
			return
		}
		xr := floats(res)
		for _, v := range xr {
			if math.IsNaN(v) {
				t.Fatalf("%s: returned %v without error", c.Desc(), xr)
			}
		}
		if hs != nil && !hs.ok(xr) {
			t.Fatalf("%s: returned %v without error although it violates the constraint %v", c.Desc(), xr, *hs)
		}
		// bfgs does not call its hook in iterations whose line search failed: only a huge cap that
		// cannot have been reached makes "not capped" certain
		// (an iteration without hook call is a failed line search that resets the Hessian
		// approximation; the steepest-descent iteration after it calls the hook, so at most every
		// second iteration goes uncounted)
		if routine == "bfgs" && (maxIt < 100000 || 2*hl.calls+2 >= maxIt) {
			capKnown = false
		}
		if !capKnown {
			c.Class("cap cannot be excluded (stop condition not asserted)")
			c.End()
			return
		}
		capped := hl.calls >= maxIt
		switch {
		case hl.stopped:
			c.Class("hook requested the stop (stop condition not asserted)")
		case capped:
			c.Class("iteration cap reached (stop condition not asserted)")
		default:
			c.NT(hl.calls >= 2)
			g := o.grad(xr)
			sc := 0.0
			for i := range g {
				sc += math.Abs(g[i])
			}
			if gn := norm(g); !(gn < eps*(1+1e-6)+1e-12*(1+norm(o.grad(x0)))) {
				t.Fatalf("%s: returned %v after %d iterations without error, cap or hook stop, but the gradient there has norm %g (stopping threshold %g)", c.Desc(), xr, hl.calls, gn, eps)
			}
			if o.name == "quadratic" {
				d := 0.0
				for i := range xr {
					d += (xr[i] - o.minimiser[i]) * (xr[i] - o.minimiser[i])
				}
				if d = math.Sqrt(d); d > eps/o.lambdaMin*(1+1e-6)+1e-12 {
					t.Fatalf("%s: returned %v, distance %g from the minimiser %v (bound eps/lambda_min = %g)", c.Desc(), xr, d, o.minimiser, eps/o.lambdaMin)
				}
			}
			c.Class("converged: stop condition verified")
		}
		c.End()
	})
}

// ---------------------------------------------------------------------------------------------
// (b) Newton root finding on polynomial systems with a known root

func TestC07_newton_root(t *testing.T) {
	rapid.Check(t, func(t *rapid.T) {
		n := rapid.IntRange(1, 3).Draw(t, "n")
		root := make([]float64, n)
		x0 := make([]float64, n)
		for i := range root {
			root[i] = rapid.Float64Range(-2, 2).Draw(t, fmt.Sprintf("root[%d]", i))
			x0[i] = root[i] + rapid.Float64Range(-0.5, 0.5).Draw(t, fmt.Sprintf("dx[%d]", i))
		}
		// F_i(x) = sum_j B_ij (x_j - r_j) + q_i (x_i - r_i)^2 with B well conditioned
		q := gen.Orthogonal(t, "Q", n)
		b := model.NewMat(n, n)
		sc := make([]float64, n)
		quad := make([]float64, n)
		for i := range sc {
			sc[i] = rapid.Float64Range(0.5, 3).Draw(t, fmt.Sprintf("s[%d]", i))
			quad[i] = rapid.Float64Range(-0.5, 0.5).Draw(t, fmt.Sprintf("q[%d]", i))
		}
		for i := 0; i < n; i++ {
			for j := 0; j < n; j++ {
				b[i][j] = q[i][j] * sc[j]
			}
		}
		F := func(x []float64) []float64 {
			r := make([]float64, n)
			for i := 0; i < n; i++ {
				for j := 0; j < n; j++ {
					r[i] += b[i][j] * (x[j] - root[j])
				}
				r[i] += quad[i] * (x[i] - root[i]) * (x[i] - root[i])
			}
			return r
		}
		eps := math.Pow(10, -float64(rapid.IntRange(3, 11).Draw(t, "epsExp")))
		maxIt := rapid.SampledFrom([]int{2, 30, 1000}).Draw(t, "maxIterations")
		stopAt := 0
		if rapid.IntRange(0, 5).Draw(t, "hookStops") == 0 {
			stopAt = rapid.IntRange(1, 4).Draw(t, "hookStopAt")
		}
		c := obs.Begin("newton_root", "root of B(x-r)+q(x-r)^2 B=%v q=%v r=%v x0=%v eps=%g maxIterations=%d hookStopAt=%d", b, quad, root, x0, eps, maxIt, stopAt)
		c.Classf("n=%d", n)
		f := func(x ConstVector) (MagicVector, error) {
			ty := x.ElementType()
			r := NullDenseVector(ty, n)
			d, tt := NullScalar(ty), NullScalar(ty)
			for i := 0; i < n; i++ {
				for j := 0; j < n; j++ {
					d.Sub(x.ConstAt(j), cf(root[j]))
					tt.Mul(d, cf(b[i][j]))
					r.At(i).Add(r.At(i), tt)
				}
				d.Sub(x.ConstAt(i), cf(root[i]))
				tt.Mul(d, d)
				tt.Mul(tt, cf(quad[i]))
				r.At(i).Add(r.At(i), tt)
			}
			return r.(MagicVector), nil
		}
		calls, stopped, mismatch := 0, false, ""
		hook := newton.HookRoot{Value: func(x ConstVector, J ConstMatrix, y ConstVector) bool {
			calls++
			want := F(floats(x))
			for i, v := range floats(y) {
				if math.Abs(v-want[i]) > 1e-8*(1+norm(want)) && mismatch == "" {
					mismatch = fmt.Sprintf("hook call %d: residual %v passed with x=%v, the residual there is %v", calls, floats(y), floats(x), want)
				}
			}
			if stopAt > 0 && calls >= stopAt {
				stopped = true
				return true
			}
			return false
		}}
		var res Vector
		var err error
		p, to := guarded(func() {
			res, err = newton.RunRoot(f, NewDenseFloat64Vector(x0), newton.Epsilon{Value: eps}, newton.MaxIterations{Value: maxIt}, hook)
		})
		if to {
			c.Class("inconclusive: watchdog")
			c.End()
			return
		}
		if p != "" {
			t.Fatalf("%s: %s", c.Desc(), p)
		}
		if mismatch != "" {
			t.Fatalf("%s: %s", c.Desc(), mismatch)
		}
		if err != nil {
			c.Class("routine reported an error")
			c.End()
			return
		}
		xr := floats(res)
		switch {
		case stopped:
			c.Class("hook requested the stop")
		case calls >= maxIt:
			c.Class("iteration cap reached")
		default:
			c.NT(calls >= 2)
			if rn := norm(F(xr)); !(rn < eps*(1+1e-6)+1e-13) {
				t.Fatalf("%s: returned %v after %d iterations, the residual there has norm %g (stopping threshold %g)", c.Desc(), xr, calls, rn, eps)
			}
			c.Class("converged: stop condition verified")
		}
		c.End()
	})
}

// ---------------------------------------------------------------------------------------------
// (c) line search: strong Wolfe conditions at the returned step length

func TestC07_line_search_wolfe(t *testing.T) {
	rapid.Check(t, func(t *rapid.T) {
		o := drawObjective(t)
		x := make([]float64, o.n)
		for i := range x {
			x[i] = rapid.Float64Range(-3, 3).Draw(t, fmt.Sprintf("x[%d]", i))
		}
		// a descent direction: minus the gradient, randomly rescaled per coordinate
		g := o.grad(x)
		p := make([]float64, o.n)
		slope := 0.0
		for i := range p {
			p[i] = -g[i] * rapid.Float64Range(0.05, 4).Draw(t, fmt.Sprintf("scale[%d]", i))
			slope += p[i] * g[i]
		}
		alpha1 := rapid.SampledFrom([]float64{1, 1, 0.1, 10}).Draw(t, "alpha1")
		maxEval := rapid.SampledFrom([]int{3, 20, 100}).Draw(t, "maxEval")
		c := obs.Begin("line_search_wolfe", "%s x=%v p=%v alpha1=%v maxEval=%d", o.desc, x, p, alpha1, maxEval)
		c.Classf("objective=%s", o.name)
		if !(slope < -1e-12) {
			c.Class("start is (nearly) stationary")
			c.End()
			return
		}
		evals := 0
		phi := func(a ConstScalar) (MagicScalar, error) {
			evals++
			xa := NullDenseVector(a.Type(), o.n)
			tt := NullScalar(a.Type())
			for i := 0; i < o.n; i++ {
				tt.Mul(a, cf(p[i]))
				xa.At(i).Add(cf(x[i]), tt)
			}
			return o.ad(xa)
		}
		phiF := func(a float64) (float64, float64) {
			xa := make([]float64, o.n)
			for i := range xa {
				xa[i] = x[i] + a*p[i]
			}
			ga := o.grad(xa)
			d := 0.0
			for i := range ga {
				d += ga[i] * p[i]
			}
			return o.val(xa), d
		}
		var alpha Scalar
		var err error
		pp, to := guarded(func() {
			alpha, err = lineSearch.Run(phi, Float64Type, lineSearch.Parameters{Alpha1: alpha1, MaxEval: maxEval})
		})
		if to {
			c.Class("inconclusive: watchdog")
			c.End()
			return
		}
		if pp != "" {
			t.Fatalf("%s: %s", c.Desc(), pp)
		}
		if err != nil {
			c.Class("routine reported an error")
			c.End()
			return
		}
		if evals > maxEval {
			c.Class("evaluation cap reached (not asserted)")
			c.End()
			return
		}
		c.NT(evals >= 3)
		a := alpha.GetFloat64()
		y0, g0 := phiF(0)
		ya, ga := phiF(a)
		tol := 1e-10 * (1 + math.Abs(y0))
		if !(a > 0) {
			t.Fatalf("%s: returned the step length %v without error", c.Desc(), a)
		}
		if ya > y0+1e-4*a*g0+tol {
			t.Fatalf("%s: step length %v violates the sufficient decrease condition: phi(a)=%v, phi(0)+c1 a phi'(0)=%v", c.Desc(), a, ya, y0+1e-4*a*g0)
		}
		if math.Abs(ga) > -0.9*g0+1e-10*(1+math.Abs(g0)) {
			t.Fatalf("%s: step length %v violates the curvature condition: |phi'(a)|=%v > c2 |phi'(0)|=%v", c.Desc(), a, math.Abs(ga), -0.9*g0)
		}
		c.End()
	})
}

// ---------------------------------------------------------------------------------------------
// (d) SAGA: the returned point and the previous epoch's iterate satisfy the stopping rule
// max|dx| / max|x| <= epsilon*gamma; the delta handed to the hook is that quantity

func TestC07_saga_stop_rule(t *testing.T) {
	rapid.Check(t, func(t *rapid.T) {
		d := rapid.IntRange(1, 3).Draw(t, "dim")
		n := rapid.IntRange(2, 8).Draw(t, "n")
		z := model.NewMat(n, d)
		y := make([]float64, n)
		L := 0.0
		for i := 0; i < n; i++ {
			s := 0.0
			for j := 0; j < d; j++ {
				z[i][j] = rapid.Float64Range(-2, 2).Draw(t, fmt.Sprintf("z[%d][%d]", i, j))
				s += z[i][j] * z[i][j]
			}
			y[i] = rapid.Float64Range(-3, 3).Draw(t, fmt.Sprintf("y[%d]", i))
			L = math.Max(L, s)
		}
		gamma := rapid.Float64Range(0.05, 0.3).Draw(t, "gammaFactor") / math.Max(L, 0.1)
		eps := math.Pow(10, -float64(rapid.IntRange(2, 8).Draw(t, "epsExp")))
		maxIt := rapid.SampledFrom([]int{2, 20, 5000}).Draw(t, "maxIterations")
		reg := rapid.SampledFrom([]string{"none", "none", "l1", "l2", "tikhonov"}).Draw(t, "regularization")
		regv := rapid.Float64Range(0.01, 1).Draw(t, "lambda")
		useHook := rapid.Bool().Draw(t, "hook")
		seed := int64(rapid.IntRange(0, 1000).Draw(t, "seed"))
		x0 := make([]float64, d)
		for j := range x0 {
			x0[j] = rapid.Float64Range(-2, 2).Draw(t, fmt.Sprintf("x0[%d]", j))
		}
		kind := rapid.SampledFrom([]string{"1dense", "1dense", "2dense", "1sparse", "2sparse"}).Draw(t, "objective interface")
		c := obs.Begin("saga_stop_rule", "saga (%s) least squares z=%v y=%v x0=%v gamma=%v eps=%g maxIterations=%d reg=%s(%v) hook=%v seed=%d", kind, z, y, x0, gamma, eps, maxIt, reg, regv, useHook, seed)
		c.Classf("regularization=%s", reg)
		c.Classf("objective interface=%s", kind)
		if useHook {
			c.Class("hook set")
		}
		rows := make([]DenseFloat64Vector, n)
		for i := range rows {
			rows[i] = NewDenseFloat64Vector(z[i])
		}
		resid := func(i int, x DenseFloat64Vector) float64 {
			r := -y[i]
			for j := 0; j < d; j++ {
				r += z[i][j] * x[j]
			}
			return r
		}
		idx := make([]int, d)
		for j := range idx {
			idx[j] = j
		}
		f1d := saga.Objective1Dense(func(i int, x DenseFloat64Vector) (float64, float64, DenseFloat64Vector, error) {
			r := resid(i, x)
			return 0.5 * r * r, r, rows[i], nil
		})
		// the four objective interfaces describe the same function: value + derivative factor + data row
		// (1) or value + gradient (2), rows dense or sparse
		var f interface{} = f1d
		switch kind {
		case "2dense":
			f = saga.Objective2Dense(func(i int, x DenseFloat64Vector) (float64, DenseFloat64Vector, error) {
				r := resid(i, x)
				g := make([]float64, d)
				for j := range g {
					g[j] = r * z[i][j]
				}
				return 0.5 * r * r, NewDenseFloat64Vector(g), nil
			})
		case "1sparse":
			f = saga.Objective1Sparse(func(i int, x DenseFloat64Vector) (float64, float64, SparseConstFloat64Vector, error) {
				r := resid(i, x)
				return 0.5 * r * r, r, NewSparseConstFloat64Vector(idx, z[i], d), nil
			})
		case "2sparse":
			f = saga.Objective2Sparse(func(i int, x DenseFloat64Vector) (float64, SparseConstFloat64Vector, error) {
				r := resid(i, x)
				g := make([]float64, d)
				for j := range g {
					g[j] = r * z[i][j]
				}
				return 0.5 * r * r, NewSparseConstFloat64Vector(idx, g, d), nil
			})
		}
		args := []interface{}{saga.Gamma{Value: gamma}, saga.Epsilon{Value: eps}, saga.MaxIterations{Value: maxIt}, saga.Seed{Value: seed}}
		switch reg {
		case "l1":
			args = append(args, saga.L1Regularization{Value: regv})
		case "l2":
			args = append(args, saga.L2Regularization{Value: regv})
		case "tikhonov":
			args = append(args, saga.TikhonovRegularization{Value: regv})
		}
		prev := append([]float64{}, x0...)
		epochs := 0
		mismatch := ""
		if useHook {
			args = append(args, saga.Hook{Value: func(x ConstVector, delta, lambda ConstScalar, epoch int) bool {
				epochs++
				cur := floats(x)
				mx, md := 0.0, 0.0
				for j := range cur {
					mx = math.Max(mx, math.Abs(cur[j]))
					md = math.Max(md, math.Abs(cur[j]-prev[j]))
				}
				want := md
				if mx != 0 {
					want = md / mx
				}
				if math.Abs(delta.GetFloat64()-want) > 1e-12*(1+want) && mismatch == "" {
					mismatch = fmt.Sprintf("hook at epoch %d: delta %v passed with x=%v, the relative change from the previous epoch's iterate %v is %v", epoch, delta.GetFloat64(), cur, prev, want)
				}
				prev = cur
				return false
			}})
		}
		var res Vector
		var err error
		p, to := guarded(func() { res, _, err = saga.Run(f, n, NewDenseFloat64Vector(x0), args...) })
		if to {
			c.Class("inconclusive: watchdog")
			c.End()
			return
		}
		if p != "" {
			if useHook && reg == "none" && c.Known("C07/saga-hook-without-regularisation-dereferences-nil") {
				c.End()
				return
			}
			t.Fatalf("%s: %s", c.Desc(), p)
		}
		if mismatch != "" {
			t.Fatalf("%s: %s", c.Desc(), mismatch)
		}
		if err != nil {
			c.Class("routine reported an error")
			c.End()
			return
		}
		xr := floats(res)
		if kind != "1dense" {
			// the same objective through the dense interface of kind 1, same seed: the same iterates
			args1 := []interface{}{saga.Gamma{Value: gamma}, saga.Epsilon{Value: eps}, saga.MaxIterations{Value: maxIt}, saga.Seed{Value: seed}}
			switch reg {
			case "l1":
				args1 = append(args1, saga.L1Regularization{Value: regv})
			case "l2":
				args1 = append(args1, saga.L2Regularization{Value: regv})
			case "tikhonov":
				args1 = append(args1, saga.TikhonovRegularization{Value: regv})
			}
			var ref Vector
			var err1 error
			p1, to1 := guarded(func() { ref, _, err1 = saga.Run(f1d, n, NewDenseFloat64Vector(x0), args1...) })
			if !to1 && p1 == "" && err1 == nil {
				xw := floats(ref)
				for j := range xw {
					if math.Abs(xw[j]-xr[j]) > 1e-9*(1+math.Abs(xw[j])) {
						t.Fatalf("%s: the %s interface returns %v, the dense interface of kind 1 returns %v for the same objective, options and seed", c.Desc(), kind, xr, xw)
					}
				}
				c.Class("agrees with the dense interface of kind 1")
			}
		}
		if useHook && epochs < maxIt {
			// stopped by its rule in epoch `epochs`: compare with the iterate of the previous epoch
			c.NT(epochs >= 2)
			mx, md := 0.0, 0.0
			for j := range xr {
				mx = math.Max(mx, math.Abs(xr[j]))
				md = math.Max(md, math.Abs(xr[j]-prev[j]))
			}
			if !(mx == 0 && md == 0) && !(mx != 0 && md/mx <= eps*gamma*(1+1e-9)) {
				t.Fatalf("%s: stopped after %d epochs at %v; the previous epoch's iterate was %v: relative change %g exceeds epsilon*gamma = %g", c.Desc(), epochs+1, xr, prev, md/mx, eps*gamma)
			}
			c.Class("converged: stop rule verified")
			// the regulariser asked for is the one that was applied: at a point where SAGA's own
			// (tight) step rule holds, the proximal-gradient fixed-point residual of the objective
			// (1/n) [sum_i f_i(x) + lambda R(x)] is small
			if eps <= 1e-6 {
				g := make([]float64, d)
				for i := 0; i < n; i++ {
					r := -y[i]
					for j := 0; j < d; j++ {
						r += z[i][j] * xr[j]
					}
					for j := 0; j < d; j++ {
						g[j] += r * z[i][j] / float64(n)
					}
				}
				w := make([]float64, d)
				for j := range w {
					w[j] = xr[j] - gamma*g[j]
				}
				tau := gamma * regv / float64(n)
				px := make([]float64, d)
				switch reg {
				case "none":
					copy(px, w)
				case "l1":
					for j := range w {
						switch {
						case w[j] > tau:
							px[j] = w[j] - tau
						case w[j] < -tau:
							px[j] = w[j] + tau
						}
					}
				case "l2":
					if nw := norm(w); nw > tau {
						for j := range w {
							px[j] = w[j] * (1 - tau/nw)
						}
					}
				case "tikhonov":
					for j := range w {
						px[j] = w[j] / (1 + tau)
					}
				}
				res := 0.0
				for j := range px {
					// thresholding regularisers keep a coordinate (l1) or the whole vector (l2) at
					// exactly 0 as long as every single stochastic step stays below the threshold,
					// although the full gradient may exceed it slightly: SAGA's step rule holds there
					// without stationarity, so those coordinates are not asserted
					if (reg == "l1" && xr[j] == 0) || (reg == "l2" && norm(xr) == 0) {
						continue
					}
					res = math.Max(res, math.Abs(xr[j]-px[j])/gamma)
				}
				if res > 1e-3*(1+norm(g)+regv*norm(xr)/float64(n)) {
					t.Fatalf("%s: stopped by its own rule at %v, but that point is not a fixed point of the proximal gradient step for the requested regularisation (%s, lambda=%v): residual %g", c.Desc(), xr, reg, regv, res)
				}
				c.Class("fixed point of the regularised problem verified")
			}
		} else if useHook {
			c.Class("iteration cap reached")
		}
		for _, v := range xr {
			if math.IsNaN(v) || math.IsInf(v, 0) {
				t.Fatalf("%s: returned %v without error", c.Desc(), xr)
			}
		}
		c.End()
	})
}

// ---------------------------------------------------------------------------------------------
// (e) Blahut-Arimoto: after K steps from a full-support start the mutual information of the
// returned input distribution is within the classical bound of the capacity

func mutualInformation(w model.Mat, p []float64) float64 {
	n, m := w.Dims()
	q := make([]float64, m)
	for i := 0; i < n; i++ {
		for j := 0; j < m; j++ {
			q[j] += p[i] * w[i][j]
		}
	}
	s := 0.0
	for i := 0; i < n; i++ {
		for j := 0; j < m; j++ {
			if p[i] > 0 && w[i][j] > 0 {
				s += p[i] * w[i][j] * math.Log(w[i][j]/q[j])
			}
		}
	}
	return s
}

// reference capacity (nats): plain Blahut-Arimoto until upper and lower bound agree
func capacity(w model.Mat) float64 {
	n, m := w.Dims()
	p := make([]float64, n)
	for i := range p {
		p[i] = 1 / float64(n)
	}
	for it := 0; it < 200000; it++ {
		q := make([]float64, m)
		for i := 0; i < n; i++ {
			for j := 0; j < m; j++ {
				q[j] += p[i] * w[i][j]
			}
		}
		dv := make([]float64, n)
		lower, upper := 0.0, math.Inf(-1)
		for i := 0; i < n; i++ {
			for j := 0; j < m; j++ {
				if w[i][j] > 0 {
					dv[i] += w[i][j] * math.Log(w[i][j]/q[j])
				}
			}
			lower += p[i] * dv[i]
			upper = math.Max(upper, dv[i])
		}
		if upper-lower < 1e-13 {
			return lower
		}
		z := 0.0
		for i := range p {
			p[i] *= math.Exp(dv[i])
			z += p[i]
		}
		for i := range p {
			p[i] /= z
		}
	}
	return math.NaN()
}

func TestC07_blahut_capacity(t *testing.T) {
	rapid.Check(t, func(t *rapid.T) {
		n := rapid.IntRange(2, 4).Draw(t, "inputs")
		m := rapid.IntRange(2, 4).Draw(t, "outputs")
		w := model.NewMat(n, m)
		for i := 0; i < n; i++ {
			s := 0.0
			for j := 0; j < m; j++ {
				if rapid.IntRange(0, 3).Draw(t, "zero") != 0 {
					w[i][j] = rapid.Float64Range(0.05, 1).Draw(t, fmt.Sprintf("w[%d][%d]", i, j))
				}
				s += w[i][j]
			}
			if s == 0 {
				w[i][0], s = 1, 1
			}
			for j := 0; j < m; j++ {
				w[i][j] /= s
			}
		}
		steps := rapid.SampledFrom([]int{1, 5, 50, 500}).Draw(t, "steps")
		c := obs.Begin("blahut_capacity", "channel=%v steps=%d", w, steps)
		c.Classf("steps=%d", steps)
		c.NT(steps >= 5)
		cref := capacity(w)
		if math.IsNaN(cref) {
			c.Class("reference did not converge")
			c.End()
			return
		}
		p0 := make([]float64, n)
		for i := range p0 {
			p0[i] = 1 / float64(n)
		}
		var res Vector
		var naive []float64
		pp, to := guarded(func() {
			res = blahut.Run(gen.ToDense(gen.TFloat64, w), NewDenseFloat64Vector(p0), steps)
			naive = blahut.RunNaive(w, append([]float64{}, p0...), steps)
		})
		if to {
			c.Class("inconclusive: watchdog")
			c.End()
			return
		}
		if pp != "" {
			t.Fatalf("%s: %s", c.Desc(), pp)
		}
		p := floats(res)
		s := 0.0
		for i, v := range p {
			if !(v >= 0) {
				t.Fatalf("%s: returned %v: not a probability vector", c.Desc(), p)
			}
			s += v
			if math.Abs(v-naive[i]) > 1e-9 {
				t.Fatalf("%s: Run gives %v, RunNaive gives %v", c.Desc(), p, naive)
			}
		}
		if math.Abs(s-1) > 1e-12 {
			t.Fatalf("%s: returned %v sums to %v", c.Desc(), p, s)
		}
		mi := mutualInformation(w, p)
		if mi > cref+1e-9 {
			t.Fatalf("%s: I(p;W) = %v exceeds the capacity %v", c.Desc(), mi, cref)
		}
		if bound := cref - math.Log(float64(n))/float64(steps) - 1e-9; mi < bound {
			t.Fatalf("%s: after %d steps from the uniform distribution I(p;W) = %v, below the guaranteed C - log(n)/K = %v (capacity %v)", c.Desc(), steps, mi, bound, cref)
		}
		c.End()
	})
}

// ---------------------------------------------------------------------------------------------
// witnesses

func simpleQuadratic(c []float64) objective {
	n := len(c)
	o := objective{name: "quadratic", n: n, minimiser: c, lambdaMin: 1, lambdaMax: 1}
	o.val = func(x []float64) float64 {
		s := 0.0
		for i := range x {
			s += 0.5 * (x[i] - c[i]) * (x[i] - c[i])
		}
		return s
	}
	o.grad = func(x []float64) []float64 {
		g := make([]float64, n)
		for i := range x {
			g[i] = x[i] - c[i]
		}
		return g
	}
	o.ad = func(x ConstVector) (MagicScalar, error) {
		ty := x.ElementType()
		r, d := NullScalar(ty), NullScalar(ty)
		for i := 0; i < n; i++ {
			d.Sub(x.ConstAt(i), cf(c[i]))
			d.Mul(d, d)
			d.Mul(d, cf(0.5))
			r.Add(r, d)
		}
		return r.(MagicScalar), nil
	}
	return o
}

func TestKF_newton_eigenvalue_modification(t *testing.T) {
	o := simpleQuadratic([]float64{1, 2})
	p, _ := guarded(func() {
		newton.RunMin(o.ad, NewDenseFloat64Vector([]float64{0, 0.5}), newton.HessianModification{Value: "Eigenvalue"}, newton.MaxIterations{Value: 5})
	})
	obs.KFStatus("C07/newton-eigenvalue-hessian-modification-dereferences-nil", p != "", p)
}

func TestKF_bfgs_ignores_constraints(t *testing.T) {
	o := simpleQuadratic([]float64{1, 1})
	hs := halfspace{a: []float64{1, 1}, b: 1.75}
	res, err := bfgs.Run(o.ad, NewDenseFloat64Vector([]float64{1, 0.5}), bfgs.Constraints{Value: func(x Vector) bool { return hs.ok(floats(x)) }})
	bad := err == nil && res != nil && !hs.ok(floats(res))
	obs.KFStatus("C07/bfgs-ignores-constraints-after-the-start", bad, fmt.Sprintf("returned %v err %v", res, err))
}

func TestKF_adam_returns_unchecked_point(t *testing.T) {
	o := simpleQuadratic([]float64{1})
	hs := halfspace{a: []float64{1}, b: 0.05}
	res, err := adam.Run(o.ad, NewDenseFloat64Vector([]float64{0}), adam.StepSize{Value: 0.1}, adam.MaxIterations{Value: 1},
		adam.Constraints{Value: func(x Vector) bool { return hs.ok(floats(x)) }})
	bad := err == nil && res != nil && !hs.ok(floats(res))
	obs.KFStatus("C07/adam-returns-the-last-update-without-checking-constraints", bad, fmt.Sprintf("returned %v err %v", res, err))
}

func TestKF_saga_hook_without_regularisation(t *testing.T) {
	row := NewDenseFloat64Vector([]float64{1})
	f := saga.Objective1Dense(func(i int, x DenseFloat64Vector) (float64, float64, DenseFloat64Vector, error) {
		r := x[0] - 1
		return 0.5 * r * r, r, row, nil
	})
	p, _ := guarded(func() {
		saga.Run(f, 2, NewDenseFloat64Vector([]float64{1.5}), saga.Gamma{Value: 0.3}, saga.MaxIterations{Value: 2},
			saga.Hook{Value: func(ConstVector, ConstScalar, ConstScalar, int) bool { return false }})
	})
	obs.KFStatus("C07/saga-hook-without-regularisation-dereferences-nil", p != "", p)
}

func TestKF_rprop_dense_returns_untested_point(t *testing.T) {
	// f(x) = (x-1)^2/2 from x0 = 0: the returned point must satisfy |f'| < epsilon, and the first hook
	// call must see the gradient at x0
	first := math.NaN()
	gf := rprop.DenseGradientF(func(x, g DenseFloat64Vector) error { g[0] = x[0] - 1; return nil })
	res, err := rprop.RunGradient(gf, DenseFloat64Vector([]float64{0}), 0.1, []float64{1.2, 0.5}, rprop.Epsilon{Value: 1e-3}, rprop.MaxIterations{Value: 10000},
		rprop.Hook{Value: func(g, step []float64, x ConstVector, y ConstScalar) bool {
			if math.IsNaN(first) {
				first = g[0]
			}
			return false
		}})
	bad := err == nil && res != nil && (math.Abs(res.ConstAt(0).GetFloat64()-1) >= 1e-3 || first != -1)
	obs.KFStatus("C07/rprop-dense-variant-returns-the-point-before-the-tested-one", bad, fmt.Sprintf("returned %v err %v, first gradient handed to the hook %v", res, err, first))
}

func TestKF_adam_rungradient_stepsize(t *testing.T) {
	gf := adam.DenseGradientF(func(x, g DenseFloat64Vector) error { g[0] = x[0] - 1; return nil })
	p, _ := guarded(func() {
		adam.RunGradient(gf, DenseFloat64Vector([]float64{0}), adam.StepSize{Value: 0.1}, adam.MaxIterations{Value: 3})
	})
	obs.KFStatus("C07/adam-rungradient-rejects-the-stepsize-option", p != "", p)
}
