// C18 — serialisation round-trips every value; malformed input gives an error, not a crash or a
// silently inconsistent object.
package c18

import (
	"bytes"
	"compress/gzip"
	"encoding/json"
	"fmt"
	"math"
	"os"
	"path/filepath"
	"reflect"
	"strings"
	"testing"

	. "github.com/pbenner/autodiff"
	"github.com/pbenner/autodiff/statistics"
	"github.com/pbenner/autodiff/statistics/scalarDistribution"
	"github.com/pbenner/autodiff/statistics/vectorDistribution"
	"pgregory.net/rapid"
	"verifharness/gen"
	"verifharness/model"
	"verifharness/obs"
)

var tmpdir string

func TestMain(m *testing.M) {
	d := os.Getenv("VERIF_OUT")
	if d == "" {
		d = os.TempDir()
	}
	tmpdir, _ = os.MkdirTemp(d, "c18io")
	code := m.Run()
	os.RemoveAll(tmpdir)
	obs.Flush()
	os.Exit(code)
}

func call(f func()) (perr string) {
	defer func() {
		if r := recover(); r != nil {
			perr = fmt.Sprint(r)
			if len(perr) > 160 {
				perr = perr[:160]
			}
		}
	}()
	f()
	return ""
}

// finite values incl. negative zero, subnormals, extreme exponents, integers at type bounds
func drawFinite(t *rapid.T, label string, st gen.SType) float64 {
	if st.IsInt() {
		return float64(gen.IntIn(t, label, st))
	}
	var v float64
	switch rapid.IntRange(0, 5).Draw(t, label+".kind") {
	case 0:
		v = gen.Dyadic(t, label)
	case 1:
		v = gen.LogUniform(t, label, -1070, 1020, true)
	case 2:
		v = rapid.SampledFrom([]float64{math.Copysign(0, -1), math.SmallestNonzeroFloat64, -math.SmallestNonzeroFloat64, math.MaxFloat64, -math.MaxFloat64,
			0.1, 1.0 / 3, math.Pi, 1e21, 1e-7, 123456789.123456789}).Draw(t, label+".special")
	default:
		v = rapid.Float64Range(-1e6, 1e6).Draw(t, label+".f")
	}
	if st.Bits == 32 {
		if math.Abs(v) > math.MaxFloat32 {
			v = math.Copysign(math.MaxFloat32, v)
		}
		v = float64(float32(v))
	}
	return v
}

func bitsEqual(a, b float64) bool { return math.Float64bits(a) == math.Float64bits(b) }

// exact state: value bits (sign of zero included) and derivative content
func exactScalar(s ConstScalar) string {
	st := model.ObsScalar(s)
	r := fmt.Sprintf("%016x", math.Float64bits(st.Val))
	if !st.NoDerivatives() {
		// derivative content (allocation of all-zero blocks and the sign of zero are not content)
		d := st
		d.Val = 1
		r += "|" + d.Canon()
	}
	return r
}

func exactVector(v ConstVector) string {
	var sb strings.Builder
	fmt.Fprintf(&sb, "%d:", v.Dim())
	for i := 0; i < v.Dim(); i++ {
		sb.WriteString(exactScalar(v.ConstAt(i)) + " ")
	}
	return sb.String()
}

func exactMatrix(m ConstMatrix) string {
	r, c := m.Dims()
	var sb strings.Builder
	fmt.Fprintf(&sb, "%dx%d:", r, c)
	for i := 0; i < r; i++ {
		for j := 0; j < c; j++ {
			sb.WriteString(exactScalar(m.ConstAt(i, j)) + " ")
		}
	}
	return sb.String()
}

func nonzeroPositions(v ConstVector) string {
	var idx []int
	for it := v.ConstIterator(); it.Ok(); it.Next() {
		idx = append(idx, it.Index())
	}
	return fmt.Sprint(idx)
}

// ---------------------------------------------------------------------------------------------

func TestC18_scalar_json(t *testing.T) {
	rapid.Check(t, func(t *rapid.T) {
		st := gen.DrawType(t, "type", gen.AllTypes)
		v := drawFinite(t, "v", st)
		order := 0
		if st.IsReal() {
			order = rapid.IntRange(0, 2).Draw(t, "order")
		}
		c := obs.Begin("scalar_json", "%s value=%s order=%d", st, gen.F(v), order)
		c.Classf("type=%s", st)
		c.Classf("order=%d", order)
		c.NT(v != 0 || order > 0)
		var src ConstScalar
		if st.IsInt() {
			src = st.New(v)
		} else {
			src = st.New(v)
		}
		if order > 0 {
			m := src.(MagicScalar)
			m.Alloc(2, order)
			m.SetDerivative(0, drawFinite(t, "g0", st))
			m.SetDerivative(1, drawFinite(t, "g1", st))
			if order == 2 {
				h := drawFinite(t, "h", st)
				m.SetHessian(0, 1, h)
				m.SetHessian(1, 0, h)
				m.SetHessian(1, 1, drawFinite(t, "h11", st))
			}
		}
		var b []byte
		var err error
		if p := call(func() { b, err = json.Marshal(src) }); p != "" {
			t.Fatalf("%s: Marshal panicked: %s", c.Desc(), p)
		}
		if err != nil {
			t.Fatalf("%s: Marshal error %v", c.Desc(), err)
		}
		if st.Const {
			// const scalars have no decoder: the encoding must be the JSON number of the value
			var x float64
			e := json.Unmarshal(b, &x)
			if st.Bits == 32 && !st.IsInt() {
				var x32 float32
				e = json.Unmarshal(b, &x32)
				x = float64(x32)
			}
			if e != nil || !bitsEqual(x, src.GetFloat64()) {
				t.Fatalf("%s: encoding %s does not decode to the value (%v, %v)", c.Desc(), b, x, e)
			}
			c.End()
			return
		}
		dst := st.NewMut(7)
		if st.IsReal() && rapid.Bool().Draw(t, "usedReceiver") {
			// the receiver carries derivatives of its own from an earlier use
			k := rapid.IntRange(1, 3).Draw(t, "receiverN")
			dst.(MagicScalar).Alloc(k, rapid.IntRange(1, 2).Draw(t, "receiverOrder"))
			for i := 0; i < k; i++ {
				dst.(MagicScalar).SetDerivative(i, 3+float64(i))
				if dst.GetOrder() >= 2 {
					dst.(MagicScalar).SetHessian(i, k-1, 5)
				}
			}
			c.Class("receiver has derivatives of its own")
		}
		if p := call(func() { err = json.Unmarshal(b, ptrTo(dst)) }); p != "" {
			t.Fatalf("%s: Unmarshal of %s panicked: %s", c.Desc(), b, p)
		}
		if err != nil {
			t.Fatalf("%s: Unmarshal of %s gives error %v", c.Desc(), b, err)
		}
		if exactScalar(dst) != exactScalar(src) {
			t.Fatalf("%s: decoded %s differs from the original %s (json %s)", c.Desc(), exactScalar(dst), exactScalar(src), b)
		}
		c.End()
	})
}

type vecCase struct {
	st     gen.SType
	sparse bool
	vals   []float64
	derivs bool
	view   string
}

func drawVec(t *rapid.T) (Vector, string, gen.SType, bool) {
	st := gen.DrawType(t, "elem", gen.MutableTypes)
	sparse := rapid.Bool().Draw(t, "sparse")
	return drawVecOf(t, st, sparse)
}

func drawVecOf(t *rapid.T, st gen.SType, sparse bool) (Vector, string, gen.SType, bool) {
	n := rapid.IntRange(0, 8).Draw(t, "n")
	var v Vector
	if sparse {
		v = NullSparseVector(st.T, n)
	} else {
		v = NullDenseVector(st.T, n)
	}
	desc := fmt.Sprintf("%s sparse=%v [", st, sparse)
	for i := 0; i < n; i++ {
		kind := rapid.IntRange(0, 3).Draw(t, "entry")
		switch kind {
		case 0: // absent / zero
			desc += "_ "
		case 1: // stored zero (sparse) / zero
			v.At(i).SetFloat64(0)
			desc += "0 "
		default:
			x := drawFinite(t, "x", st)
			v.At(i).SetFloat64(x)
			desc += gen.F(x) + " "
		}
	}
	desc += "]"
	view := false
	if n >= 2 && rapid.Bool().Draw(t, "slice") {
		i := rapid.IntRange(0, n-1).Draw(t, "i")
		j := rapid.IntRange(i, n).Draw(t, "j")
		v = v.Slice(i, j)
		desc += fmt.Sprintf(".Slice(%d,%d)", i, j)
		view = true
	}
	return v, desc, st, view
}

// ptrTo returns x itself for pointer types and a pointer to a copy of the handle for value types
// (Float64 & co are handles: the copy shares the storage)
func ptrTo(x interface{}) interface{} {
	if reflect.TypeOf(x).Kind() == reflect.Ptr {
		return x
	}
	p := reflect.New(reflect.TypeOf(x))
	p.Elem().Set(reflect.ValueOf(x))
	return p.Interface()
}

func newLike(x interface{}) reflect.Value {
	// returns a pointer value suitable for json.Unmarshal / Import: for pointer types a fresh
	// zero object of the pointee type, for value types (dense vectors) a pointer to a zero value
	ty := reflect.TypeOf(x)
	if ty.Kind() == reflect.Ptr {
		return reflect.New(ty.Elem())
	}
	return reflect.New(ty)
}

func deref(p reflect.Value, orig interface{}) interface{} {
	if reflect.TypeOf(orig).Kind() == reflect.Ptr {
		return p.Interface()
	}
	return p.Elem().Interface()
}

func TestC18_vector_json(t *testing.T) {
	rapid.Check(t, func(t *rapid.T) {
		v, desc, st, view := drawVec(t)
		c := obs.Begin("vector_json", "%s", desc)
		c.Classf("elem=%s", st)
		if view {
			c.Class("slice view")
		}
		c.Classf("sparse=%v", strings.Contains(desc, "sparse=true"))
		c.NT(v.Dim() >= 2)
		var b []byte
		var err error
		if p := call(func() { b, err = v.MarshalJSON() }); p != "" || err != nil {
			t.Fatalf("%s: MarshalJSON panic=%q err=%v", c.Desc(), p, err)
		}
		dst := newLike(v)
		if rapid.Bool().Draw(t, "usedReceiver") {
			v2, desc2, _, _ := drawVecOf(t, st, strings.Contains(desc, "sparse=true"))
			dst = reflect.ValueOf(ptrTo(v2))
			c.SetDesc(c.Desc() + " into receiver " + desc2)
			c.Class("used receiver")
		}
		if p := call(func() { err = json.Unmarshal(b, dst.Interface()) }); p != "" {
			t.Fatalf("%s: Unmarshal panicked: %s (json %s)", c.Desc(), p, b)
		}
		if err != nil {
			t.Fatalf("%s: Unmarshal error %v (json %s)", c.Desc(), err, b)
		}
		w := deref(dst, v).(ConstVector)
		if exactVector(w) != exactVector(v) {
			t.Fatalf("%s: decoded %s differs from the original %s (json %s)", c.Desc(), exactVector(w), exactVector(v), b)
		}
		if nonzeroPositions(w) != nonzeroPositions(v) {
			t.Fatalf("%s: non-zero positions %s vs %s", c.Desc(), nonzeroPositions(w), nonzeroPositions(v))
		}
		c.End()
	})
}

func drawMat(t *rapid.T) (Matrix, string, gen.SType, string) {
	st := gen.DrawType(t, "elem", gen.MutableTypes)
	sparse := rapid.Bool().Draw(t, "sparse")
	return drawMatOf(t, st, sparse)
}

func drawMatOf(t *rapid.T, st gen.SType, sparse bool) (Matrix, string, gen.SType, string) {
	rows, cols := rapid.IntRange(1, 5).Draw(t, "rows"), rapid.IntRange(1, 5).Draw(t, "cols")
	var m Matrix
	if sparse {
		m = NullSparseMatrix(st.T, rows, cols)
	} else {
		m = NullDenseMatrix(st.T, rows, cols)
	}
	desc := fmt.Sprintf("%s sparse=%v %dx%d [", st, sparse, rows, cols)
	for i := 0; i < rows; i++ {
		for j := 0; j < cols; j++ {
			switch rapid.IntRange(0, 3).Draw(t, "entry") {
			case 0:
				desc += "_ "
			case 1:
				m.At(i, j).SetFloat64(0)
				desc += "0 "
			default:
				x := drawFinite(t, "x", st)
				m.At(i, j).SetFloat64(x)
				desc += gen.F(x) + " "
			}
		}
		desc += "; "
	}
	desc += "]"
	view := "owner"
	switch rapid.IntRange(0, 3).Draw(t, "view") {
	case 1:
		m = m.T()
		view = "transposed"
	case 2:
		r0 := rapid.IntRange(0, rows-1).Draw(t, "r0")
		c0 := rapid.IntRange(0, cols-1).Draw(t, "c0")
		r1 := rapid.IntRange(r0+1, rows).Draw(t, "r1")
		c1 := rapid.IntRange(c0+1, cols).Draw(t, "c1")
		m = m.Slice(r0, r1, c0, c1)
		view = "slice"
		desc += fmt.Sprintf(".Slice(%d,%d,%d,%d)", r0, r1, c0, c1)
	case 3:
		r0 := rapid.IntRange(0, rows-1).Draw(t, "r0")
		c0 := rapid.IntRange(0, cols-1).Draw(t, "c0")
		m = m.Slice(r0, rows, c0, cols).T()
		view = "transposed slice"
		desc += fmt.Sprintf(".Slice(%d,%d,%d,%d).T", r0, rows, c0, cols)
	}
	if view == "transposed" {
		desc += ".T"
	}
	return m, desc, st, view
}

func TestC18_matrix_json_views(t *testing.T) {
	rapid.Check(t, func(t *rapid.T) {
		m, desc, st, view := drawMat(t)
		c := obs.Begin("matrix_json_views", "%s", desc)
		c.Classf("elem=%s", st)
		c.Classf("view=%s", view)
		c.Classf("sparse=%v", strings.Contains(desc, "sparse=true"))
		r, cl := m.Dims()
		c.NT(r*cl >= 2 && view != "owner")
		var b []byte
		var err error
		if p := call(func() { b, err = m.MarshalJSON() }); p != "" || err != nil {
			t.Fatalf("%s: MarshalJSON panic=%q err=%v", c.Desc(), p, err)
		}
		dst := newLike(m)
		if rapid.Bool().Draw(t, "usedReceiver") {
			// read into an object that has a history (other dimensions, a transposed or sliced view)
			m2, desc2, _, view2 := drawMatOf(t, st, strings.Contains(desc, "sparse=true"))
			dst = reflect.ValueOf(m2)
			c.SetDesc(c.Desc() + " into receiver " + desc2)
			c.Classf("receiver=%s", view2)
		}
		if p := call(func() { err = json.Unmarshal(b, dst.Interface()) }); p != "" {
			t.Fatalf("%s: Unmarshal panicked: %s (json %s)", c.Desc(), p, b)
		}
		if err != nil {
			t.Fatalf("%s: Unmarshal error %v (json %s)", c.Desc(), err, b)
		}
		w := deref(dst, m).(ConstMatrix)
		if exactMatrix(w) != exactMatrix(m) {
			t.Fatalf("%s: decoded %s differs from the original %s", c.Desc(), exactMatrix(w), exactMatrix(m))
		}
		c.End()
	})
}

// table files: Export, Import (plain and gzip)
func TestC18_table_export_import(t *testing.T) {
	n := 0
	rapid.Check(t, func(t *rapid.T) {
		n++
		isMatrix := rapid.Bool().Draw(t, "matrix")
		gz := rapid.Bool().Draw(t, "gzip")
		var obj interface{}
		var desc string
		var st gen.SType
		var exact func(interface{}) string
		if isMatrix {
			var m Matrix
			m, desc, st, _ = drawMat(t)
			obj = m
			exact = func(x interface{}) string { return exactMatrixValues(x.(ConstMatrix)) }
		} else {
			var v Vector
			v, desc, st, _ = drawVec(t)
			obj = v
			exact = func(x interface{}) string { return exactVectorValues(x.(ConstVector)) }
		}
		c := obs.Begin("table_export_import", "%s gzip=%v", desc, gz)
		c.Classf("elem=%s", st)
		c.Classf("gzip=%v", gz)
		c.Classf("matrix=%v", isMatrix)
		c.NT(true)
		file := filepath.Join(tmpdir, fmt.Sprintf("t%d.table", n%8))
		var err error
		if p := call(func() {
			err = obj.(interface{ Export(string) error }).Export(file)
		}); p != "" || err != nil {
			t.Fatalf("%s: Export panic=%q err=%v", c.Desc(), p, err)
		}
		if gz {
			raw, _ := os.ReadFile(file)
			var buf bytes.Buffer
			w := gzip.NewWriter(&buf)
			w.Write(raw)
			w.Close()
			file += ".gz"
			os.WriteFile(file, buf.Bytes(), 0644)
		}
		dst := newLike(obj)
		if rapid.Bool().Draw(t, "usedReceiver") {
			sp := strings.Contains(desc, "sparse=true")
			if isMatrix {
				m2, desc2, _, _ := drawMatOf(t, st, sp)
				dst = reflect.ValueOf(m2)
				c.SetDesc(c.Desc() + " into receiver " + desc2)
			} else {
				v2, desc2, _, _ := drawVecOf(t, st, sp)
				dst = reflect.ValueOf(ptrTo(v2))
				c.SetDesc(c.Desc() + " into receiver " + desc2)
			}
			c.Class("used receiver")
		}
		imp, ok := dst.Interface().(interface{ Import(string) error })
		if !ok {
			t.Fatalf("%s: type %T has no Import", c.Desc(), dst.Interface())
		}
		if p := call(func() { err = imp.Import(file) }); p != "" {
			t.Fatalf("%s: Import panicked: %s", c.Desc(), p)
		}
		if err != nil {
			if isEmpty(obj) {
				c.Class("empty object: import error accepted")
				c.End()
				return
			}
			raw, _ := os.ReadFile(strings.TrimSuffix(file, ".gz"))
			t.Fatalf("%s: Import error %v (file %q)", c.Desc(), err, raw)
		}
		w := deref(dst, obj)
		if exact(w) != exact(obj) {
			raw, _ := os.ReadFile(strings.TrimSuffix(file, ".gz"))
			t.Fatalf("%s: imported %s differs from the original %s (file %q)", c.Desc(), exact(w), exact(obj), raw)
		}
		c.End()
	})
}

func isEmpty(x interface{}) bool {
	switch y := x.(type) {
	case ConstMatrix:
		r, c := y.Dims()
		return r == 0 || c == 0
	case ConstVector:
		return y.Dim() == 0
	}
	return false
}

// table files carry values only (no derivatives)
func exactVectorValues(v ConstVector) string {
	var sb strings.Builder
	fmt.Fprintf(&sb, "%d:", v.Dim())
	for i := 0; i < v.Dim(); i++ {
		fmt.Fprintf(&sb, "%016x ", math.Float64bits(v.Float64At(i)))
	}
	return sb.String()
}

func exactMatrixValues(m ConstMatrix) string {
	r, c := m.Dims()
	var sb strings.Builder
	fmt.Fprintf(&sb, "%dx%d:", r, c)
	for i := 0; i < r; i++ {
		for j := 0; j < c; j++ {
			fmt.Fprintf(&sb, "%016x ", math.Float64bits(m.Float64At(i, j)))
		}
	}
	return sb.String()
}

// ---------------------------------------------------------------------------------------------
// distribution configurations, incl. nested ones

func probe(d statistics.ScalarPdf, xs []float64) string {
	var sb strings.Builder
	for _, x := range xs {
		r := NewFloat64(0)
		if err := d.LogPdf(r, ConstFloat64(x)); err != nil {
			sb.WriteString("err ")
		} else {
			fmt.Fprintf(&sb, "%016x ", math.Float64bits(r.GetFloat64()))
		}
	}
	return sb.String()
}

func drawScalarPdf(t *rapid.T, depth int) (statistics.ScalarPdf, string) {
	p := func(label string, lo, hi int) Scalar {
		return NewFloat64(float64(rapid.IntRange(lo, hi).Draw(t, label)) / 8)
	}
	fams := []string{"normal", "gamma", "beta", "exponential", "cauchy", "laplace", "pareto", "poisson", "geometric", "gev", "gpareto", "negative binomial", "binomial", "categorical", "power law", "generalized gamma", "log transform", "translation", "mixture"}
	if depth >= 2 {
		fams = fams[:16]
	}
	fam := fams[rapid.IntRange(0, len(fams)-1).Draw(t, "family")]
	var d statistics.ScalarPdf
	var err error
	switch fam {
	case "normal":
		d, err = scalarDistribution.NewNormalDistribution(p("mu", -16, 16), p("sigma", 1, 32))
	case "gamma":
		d, err = scalarDistribution.NewGammaDistribution(p("alpha", 1, 32), p("beta", 1, 32))
	case "beta":
		d, err = scalarDistribution.NewBetaDistribution(p("alpha", 1, 32), p("beta", 1, 32), rapid.Bool().Draw(t, "logScale"))
	case "exponential":
		d, err = scalarDistribution.NewExponentialDistribution(p("lambda", 1, 32))
	case "cauchy":
		d, err = scalarDistribution.NewCauchyDistribution(p("mu", -16, 16), p("sigma", 1, 32))
	case "laplace":
		d, err = scalarDistribution.NewLaplaceDistribution(p("mu", -16, 16), p("sigma", 1, 32))
	case "pareto":
		d, err = scalarDistribution.NewParetoDistribution(p("lambda", 1, 32), p("kappa", 1, 32))
	case "poisson":
		d, err = scalarDistribution.NewPoissonDistribution(p("lambda", 1, 64))
	case "geometric":
		d, err = scalarDistribution.NewGeometricDistribution(NewFloat64(float64(rapid.IntRange(1, 15).Draw(t, "p")) / 16))
	case "gev":
		d, err = scalarDistribution.NewGevDistribution(p("mu", -16, 16), p("sigma", 1, 32), p("xi", -8, 8))
	case "gpareto":
		d, err = scalarDistribution.NewGParetoDistribution(p("mu", -16, 16), p("sigma", 1, 32), p("xi", -8, 8))
	case "negative binomial":
		d, err = scalarDistribution.NewNegativeBinomialDistribution(p("r", 1, 64), NewFloat64(float64(rapid.IntRange(1, 15).Draw(t, "p"))/16))
	case "binomial":
		d, err = scalarDistribution.NewBinomialDistribution(NewFloat64(float64(rapid.IntRange(1, 15).Draw(t, "theta"))/16), rapid.IntRange(1, 12).Draw(t, "n"))
	case "categorical":
		k := rapid.IntRange(1, 4).Draw(t, "k")
		th := NullDenseFloat64Vector(k)
		for i := 0; i < k; i++ {
			th.At(i).SetFloat64(math.Log(float64(rapid.IntRange(1, 16).Draw(t, "w")) / 16))
		}
		d, err = scalarDistribution.NewCategoricalDistribution(th)
	case "power law":
		d, err = scalarDistribution.NewPowerLawDistribution(p("alpha", 9, 40), p("xmin", 1, 16))
	case "generalized gamma":
		d, err = scalarDistribution.NewGeneralizedGammaDistribution(p("a", 1, 32), p("d", 1, 32), p("p", 1, 32))
	case "log transform":
		inner, s := drawScalarPdf(t, depth+1)
		d, err = scalarDistribution.NewPdfLogTransform(inner, float64(rapid.IntRange(0, 8).Draw(t, "pseudo"))/8)
		fam += "(" + s + ")"
	case "translation":
		inner, s := drawScalarPdf(t, depth+1)
		d, err = scalarDistribution.NewPdfTranslation(inner, float64(rapid.IntRange(0, 8).Draw(t, "shift"))/8)
		fam += "(" + s + ")"
	case "mixture":
		k := rapid.IntRange(1, 3).Draw(t, "components")
		w := NullDenseFloat64Vector(k)
		var ed []statistics.ScalarPdf
		for i := 0; i < k; i++ {
			w.At(i).SetFloat64(float64(rapid.IntRange(1, 8).Draw(t, "weight")))
			inner, s := drawScalarPdf(t, depth+1)
			ed = append(ed, inner)
			fam += "[" + s + "]"
		}
		d, err = scalarDistribution.NewMixture(w, ed)
	}
	if err != nil || d == nil {
		// constructor refused the parameters: use a normal distribution instead (constructive fallback)
		d, _ = scalarDistribution.NewNormalDistribution(NewFloat64(0.5), NewFloat64(1.5))
		fam = "normal(fallback)"
	}
	return d, fam
}

func TestC18_distribution_config(t *testing.T) {
	xs := []float64{-1.5, -0.25, 0, 0.125, 0.5, 1, 2, 3, 7.75}
	rapid.Check(t, func(t *rapid.T) {
		vector := rapid.IntRange(0, 4).Draw(t, "vector") == 0
		if vector {
			// i.i.d. product of a scalar family as a vector distribution
			d, fam := drawScalarPdf(t, 1)
			n := rapid.IntRange(1, 3).Draw(t, "n")
			vd, err := vectorDistribution.NewScalarIid(d, n)
			c := obs.Begin("distribution_config", "vector scalarIid(%s, %d)", fam, n)
			c.Class("family=vector:scalarIid")
			c.NT(true)
			if err != nil {
				c.End()
				return
			}
			var buf bytes.Buffer
			if p := call(func() { err = vd.ExportConfig().WriteJson(&buf) }); p != "" || err != nil {
				t.Fatalf("%s: export panic=%q err=%v", c.Desc(), p, err)
			}
			var cfg statistics.ConfigDistribution
			if err := cfg.ReadJson(&buf); err != nil {
				t.Fatalf("%s: ReadJson error %v", c.Desc(), err)
			}
			var vd2 statistics.VectorPdf
			if p := call(func() { vd2, err = statistics.ImportVectorPdfConfig(cfg, Float64Type) }); p != "" || err != nil {
				t.Fatalf("%s: import panic=%q err=%v", c.Desc(), p, err)
			}
			x := NullDenseFloat64Vector(n)
			for i := 0; i < n; i++ {
				x.At(i).SetFloat64(xs[(i+3)%len(xs)])
			}
			r1, r2 := NewFloat64(0), NewFloat64(0)
			var e1, e2 error
			if p := call(func() { e1 = vd.LogPdf(r1, x) }); p != "" {
				e1 = fmt.Errorf("panic")
			}
			if p := call(func() { e2 = vd2.LogPdf(r2, x) }); p != "" {
				e2 = fmt.Errorf("panic")
			}
			if (e1 == nil) != (e2 == nil) || (e1 == nil && !model.Close(r1.GetFloat64(), r2.GetFloat64(), 1e-13, 1e-13)) {
				t.Fatalf("%s: LogPdf %v (%v) before, %v (%v) after the round trip", c.Desc(), r1, e1, r2, e2)
			}
			c.End()
			return
		}
		d, fam := drawScalarPdf(t, 0)
		c := obs.Begin("distribution_config", "%s params=%v", fam, d.GetParameters())
		c.Classf("family=%s", strings.SplitN(strings.SplitN(fam, "(", 2)[0], "[", 2)[0])
		if strings.ContainsAny(fam, "([") {
			c.Class("nested")
		}
		c.NT(true)
		var buf bytes.Buffer
		var err error
		if p := call(func() { err = d.ExportConfig().WriteJson(&buf) }); p != "" || err != nil {
			t.Fatalf("%s: export panic=%q err=%v", c.Desc(), p, err)
		}
		js := buf.String()
		var cfg statistics.ConfigDistribution
		if err := cfg.ReadJson(&buf); err != nil {
			t.Fatalf("%s: ReadJson error %v", c.Desc(), err)
		}
		var d2 statistics.ScalarPdf
		if p := call(func() { d2, err = statistics.ImportScalarPdfConfig(cfg, Float64Type) }); p != "" || err != nil {
			t.Fatalf("%s: import panic=%q err=%v (json %s)", c.Desc(), p, err, js)
		}
		// configurations may store transformed parameters (mixture weights as probabilities, log-scale
		// parameters as plain numbers): equality up to 8 ulp of the transformation's rounding
		pa, pb := d.GetParameters(), d2.GetParameters()
		if pa.Dim() != pb.Dim() {
			t.Fatalf("%s: %d parameters before, %d after the round trip (json %s)", c.Desc(), pa.Dim(), pb.Dim(), js)
		}
		for i := 0; i < pa.Dim(); i++ {
			if !model.Close(pa.Float64At(i), pb.Float64At(i), 8*2.3e-16, 1e-300) {
				t.Fatalf("%s: parameter %d is %v before and %v after the round trip (json %s)", c.Desc(), i, pa.Float64At(i), pb.Float64At(i), js)
			}
		}
		for _, x := range xs {
			r1, r2 := NewFloat64(0), NewFloat64(0)
			var e1, e2 error
			// out-of-support arguments may be rejected by a panic (C14 owns that); both must agree
			if p := call(func() { e1 = d.LogPdf(r1, ConstFloat64(x)) }); p != "" {
				e1 = fmt.Errorf("panic")
			}
			if p := call(func() { e2 = d2.LogPdf(r2, ConstFloat64(x)) }); p != "" {
				e2 = fmt.Errorf("panic")
			}
			if (e1 == nil) != (e2 == nil) || (e1 == nil && !model.Close(r1.GetFloat64(), r2.GetFloat64(), 1e-13, 1e-13)) {
				t.Fatalf("%s: LogPdf(%v) is %v (%v) before and %v (%v) after the round trip", c.Desc(), x, r1, e1, r2, e2)
			}
		}
		c.End()
	})
}

// ---------------------------------------------------------------------------------------------
// malformed input: error, or an object on which every in-range read and String() succeed

func mutateJSON(t *rapid.T, b []byte) ([]byte, string) {
	s := string(b)
	kinds := []string{"truncate", "replace number", "drop field", "swap Rows/Cols", "huge dimension", "negative dimension", "duplicate index", "index out of range",
		"non-numeric token", "NaN spelling", "wrong nesting", "empty", "null", "extra values", "fewer values", "negative index", "float for int", "unchanged"}
	kind := kinds[rapid.IntRange(0, len(kinds)-1).Draw(t, "mutation")]
	num := func(label string, choices ...string) string {
		return choices[rapid.IntRange(0, len(choices)-1).Draw(t, label)]
	}
	replaceField := func(field, val string) string {
		i := strings.Index(s, "\""+field+"\":")
		if i < 0 {
			return s
		}
		j := i + len(field) + 3
		k := j
		for k < len(s) && s[k] != ',' && s[k] != '}' && s[k] != '\n' {
			k++
		}
		if strings.HasPrefix(strings.TrimSpace(s[j:]), "[") {
			k = j + strings.Index(s[j:], "]") + 1
		}
		return s[:j] + " " + val + s[k:]
	}
	switch kind {
	case "truncate":
		if len(s) > 1 {
			s = s[:rapid.IntRange(0, len(s)-1).Draw(t, "cut")]
		}
	case "replace number":
		s = strings.Replace(s, num("from", "0", "1", "2", "3"), num("to", "-1", "1e400", "99999999999", "0.5", "\"x\""), 1)
	case "drop field":
		s = replaceField(num("field", "Rows", "Cols", "Length", "Index", "Value", "Values", "Derivative", "Hessian"), "null")
	case "swap Rows/Cols":
		s = strings.Replace(strings.Replace(strings.Replace(s, "\"Rows\"", "\"X\"", 1), "\"Cols\"", "\"Rows\"", 1), "\"X\"", "\"Cols\"", 1)
	case "huge dimension":
		s = replaceField(num("field", "Rows", "Cols", "Length"), num("v", "1000000000000", "9223372036854775807", "4294967296"))
	case "negative dimension":
		s = replaceField(num("field", "Rows", "Cols", "Length"), num("v", "-1", "-5"))
	case "duplicate index":
		s = replaceField("Index", "[0, 0]")
		s = replaceField("Value", "[1, 2]")
	case "index out of range":
		s = replaceField("Index", "["+num("v", "7", "100", "1000000")+"]")
		s = replaceField("Value", "[1]")
	case "negative index":
		s = replaceField("Index", "[-1]")
		s = replaceField("Value", "[1]")
	case "non-numeric token":
		s = replaceField(num("field", "Rows", "Length", "Value", "Values"), num("v", "\"abc\"", "true", "{}", "[[1]]"))
	case "NaN spelling":
		s = replaceField(num("field", "Value", "Values"), "["+num("v", "NaN", "Infinity", "-Inf", "nan")+"]")
	case "wrong nesting":
		s = "[" + s + "]"
	case "empty":
		s = num("v", "", " ", "{}", "[]")
	case "null":
		s = "null"
	case "extra values":
		s = replaceField(num("field", "Values", "Value"), "[1, 2, 3, 4, 5, 6, 7, 8, 9, 10, 11, 12, 13, 14, 15, 16, 17, 18, 19, 20, 21, 22, 23, 24, 25, 26]")
	case "fewer values":
		s = replaceField(num("field", "Values", "Value", "Derivative", "Hessian"), num("v", "[1]", "[[1]]", "[[1,2],[3]]", "[[1,2,3]]"))
	case "float for int":
		s = replaceField(num("field", "Rows", "Cols", "Length", "Index"), num("v", "1.5", "[0.5]", "2e0"))
	}
	return []byte(s), kind
}

// validObject: every in-range read and String() succeed, dimensions are consistent and bounded
func validObject(x interface{}) string {
	bad := ""
	p := call(func() {
		switch y := x.(type) {
		case ConstMatrix:
			r, c := y.Dims()
			if r < 0 || c < 0 {
				bad = fmt.Sprintf("negative dimensions %dx%d", r, c)
				return
			}
			if r*c > 1<<20 || r > 1<<12 || c > 1<<12 { // a 2^32 x 0 matrix is a valid (empty) object
				return // do not walk absurdly large objects; dimensions are at least non-negative
			}
			for i := 0; i < r; i++ {
				for j := 0; j < c; j++ {
					_ = y.ConstAt(i, j).GetFloat64()
					_ = y.Float64At(i, j)
				}
			}
			for it, n := y.ConstIterator(), 0; it.Ok() && n <= r*c; it.Next() {
				i, j := it.Index()
				if i < 0 || j < 0 || i >= r || j >= c {
					bad = fmt.Sprintf("iterator yields (%d,%d) outside %dx%d", i, j, r, c)
					return
				}
				n++
			}
			_ = y.(fmt.Stringer).String()
		case ConstVector:
			n := y.Dim()
			if n < 0 {
				bad = fmt.Sprintf("negative dimension %d", n)
				return
			}
			if n > 1<<20 {
				return
			}
			for i := 0; i < n; i++ {
				_ = y.ConstAt(i).GetFloat64()
				_ = y.Float64At(i)
			}
			for it, k := y.ConstIterator(), 0; it.Ok() && k <= n; it.Next() {
				if i := it.Index(); i < 0 || i >= n {
					bad = fmt.Sprintf("iterator yields index %d outside dimension %d", i, n)
					return
				}
				k++
			}
			_ = y.(fmt.Stringer).String()
		case ConstScalar:
			_ = y.GetFloat64()
			for i := 0; i < y.GetN(); i++ {
				_ = y.GetDerivative(i)
				for j := 0; j < y.GetN(); j++ {
					_ = y.GetHessian(i, j)
				}
			}
		}
	})
	if p != "" {
		return "panic: " + p
	}
	return bad
}

func TestC18_decoders_reject_or_valid(t *testing.T) {
	rapid.Check(t, func(t *rapid.T) {
		kind := rapid.SampledFrom([]string{"vector", "matrix", "scalar"}).Draw(t, "object")
		var obj interface{}
		var desc string
		switch kind {
		case "vector":
			v, d, _, _ := drawVec(t)
			obj, desc = v, d
		case "matrix":
			m, d, _, _ := drawMat(t)
			obj, desc = m, d
		default:
			st := gen.DrawType(t, "type", gen.MutableTypes)
			s := st.NewMut(drawFinite(t, "v", st))
			if m, ok := s.(MagicScalar); ok && rapid.Bool().Draw(t, "derivs") {
				m.Alloc(2, 2)
				m.SetDerivative(0, 1)
				m.SetHessian(0, 1, 2)
			}
			obj, desc = s, fmt.Sprintf("%s %v", st, s)
		}
		b, err := json.Marshal(obj)
		if err != nil {
			t.Fatalf("harness: cannot marshal %s: %v", desc, err)
		}
		mb, mk := mutateJSON(t, b)
		c := obs.Begin("decoders_reject_or_valid", "%s mutation=%s input=%q", desc, mk, mb)
		c.Classf("object=%s", kind)
		c.Classf("mutation=%s", mk)
		c.NT(json.Valid(mb))
		dst := newLike(obj)
		var derr error
		if p := call(func() { derr = json.Unmarshal(mb, dst.Interface()) }); p != "" {
			t.Fatalf("%s: the decoder panicked: %s", c.Desc(), p)
		}
		if derr != nil {
			c.Class("outcome=error")
			c.End()
			return
		}
		c.Class("outcome=accepted")
		if bad := validObject(deref(dst, obj)); bad != "" {
			t.Fatalf("%s: the decoder accepted the input but the object is inconsistent: %s", c.Desc(), bad)
		}
		c.End()
	})
}

// table readers on mutated files
func TestC18_table_readers_reject_or_valid(t *testing.T) {
	n := 0
	rapid.Check(t, func(t *rapid.T) {
		n++
		isMatrix := rapid.Bool().Draw(t, "matrix")
		var obj interface{}
		var desc string
		if isMatrix {
			m, d, _, _ := drawMat(t)
			obj, desc = m, d
		} else {
			v, d, _, _ := drawVec(t)
			obj, desc = v, d
		}
		file := filepath.Join(tmpdir, fmt.Sprintf("m%d.table", n%8))
		if err := obj.(interface{ Export(string) error }).Export(file); err != nil {
			t.Fatalf("harness: export failed: %v", err)
		}
		raw, _ := os.ReadFile(file)
		s := string(raw)
		mk := rapid.SampledFrom([]string{"truncate", "non-numeric", "ragged row", "negative length", "huge length", "index out of range", "duplicate index", "empty file", "binary garbage", "unchanged"}).Draw(t, "mutation")
		lines := strings.Split(s, "\n")
		switch mk {
		case "truncate":
			if len(s) > 0 {
				s = s[:rapid.IntRange(0, len(s)-1).Draw(t, "cut")]
			}
		case "non-numeric":
			s = strings.Replace(s, "0", "x", 1) + "\nabc def\n"
		case "ragged row":
			s = s + "1 2 3 4 5 6 7 8 9\n"
		case "negative length":
			lines[0] = "-3"
			s = strings.Join(lines, "\n")
		case "huge length":
			lines[0] = "99999999999999"
			s = strings.Join(lines, "\n")
		case "index out of range":
			s = s + "\n1000 1\n"
		case "duplicate index":
			s = s + "\n0 1\n0 2\n"
		case "empty file":
			s = ""
		case "binary garbage":
			s = "\x00\x01\x02\xff\xfe" + s
		}
		os.WriteFile(file, []byte(s), 0644)
		c := obs.Begin("table_readers_reject_or_valid", "%s mutation=%s file=%q", desc, mk, s)
		c.Classf("mutation=%s", mk)
		c.Classf("matrix=%v", isMatrix)
		c.NT(mk != "unchanged")
		dst := newLike(obj)
		imp := dst.Interface().(interface{ Import(string) error })
		var err error
		if p := call(func() { err = imp.Import(file) }); p != "" {
			t.Fatalf("%s: the reader panicked: %s", c.Desc(), p)
		}
		if err != nil {
			c.Class("outcome=error")
			c.End()
			return
		}
		c.Class("outcome=accepted")
		if bad := validObject(deref(dst, obj)); bad != "" {
			t.Fatalf("%s: the reader accepted the file but the object is inconsistent: %s", c.Desc(), bad)
		}
		c.End()
	})
}

// ---------------------------------------------------------------------------------------------
// native fuzz targets (thorough tier): arbitrary bytes into each decoder; oracle: error, or a valid
// object whose re-encoding decodes to the same object

func fuzzDecoder(f *testing.F, mk func() interface{}, seeds ...string) {
	for _, s := range seeds {
		f.Add([]byte(s))
	}
	for _, s := range []string{"", "null", "{}", "[]", "0", "-0", "1e400", "{\"Index\":[0,0],\"Value\":[1,2],\"Length\":1}", "{\"Index\":[-1],\"Value\":[1],\"Length\":3}",
		"{\"Values\":[1],\"Rows\":1,\"Cols\":2}", "{\"Values\":[],\"Rows\":-1,\"Cols\":-1}", "{\"Index\":[5],\"Value\":[1],\"Rows\":2,\"Cols\":2}",
		"{\"Value\":1,\"Hessian\":[[1,2],[3]]}", "{\"Value\":1,\"Derivative\":[1],\"Hessian\":[[1,2],[3,4]]}", "{\"Length\":9223372036854775807}", "{\"Rows\":4294967296,\"Cols\":4294967296}"} {
		f.Add([]byte(s))
	}
	f.Fuzz(func(t *testing.T, data []byte) {
		if len(data) > 4096 {
			return
		}
		obj := mk()
		if strings.HasPrefix(fmt.Sprintf("%T", obj), "*autodiff.Dense") {
			// a dense r x c matrix allocates work vectors of length r and c: an input that validly
			// describes an empty matrix with 2^32 columns is not malformed, only enormous; leave it
			// out (inputs whose dimension product overflows stay in)
			var d struct{ Rows, Cols int }
			if json.Unmarshal(data, &d) == nil && (d.Rows > 1<<16 || d.Cols > 1<<16) && (d.Cols == 0 || d.Rows*d.Cols/d.Cols == d.Rows) && (d.Rows == 0 || d.Rows*d.Cols/d.Rows == d.Cols) {
				return
			}
		}
		var err error
		if p := call(func() { err = json.Unmarshal(data, ptrTo(obj)) }); p != "" {
			t.Fatalf("decoder panicked on %q: %s", data, p)
		}
		if err != nil {
			return
		}
		got := derefAny(obj)
		if bad := validObject(got); bad != "" {
			t.Fatalf("decoder accepted %q but the object is inconsistent: %s", data, bad)
		}
	})
}

func derefAny(x interface{}) interface{} { return x }

func FuzzC18_sparse_vector_json(f *testing.F) {
	fuzzDecoder(f, func() interface{} { return NullSparseFloat64Vector(0) }, "{\"Index\":[0,2],\"Value\":[1,2],\"Length\":3}")
}

func FuzzC18_sparse_real_vector_json(f *testing.F) {
	fuzzDecoder(f, func() interface{} { return NullSparseReal64Vector(0) }, "{\"Index\":[0,2],\"Value\":[1,2],\"Length\":3}")
}

func FuzzC18_dense_matrix_json(f *testing.F) {
	fuzzDecoder(f, func() interface{} { return NullDenseFloat64Matrix(0, 0) }, "{\"Values\":[1,2,3,4],\"Rows\":2,\"Cols\":2}")
}

func FuzzC18_dense_real_matrix_json(f *testing.F) {
	fuzzDecoder(f, func() interface{} { return NullDenseReal64Matrix(0, 0) }, "{\"Values\":[1,2,3,4],\"Rows\":2,\"Cols\":2}")
}

func FuzzC18_sparse_matrix_json(f *testing.F) {
	fuzzDecoder(f, func() interface{} { return NullSparseFloat64Matrix(0, 0) }, "{\"Index\":[0,3],\"Value\":[1,2],\"Rows\":2,\"Cols\":2}")
}

func FuzzC18_real_scalar_json(f *testing.F) {
	fuzzDecoder(f, func() interface{} { return NewReal64(0) }, "{\"Value\":1,\"Derivative\":[1,2],\"Hessian\":[[1,2],[2,3]]}", "1.5")
}

func FuzzC18_dense_vector_json(f *testing.F) {
	fuzzDecoder(f, func() interface{} { v := NullDenseFloat64Vector(0); return &v }, "[1,2,3]")
}

func FuzzC18_distribution_config(f *testing.F) {
	f.Add([]byte("{\"Name\":\"scalar:normal distribution\",\"Parameters\":[0,1]}"))
	f.Add([]byte("{\"Name\":\"scalar:mixture distribution\",\"Parameters\":[0.5,0.5],\"Distributions\":[{\"Name\":\"scalar:normal distribution\",\"Parameters\":[0,1]},{\"Name\":\"scalar:gamma distribution\",\"Parameters\":[1,2]}]}"))
	f.Add([]byte("{\"Name\":\"scalar:categorical distribution\",\"Parameters\":[]}"))
	f.Add([]byte("{\"Name\":\"scalar:binomial distribution\",\"Parameters\":[0.5]}"))
	f.Fuzz(func(t *testing.T, data []byte) {
		if len(data) > 4096 {
			return
		}
		var cfg statistics.ConfigDistribution
		if err := cfg.ReadJson(bytes.NewReader(data)); err != nil {
			return
		}
		var d statistics.ScalarPdf
		var err error
		if p := call(func() { d, err = statistics.ImportScalarPdfConfig(cfg, Float64Type) }); p != "" {
			t.Fatalf("ImportScalarPdfConfig panicked on %q: %s", data, p)
		}
		if err != nil || d == nil {
			return
		}
		// an accepted configuration gives a usable distribution
		if p := call(func() { _ = d.GetParameters(); d.LogPdf(NewFloat64(0), ConstFloat64(0.5)) }); p != "" {
			t.Fatalf("configuration %q was accepted but the distribution panics: %s", data, p)
		}
	})
}

// ---------------------------------------------------------------------------------------------
// witnesses

func TestKF_const_marshal(t *testing.T) {
	// the defect is a fatal stack overflow (not recoverable): run it in a goroutine-free way only if
	// the method does not recurse; detect recursion statically by a bounded probe through a child
	// process is unnecessary here because the regression replay runs in its own process: a crash of
	// this process is reported by the driver as "present" (witness_crashes)
	b, err := json.Marshal(ConstFloat64(1.5))
	obs.KFStatus("C18/const-scalar-marshal-recurses", err != nil || string(b) != "1.5", fmt.Sprintf("json=%s err=%v", b, err))
}

func TestKF_sparse_reader_panics(t *testing.T) {
	v := NullSparseFloat64Vector(0)
	p := call(func() { json.Unmarshal([]byte("{\"Index\":[7],\"Value\":[1],\"Length\":3}"), v) })
	obs.KFStatus("C18/sparse-readers-panic-on-bad-indices", p != "", p)
}

func TestKF_dense_matrix_json_shape(t *testing.T) {
	m := NullDenseFloat64Matrix(0, 0)
	err := json.Unmarshal([]byte("{\"Values\":[1],\"Rows\":1,\"Cols\":2}"), m)
	obs.KFStatus("C18/dense-matrix-json-accepts-wrong-value-count", err == nil, fmt.Sprint(err))
}

func TestKF_real_json_hessian_only(t *testing.T) {
	a := NewReal64(0)
	a.Alloc(2, 2)
	a.SetHessian(1, 1, 3)
	b, _ := json.Marshal(a)
	r := NewReal64(0)
	err := json.Unmarshal(b, r)
	obs.KFStatus("C18/real-json-hessian-without-gradient", err != nil || r.GetN() != 2 || r.GetHessian(1, 1) != 3, fmt.Sprintf("json=%s decoded N=%d err=%v", b, r.GetN(), err))
}

func TestKF_binomial_config(t *testing.T) {
	d, _ := scalarDistribution.NewBinomialDistribution(NewFloat64(0.25), 4)
	var buf bytes.Buffer
	d.ExportConfig().WriteJson(&buf)
	var cfg statistics.ConfigDistribution
	cfg.ReadJson(&buf)
	_, err := statistics.ImportScalarPdfConfig(cfg, Float64Type)
	obs.KFStatus("C18/binomial-config-log-scale-mismatch", err != nil, fmt.Sprint(err))
}

func TestKF_config_too_few_parameters(t *testing.T) {
	var cfg statistics.ConfigDistribution
	cfg.ReadJson(strings.NewReader("{\"Name\":\"scalar:binomial distribution\",\"Parameters\":[0.5]}"))
	p := call(func() { statistics.ImportScalarPdfConfig(cfg, Float64Type) })
	obs.KFStatus("C18/distribution-config-with-too-few-parameters-panics", p != "", p)
}

func TestKF_mixture_config_component_count(t *testing.T) {
	var cfg statistics.ConfigDistribution
	cfg.ReadJson(strings.NewReader("{\"Name\":\"scalar:mixture distribution\",\"Parameters\":[0]}"))
	var err error
	var d statistics.ScalarPdf
	p := call(func() { d, err = statistics.ImportScalarPdfConfig(cfg, Float64Type) })
	obs.KFStatus("C18/mixture-config-weights-without-components-accepted", p == "" && err == nil && d != nil, fmt.Sprintf("err=%v", err))
}

func TestKF_matrix_json_dimension_overflow(t *testing.T) {
	m := NullSparseFloat64Matrix(0, 0)
	var err error
	p := call(func() { err = json.Unmarshal([]byte("{\"Rows\":4294967296,\"Cols\":4294967296}"), m) })
	obs.KFStatus("C18/matrix-json-dimension-product-overflows", p == "" && err == nil, fmt.Sprintf("err=%v", err))
}
