package c18

import (
	"bytes"
	"fmt"
	"testing"

	. "github.com/pbenner/autodiff"
	"github.com/pbenner/autodiff/statistics"
	"github.com/pbenner/autodiff/statistics/matrixDistribution"
	"github.com/pbenner/autodiff/statistics/scalarDistribution"
	"github.com/pbenner/autodiff/statistics/vectorDistribution"
	"pgregory.net/rapid"
	"verifharness/model"
	"verifharness/obs"
)

// covariance L L^T with small dyadic entries
func drawSpd(t *rapid.T, n int) Matrix {
	l := make([][]float64, n)
	for i := range l {
		l[i] = make([]float64, n)
		for j := 0; j < i; j++ {
			l[i][j] = float64(rapid.IntRange(-4, 4).Draw(t, "l")) / 4
		}
		l[i][i] = float64(rapid.IntRange(2, 8).Draw(t, "d")) / 4
	}
	m := NullDenseFloat64Matrix(n, n)
	for i := 0; i < n; i++ {
		for j := 0; j < n; j++ {
			s := 0.0
			for k := 0; k < n; k++ {
				s += l[i][k] * l[j][k]
			}
			m.At(i, j).SetFloat64(s)
		}
	}
	return m
}

func drawVec8(t *rapid.T, n int, lo, hi int) Vector {
	v := NullDenseFloat64Vector(n)
	for i := 0; i < n; i++ {
		v.At(i).SetFloat64(float64(rapid.IntRange(lo, hi).Draw(t, "v")) / 8)
	}
	return v
}

func drawVectorPdf(t *rapid.T, n int, depth int) (statistics.VectorPdf, string) {
	kinds := []string{"normal", "t", "skew normal", "scalarId", "scalarIid", "logistic regression"}
	if depth == 0 {
		kinds = append(kinds, "mixture", "hmm")
	}
	kind := rapid.SampledFrom(kinds).Draw(t, "vector family")
	var d statistics.VectorPdf
	var err error
	switch kind {
	case "normal":
		d, err = vectorDistribution.NewNormalDistribution(drawVec8(t, n, -16, 16), drawSpd(t, n))
	case "t":
		d, err = vectorDistribution.NewTDistribution(NewFloat64(float64(rapid.IntRange(9, 80).Draw(t, "nu"))/8), drawVec8(t, n, -16, 16), drawSpd(t, n))
	case "skew normal":
		omega := drawSpd(t, n)
		// unit diagonal
		dd := make([]float64, n)
		for i := range dd {
			dd[i] = omega.At(i, i).GetFloat64()
		}
		for i := 0; i < n; i++ {
			for j := 0; j < n; j++ {
				omega.At(i, j).SetFloat64(omega.At(i, j).GetFloat64() / (sqrt(dd[i]) * sqrt(dd[j])))
			}
		}
		d, err = vectorDistribution.NewSkewNormalDistribution(drawVec8(t, n, -16, 16), omega, drawVec8(t, n, -16, 16), drawVec8(t, n, 2, 16))
	case "logistic regression":
		// theta has one entry per feature and the intercept; the argument is (1, features...)
		d, err = vectorDistribution.NewLogisticRegression(drawVec8(t, n, -16, 16))
	case "scalarId":
		ds := make([]statistics.ScalarPdf, n)
		for i := range ds {
			ds[i], _ = drawScalarPdf(t, 1)
		}
		d, err = vectorDistribution.NewScalarId(ds...)
	case "scalarIid":
		s, _ := drawScalarPdf(t, 1)
		d, err = vectorDistribution.NewScalarIid(s, n)
	case "mixture":
		k := rapid.IntRange(1, 3).Draw(t, "components")
		w := NullDenseFloat64Vector(k)
		ed := make([]statistics.VectorPdf, k)
		for i := 0; i < k; i++ {
			w.At(i).SetFloat64(float64(rapid.IntRange(1, 8).Draw(t, "weight")))
			ed[i], _ = drawVectorPdf(t, n, depth+1)
		}
		d, err = vectorDistribution.NewMixture(w, ed)
	case "hmm":
		m := rapid.IntRange(1, 3).Draw(t, "states")
		pi := NullDenseFloat64Vector(m)
		tr := NullDenseFloat64Matrix(m, m)
		for i := 0; i < m; i++ {
			pi.At(i).SetFloat64(float64(rapid.IntRange(1, 8).Draw(t, "pi")))
			for j := 0; j < m; j++ {
				tr.At(i, j).SetFloat64(float64(rapid.IntRange(1, 8).Draw(t, "tr")))
			}
		}
		ne := rapid.IntRange(1, m).Draw(t, "emissions")
		sm := make([]int, m)
		for i := range sm {
			sm[i] = i % ne
		}
		ed := make([]statistics.ScalarPdf, ne)
		for i := range ed {
			ed[i], _ = scalarDistribution.NewNormalDistribution(NewFloat64(float64(rapid.IntRange(-16, 16).Draw(t, "mu"))/8), NewFloat64(float64(rapid.IntRange(2, 16).Draw(t, "sigma"))/8))
		}
		d, err = vectorDistribution.NewHmm(pi, tr, sm, ed)
	}
	if err != nil || d == nil {
		d, _ = vectorDistribution.NewNormalDistribution(drawVec8(t, n, -16, 16), drawSpd(t, n))
		kind = "normal(fallback)"
	}
	return d, kind
}

func sqrt(x float64) float64 {
	z := x
	for i := 0; i < 60; i++ {
		z = (z + x/z) / 2
	}
	return z
}

// the configuration of a vector or matrix distribution read back gives the same log-density
func TestC18_vector_distribution_config(t *testing.T) {
	rapid.Check(t, func(t *rapid.T) {
		n := rapid.IntRange(1, 3).Draw(t, "n")
		matrix := rapid.IntRange(0, 5).Draw(t, "matrix") == 0
		pts := make([][]float64, 3)
		for i := range pts {
			pts[i] = make([]float64, n*n)
			for j := range pts[i] {
				pts[i][j] = float64(rapid.IntRange(-24, 24).Draw(t, "x")) / 8
			}
		}
		if matrix {
			nu := NewFloat64(float64(n-1) + float64(rapid.IntRange(2, 40).Draw(t, "nu"))/4)
			d, err := matrixDistribution.NewInverseWishartDistribution(nu, drawSpd(t, n))
			c := obs.Begin("vector_distribution_config", "inverse Wishart n=%d nu=%v", n, nu)
			c.Class("family=matrix:inverse wishart")
			c.NT(true)
			if err != nil {
				c.End()
				return
			}
			var buf bytes.Buffer
			if p := call(func() { err = d.ExportConfig().WriteJson(&buf) }); p != "" || err != nil {
				t.Fatalf("%s: export panic=%q err=%v", c.Desc(), p, err)
			}
			js := buf.String()
			var cfg statistics.ConfigDistribution
			if err := cfg.ReadJson(&buf); err != nil {
				t.Fatalf("%s: ReadJson error %v", c.Desc(), err)
			}
			var d2 statistics.MatrixPdf
			if p := call(func() { d2, err = statistics.ImportMatrixPdfConfig(cfg, Float64Type) }); p != "" || err != nil {
				t.Fatalf("%s: import panic=%q err=%v (json %s)", c.Desc(), p, err, js)
			}
			x := drawSpd(t, n)
			r1, r2 := NewFloat64(0), NewFloat64(0)
			e1, e2 := d.LogPdf(r1, x), d2.LogPdf(r2, x)
			if (e1 == nil) != (e2 == nil) || (e1 == nil && !model.Close(r1.GetFloat64(), r2.GetFloat64(), 1e-12, 1e-12)) {
				t.Fatalf("%s: LogPdf %v (%v) before, %v (%v) after the round trip (json %s)", c.Desc(), r1, e1, r2, e2, js)
			}
			c.End()
			return
		}
		d, kind := drawVectorPdf(t, n, 0)
		c := obs.Begin("vector_distribution_config", "vector %s n=%d params=%v", kind, n, d.GetParameters())
		c.Classf("family=vector:%s", kind)
		c.NT(true)
		var buf bytes.Buffer
		var err error
		if p := call(func() { err = d.ExportConfig().WriteJson(&buf) }); p != "" || err != nil {
			t.Fatalf("%s: export panic=%q err=%v", c.Desc(), p, err)
		}
		js := buf.String()
		var cfg statistics.ConfigDistribution
		if err := cfg.ReadJson(&buf); err != nil {
			t.Fatalf("%s: ReadJson error %v", c.Desc(), err)
		}
		var d2 statistics.VectorPdf
		if p := call(func() { d2, err = statistics.ImportVectorPdfConfig(cfg, Float64Type) }); p != "" || err != nil {
			t.Fatalf("%s: import panic=%q err=%v (json %s)", c.Desc(), p, err, js)
		}
		for _, pt := range pts {
			x := NewDenseFloat64Vector(pt[:n])
			r1, r2 := NewFloat64(0), NewFloat64(0)
			var e1, e2 error
			if p := call(func() { e1 = d.LogPdf(r1, x) }); p != "" {
				e1 = fmt.Errorf("panic %s", p)
			}
			if p := call(func() { e2 = d2.LogPdf(r2, x) }); p != "" {
				e2 = fmt.Errorf("panic %s", p)
			}
			if (e1 == nil) != (e2 == nil) || (e1 == nil && !model.Close(r1.GetFloat64(), r2.GetFloat64(), 1e-12, 1e-12)) {
				t.Fatalf("%s: LogPdf(%v) = %v (%v) before, %v (%v) after the round trip (json %s)", c.Desc(), pt[:n], r1, e1, r2, e2, js)
			}
		}
		c.End()
	})
}

func roundTripVector(d statistics.VectorPdf) error {
	var buf bytes.Buffer
	if err := d.ExportConfig().WriteJson(&buf); err != nil {
		return err
	}
	var cfg statistics.ConfigDistribution
	if err := cfg.ReadJson(&buf); err != nil {
		return err
	}
	_, err := statistics.ImportVectorPdfConfig(cfg, Float64Type)
	return err
}

func TestKF_t_distribution_config_import(t *testing.T) {
	d, _ := vectorDistribution.NewTDistribution(NewFloat64(3), NewDenseFloat64Vector([]float64{0.5}), NewDenseFloat64Matrix([]float64{2}, 1, 1))
	var buf bytes.Buffer
	d.ExportConfig().WriteJson(&buf)
	var cfg statistics.ConfigDistribution
	cfg.ReadJson(&buf)
	nu, ok := cfg.GetNamedParameterAsScalar("Nu", Float64Type)
	obs.KFStatus("C18/named-scalar-parameter-getter-ignores-the-name", !ok || nu.GetFloat64() != 3, fmt.Sprintf("GetNamedParameterAsScalar(\"Nu\") = %v, %v", nu, ok))
}

func TestKF_unregistered_distribution_names(t *testing.T) {
	d, _ := vectorDistribution.NewLogisticRegression(NewDenseFloat64Vector([]float64{0.5, 1}))
	var err error
	p := call(func() { err = roundTripVector(d) })
	obs.KFStatus("C18/exported-distribution-names-missing-from-the-registry", p != "" || err != nil, fmt.Sprintf("panic=%q err=%v", p, err))
}
