// C16 — closed-form estimators return (bounded) weighted likelihood maximisers, numeric
// estimators stop at stationary points, EM never decreases the data log-likelihood and reports
// the likelihood of the model of that iteration.
package c16

import (
	"fmt"
	"math"
	"os"
	"testing"
	"time"

	. "github.com/pbenner/autodiff"
	"github.com/pbenner/autodiff/statistics"
	"github.com/pbenner/autodiff/statistics/generic"
	"github.com/pbenner/autodiff/statistics/matrixDistribution"
	"github.com/pbenner/autodiff/statistics/matrixEstimator"
	"github.com/pbenner/autodiff/statistics/scalarDistribution"
	"github.com/pbenner/autodiff/statistics/scalarEstimator"
	"github.com/pbenner/autodiff/statistics/vectorDistribution"
	"github.com/pbenner/autodiff/statistics/vectorEstimator"
	"github.com/pbenner/threadpool"
	"pgregory.net/rapid"
	"verifharness/model"
	"verifharness/obs"
)

func TestMain(m *testing.M) {
	code := m.Run()
	obs.Flush()
	os.Exit(code)
}

var watchdog = 20 * time.Second

func guarded(f func()) (perr string, timedOut bool) {
	done := make(chan string, 1)
	go func() {
		defer func() {
			if r := recover(); r != nil {
				s := fmt.Sprint(r)
				if len(s) > 200 {
					s = s[:200]
				}
				done <- "panic: " + s
			}
		}()
		f()
		done <- ""
	}()
	select {
	case p := <-done:
		return p, false
	case <-time.After(watchdog):
		return "", true
	}
}

// ---------------------------------------------------------------------------------------------
// families: closed-form log densities written here (not the library's), parameter domains,
// estimator construction

type family struct {
	name      string
	estimated []int // indices of the parameter vector the estimator determines
	logpdf    func(theta []float64, x float64) float64
	domain    func(theta []float64) bool
	drawX     func(t *rapid.T, label string) float64
	// newEstimator draws initial parameters and bounds; bound reports whether theta respects the
	// configured bounds; step gives the perturbation scale of coordinate k
	newEstimator func(t *rapid.T) (est statistics.ScalarEstimator, cfg string, bound func(theta []float64) bool)
	step         func(theta []float64, k int) float64
	// degenerate: no maximiser inside the open parameter space (an error is an acceptable answer)
	degenerate func(x, w []float64) bool
}

func xlogy(x, y float64) float64 {
	if x == 0 {
		return 0
	}
	return x * math.Log(y)
}

func lgamma(x float64) float64 { v, _ := math.Lgamma(x); return v }

func drawCount(t *rapid.T, label string) float64 {
	switch rapid.IntRange(0, 9).Draw(t, label+".kind") {
	case 0:
		return float64(rapid.IntRange(50, 2000).Draw(t, label))
	case 1, 2:
		return 0
	default:
		return float64(rapid.IntRange(0, 12).Draw(t, label))
	}
}

func relStep(theta []float64, k int) float64 { return math.Abs(theta[k]) }

func wsum(x, w []float64, f func(float64) float64) float64 {
	s := 0.0
	for i := range x {
		if w[i] > 0 {
			s += w[i] * f(x[i])
		}
	}
	return s
}

var families = []family{
	{
		name: "normal", estimated: []int{0, 1},
		logpdf: func(th []float64, x float64) float64 {
			z := (x - th[0]) / th[1]
			return -0.5*math.Log(2*math.Pi) - math.Log(th[1]) - 0.5*z*z
		},
		domain: func(th []float64) bool { return th[1] > 0 },
		// the data set shares one offset (drawn by the caller through drawNormalData)
		drawX: func(t *rapid.T, label string) float64 { return rapid.Float64Range(-3, 3).Draw(t, label) },
		newEstimator: func(t *rapid.T) (statistics.ScalarEstimator, string, func([]float64) bool) {
			sigmaMin := rapid.SampledFrom([]float64{1e-8, 1e-3, 0.1, 1, 2.5}).Draw(t, "sigmaMin")
			mu0 := rapid.Float64Range(-5, 5).Draw(t, "mu0")
			sigma0 := sigmaMin + rapid.Float64Range(0.01, 3).Draw(t, "sigma0")
			e, err := scalarEstimator.NewNormalEstimator(mu0, sigma0, sigmaMin)
			if err != nil {
				t.Fatalf("NewNormalEstimator: %v", err)
			}
			return e, fmt.Sprintf("mu0=%v sigma0=%v sigmaMin=%v", mu0, sigma0, sigmaMin), func(th []float64) bool { return th[1] >= sigmaMin }
		},
		step:       func(th []float64, k int) float64 { return th[1] },
		degenerate: func(x, w []float64) bool { return false },
	},
	{
		name: "exponential", estimated: []int{0},
		logpdf: func(th []float64, x float64) float64 { return math.Log(th[0]) - th[0]*x },
		domain: func(th []float64) bool { return th[0] > 0 && !math.IsInf(th[0], 1) },
		drawX: func(t *rapid.T, label string) float64 {
			switch rapid.IntRange(0, 7).Draw(t, label+".kind") {
			case 0:
				return 1e-6
			case 1:
				return 1e4
			case 2:
				return float64(rapid.IntRange(1, 5).Draw(t, label))
			default:
				return rapid.Float64Range(0.01, 10).Draw(t, label)
			}
		},
		newEstimator: func(t *rapid.T) (statistics.ScalarEstimator, string, func([]float64) bool) {
			lambdaMax := rapid.SampledFrom([]float64{0.05, 0.5, 2, 1e3, 1e9}).Draw(t, "lambdaMax")
			lambda0 := lambdaMax * rapid.Float64Range(0.01, 1).Draw(t, "lambda0")
			e, err := scalarEstimator.NewExponentialEstimator(lambda0, lambdaMax)
			if err != nil {
				t.Fatalf("NewExponentialEstimator: %v", err)
			}
			return e, fmt.Sprintf("lambda0=%v lambdaMax=%v", lambda0, lambdaMax), func(th []float64) bool { return th[0] <= lambdaMax }
		},
		step:       relStep,
		degenerate: func(x, w []float64) bool { return false },
	},
	{
		name: "poisson", estimated: []int{0},
		logpdf: func(th []float64, x float64) float64 { return xlogy(x, th[0]) - th[0] - lgamma(x+1) },
		domain: func(th []float64) bool { return th[0] > 0 },
		drawX:  drawCount,
		newEstimator: func(t *rapid.T) (statistics.ScalarEstimator, string, func([]float64) bool) {
			lambda0 := rapid.Float64Range(0.1, 20).Draw(t, "lambda0")
			e, err := scalarEstimator.NewPoissonEstimator(lambda0)
			if err != nil {
				t.Fatalf("NewPoissonEstimator: %v", err)
			}
			return e, fmt.Sprintf("lambda0=%v", lambda0), func([]float64) bool { return true }
		},
		step: relStep,
		// all (weighted) observations zero: the maximiser lambda = 0 is outside the parameter space
		degenerate: func(x, w []float64) bool { return wsum(x, w, func(v float64) float64 { return v }) == 0 },
	},
	{
		name: "geometric", estimated: []int{0},
		logpdf: func(th []float64, x float64) float64 { return math.Log(th[0]) + xlogy(x, 1-th[0]) },
		domain: func(th []float64) bool { return th[0] > 0 && th[0] <= 1 },
		drawX:  drawCount,
		newEstimator: func(t *rapid.T) (statistics.ScalarEstimator, string, func([]float64) bool) {
			p0 := rapid.Float64Range(0.01, 1).Draw(t, "p0")
			e, err := scalarEstimator.NewGeometricEstimator(p0)
			if err != nil {
				t.Fatalf("NewGeometricEstimator: %v", err)
			}
			return e, fmt.Sprintf("p0=%v", p0), func([]float64) bool { return true }
		},
		step: relStep,
		// all (weighted) observations zero: the maximiser p = 1 is on the boundary of the parameter
		// space (rounding may put the computed value just outside; an error is accepted)
		degenerate: func(x, w []float64) bool { return wsum(x, w, func(v float64) float64 { return v }) == 0 },
	},
	{
		name: "negative binomial", estimated: []int{1},
		logpdf: func(th []float64, x float64) float64 {
			return lgamma(th[0]+x) - lgamma(x+1) - lgamma(th[0]) + th[0]*math.Log(1-th[1]) + xlogy(x, th[1])
		},
		domain: func(th []float64) bool { return th[0] > 0 && th[1] >= 0 && th[1] < 1 },
		drawX:  drawCount,
		newEstimator: func(t *rapid.T) (statistics.ScalarEstimator, string, func([]float64) bool) {
			r0 := rapid.SampledFrom([]float64{0.5, 1, 2, 5.5, 40}).Draw(t, "r0")
			p0 := rapid.Float64Range(0.05, 0.95).Draw(t, "p0")
			e, err := scalarEstimator.NewNegativeBinomialEstimator(r0, p0)
			if err != nil {
				t.Fatalf("NewNegativeBinomialEstimator: %v", err)
			}
			return e, fmt.Sprintf("r=%v p0=%v", r0, p0), func([]float64) bool { return true }
		},
		step:       relStep,
		degenerate: func(x, w []float64) bool { return false },
	},
}

// ---------------------------------------------------------------------------------------------
// data and weights

type dataSet struct {
	x     []float64
	gamma []float64 // log weights, nil: unweighted
	w     []float64 // exp(gamma) or ones
}

func drawData(t *rapid.T, f family) dataSet {
	n := rapid.IntRange(1, 40).Draw(t, "n")
	d := dataSet{x: make([]float64, n), w: make([]float64, n)}
	offset := 0.0
	if f.name == "normal" {
		offset = rapid.SampledFrom([]float64{0, 0, 0, 10, -1000, 1e6}).Draw(t, "offset")
	}
	for i := range d.x {
		if i > 0 && rapid.IntRange(0, 4).Draw(t, fmt.Sprintf("repeat%d", i)) == 0 {
			d.x[i] = d.x[rapid.IntRange(0, i-1).Draw(t, fmt.Sprintf("repeatOf%d", i))]
		} else {
			d.x[i] = offset + f.drawX(t, fmt.Sprintf("x[%d]", i))
		}
		d.w[i] = 1
	}
	if rapid.Bool().Draw(t, "weighted") {
		d.gamma = make([]float64, n)
		any := false
		for i := range d.gamma {
			switch rapid.IntRange(0, 5).Draw(t, fmt.Sprintf("gkind%d", i)) {
			case 0:
				d.gamma[i] = math.Inf(-1)
			case 1:
				d.gamma[i] = 0
			default:
				d.gamma[i] = rapid.Float64Range(-20, 0).Draw(t, fmt.Sprintf("gamma[%d]", i))
			}
			d.w[i] = math.Exp(d.gamma[i])
			if d.w[i] > 0 {
				any = true
			}
		}
		if !any {
			d.gamma[0], d.w[0] = 0, 1
		}
	}
	return d
}

func (d dataSet) gammaVector() ConstVector {
	if d.gamma == nil {
		return nil
	}
	return NewDenseFloat64Vector(d.gamma)
}

func distinct(xs []float64) int {
	m := map[float64]bool{}
	for _, x := range xs {
		m[x] = true
	}
	return len(m)
}

func drawPool(t *rapid.T, c *obs.Case) (threadpool.ThreadPool, func()) {
	k := rapid.IntRange(0, 3).Draw(t, "threads")
	if k == 0 {
		return threadpool.Nil(), func() {}
	}
	c.Class("thread pool")
	p := threadpool.New(k, 20)
	return p, func() { p.Stop() }
}

func params(d statistics.BasicDistribution) []float64 {
	v := d.GetParameters()
	r := make([]float64, v.Dim())
	for i := range r {
		r[i] = v.At(i).GetFloat64()
	}
	return r
}

// deltaL = sum w_i (l(x_i|b) - l(x_i|a)) and the size of the terms (for the rounding allowance)
func deltaL(f func([]float64, float64) float64, a, b []float64, d dataSet) (delta, scale float64, aInf, bInf bool) {
	for i, x := range d.x {
		if d.w[i] == 0 {
			continue
		}
		la, lb := f(a, x), f(b, x)
		if math.IsInf(la, -1) || math.IsNaN(la) {
			aInf = true
		}
		if math.IsInf(lb, -1) || math.IsNaN(lb) {
			bInf = true
		}
		if aInf || bInf {
			continue
		}
		delta += d.w[i] * (lb - la)
		scale += d.w[i] * (1 + math.Abs(la) + math.Abs(lb))
	}
	return
}

// checkArgmax: no admissible perturbation of the estimated coordinates increases the likelihood
func checkArgmax(t *rapid.T, c *obs.Case, f family, theta []float64, d dataSet, bound func([]float64) bool) {
	if !f.domain(theta) {
		t.Fatalf("%s: the estimate %v is outside the parameter space", c.Desc(), theta)
	}
	if !bound(theta) {
		t.Fatalf("%s: the estimate %v violates the configured bound", c.Desc(), theta)
	}
	for _, k := range f.estimated {
		for _, rel := range []float64{1e-2, 1e-4, 1e-6} {
			for _, sgn := range []float64{-1, 1} {
				th := append([]float64{}, theta...)
				th[k] += sgn * rel * f.step(theta, k)
				if th[k] == theta[k] || !f.domain(th) {
					continue
				}
				if !bound(th) {
					c.Class("bound active")
					continue
				}
				delta, scale, aInf, bInf := deltaL(f.logpdf, theta, th, d)
				if aInf && !bInf {
					t.Fatalf("%s: the estimate %v gives zero likelihood to observed data but the admissible neighbour %v does not", c.Desc(), theta, th)
				}
				if aInf || bInf {
					continue
				}
				// allowance: rounding of the sums plus what an estimate that is accurate to
				// 1e-9 (relative, on the step scale) can lose: curvature * 1e-9 * rel
				// ... and for the normal family what the conditioning of the data permits: deviations
				// from the mean are known to max|x|/sigma * 2^-53 only, so no algorithm working in
				// float64 gets sigma more accurately than that
				acc := 1e-9
				if f.name == "normal" {
					mx := 0.0
					for i, x := range d.x {
						if d.w[i] > 0 && math.Abs(x) > mx {
							mx = math.Abs(x)
						}
					}
					if a := 10 * mx / theta[1] * 1.2e-16; a > acc {
						acc = a
						c.Class("ill-conditioned data (accuracy allowance widened)")
					}
				}
				if allow := 1e-12*scale + acc*rel*scale; delta > allow {
					t.Fatalf("%s: the estimate %v is not a maximiser: moving parameter %d by %+g (to %v) raises the weighted log-likelihood by %g (allowance %g)",
						c.Desc(), theta, k, th[k]-theta[k], th[k], delta, allow)
				}
			}
		}
	}
}

// ---------------------------------------------------------------------------------------------
// (a) closed-form scalar estimators

func TestC16_closed_form_is_argmax(t *testing.T) {
	rapid.Check(t, func(t *rapid.T) {
		f := families[rapid.IntRange(0, len(families)-1).Draw(t, "family")]
		est, cfg, bound := f.newEstimator(t)
		d := drawData(t, f)
		c := obs.Begin("closed_form_is_argmax", "%s %s x=%v gamma=%v", f.name, cfg, d.x, d.gamma)
		c.Classf("family=%s", f.name)
		if d.gamma != nil {
			c.Class("weighted")
			zero := false
			for _, w := range d.w {
				if w == 0 {
					zero = true
				}
			}
			if zero {
				c.Class("zero-weight observations")
			}
		}
		c.NT(distinct(d.x) >= 3 && (d.gamma == nil || distinct(d.w) >= 2))
		pool, stop := drawPool(t, c)
		defer stop()
		var err error
		p, to := guarded(func() { err = est.EstimateOnData(NewDenseFloat64Vector(d.x), d.gammaVector(), pool) })
		if to {
			c.Class("inconclusive: watchdog")
			c.End()
			return
		}
		if p != "" {
			t.Fatalf("%s: EstimateOnData %s", c.Desc(), p)
		}
		if err != nil {
			if f.degenerate(d.x, d.w) {
				c.Class("degenerate data: error reported")
				c.End()
				return
			}
			t.Fatalf("%s: EstimateOnData returned error %v", c.Desc(), err)
		}
		dist, err := est.GetEstimate()
		if err != nil {
			t.Fatalf("%s: GetEstimate error %v", c.Desc(), err)
		}
		theta := params(dist)
		if pe := params(est.(statistics.BasicDistribution)); fmt.Sprint(pe) != fmt.Sprint(theta) {
			t.Fatalf("%s: estimator parameters %v differ from those of its estimate %v", c.Desc(), pe, theta)
		}
		if f.degenerate(d.x, d.w) {
			c.Class("degenerate data")
			c.End()
			return
		}
		checkArgmax(t, c, f, theta, d, bound)
		c.End()
	})
}

// ---------------------------------------------------------------------------------------------
// (b) categorical estimator: maximiser on the simplex

func TestC16_categorical_is_argmax(t *testing.T) {
	rapid.Check(t, func(t *rapid.T) {
		k := rapid.IntRange(2, 5).Draw(t, "categories")
		theta0 := make([]float64, k)
		for i := range theta0 {
			theta0[i] = rapid.Float64Range(0.05, 1).Draw(t, fmt.Sprintf("theta0[%d]", i))
		}
		f := family{name: "categorical", drawX: func(t *rapid.T, label string) float64 {
			return float64(rapid.IntRange(0, k-1).Draw(t, label))
		}}
		d := drawData(t, f)
		c := obs.Begin("categorical_is_argmax", "categorical k=%d theta0=%v x=%v gamma=%v", k, theta0, d.x, d.gamma)
		if d.gamma != nil {
			c.Class("weighted")
		}
		c.NT(distinct(d.x) >= 2)
		est, err := scalarEstimator.NewCategoricalEstimator(theta0)
		if err != nil {
			t.Fatalf("%s: constructor %v", c.Desc(), err)
		}
		pool, stop := drawPool(t, c)
		defer stop()
		p, to := guarded(func() { err = est.EstimateOnData(NewDenseFloat64Vector(d.x), d.gammaVector(), pool) })
		if to {
			c.Class("inconclusive: watchdog")
			c.End()
			return
		}
		if p != "" || err != nil {
			t.Fatalf("%s: EstimateOnData %s %v", c.Desc(), p, err)
		}
		dist, _ := est.GetEstimate()
		lt := params(dist) // log probabilities
		// expected: weighted relative frequencies
		tot := 0.0
		cnt := make([]float64, k)
		for i, x := range d.x {
			cnt[int(x)] += d.w[i]
			tot += d.w[i]
		}
		s := 0.0
		for j := 0; j < k; j++ {
			want := cnt[j] / tot
			got := math.Exp(lt[j])
			s += got
			if math.Abs(got-want) > 1e-12*(1+want) {
				t.Fatalf("%s: probability of category %d is %v, the weighted relative frequency is %v", c.Desc(), j, got, want)
			}
			if want == 0 {
				c.Class("unobserved category")
			}
		}
		if math.Abs(s-1) > 1e-12 {
			t.Fatalf("%s: probabilities sum to %v", c.Desc(), s)
		}
		c.End()
	})
}

// ---------------------------------------------------------------------------------------------
// (c) the batch interface (Initialize / NewObservation / GetEstimate) gives the offline estimate

func TestC16_batch_equals_offline(t *testing.T) {
	rapid.Check(t, func(t *rapid.T) {
		f := families[rapid.IntRange(0, len(families)-1).Draw(t, "family")]
		est, cfg, _ := f.newEstimator(t)
		d := drawData(t, f)
		if f.name == "normal" {
			// the batch interface has no access to the largest weight: keep them moderate
			for i := range d.gamma {
				if d.gamma[i] < -5 && !math.IsInf(d.gamma[i], -1) {
					d.gamma[i] = -5
					d.w[i] = math.Exp(-5)
				}
			}
		}
		c := obs.Begin("batch_equals_offline", "%s %s x=%v gamma=%v", f.name, cfg, d.x, d.gamma)
		c.Classf("family=%s", f.name)
		if d.gamma != nil {
			c.Class("weighted")
		}
		c.NT(distinct(d.x) >= 3)
		if f.degenerate(d.x, d.w) {
			c.Class("degenerate data")
			c.End()
			return
		}
		batch := est.CloneScalarEstimator().(statistics.ScalarBatchEstimator)
		pool := threadpool.Nil()
		var err error
		if p, _ := guarded(func() { err = est.EstimateOnData(NewDenseFloat64Vector(d.x), d.gammaVector(), pool) }); p != "" || err != nil {
			t.Fatalf("%s: EstimateOnData %s %v", c.Desc(), p, err)
		}
		off, _ := est.GetEstimate()
		var on statistics.ScalarPdf
		if p, _ := guarded(func() {
			if err = batch.Initialize(pool); err != nil {
				return
			}
			for i, x := range d.x {
				var g ConstScalar
				if d.gamma != nil {
					g = ConstFloat64(d.gamma[i])
				}
				if err = batch.NewObservation(ConstFloat64(x), g, pool); err != nil {
					return
				}
			}
			on, err = batch.GetEstimate()
		}); p != "" || err != nil {
			t.Fatalf("%s: batch interface %s %v", c.Desc(), p, err)
		}
		a, b := params(off), params(on)
		for k := range a {
			tol := 1e-9 * math.Max(math.Abs(a[k]), f.step(a, k))
			if math.Abs(a[k]-b[k]) > tol {
				t.Fatalf("%s: offline estimate %v, batch estimate %v", c.Desc(), a, b)
			}
		}
		c.End()
	})
}

// ---------------------------------------------------------------------------------------------
// (d) EM for scalar mixtures

type mixSnapshot struct {
	logW  []float64
	theta [][]float64
}

func snapshotMixture(m *scalarDistribution.Mixture) mixSnapshot {
	s := mixSnapshot{}
	for i := 0; i < m.NComponents(); i++ {
		s.logW = append(s.logW, m.LogWeights.At(i).GetFloat64())
		s.theta = append(s.theta, params(m.Edist[i]))
	}
	return s
}

func (s mixSnapshot) logLik(fams []family, x []float64) float64 {
	tot := 0.0
	for _, xi := range x {
		terms := make([]float64, len(s.logW))
		for j := range terms {
			terms[j] = s.logW[j] + fams[j].logpdf(s.theta[j], xi)
		}
		tot += model.LogSumExp(terms)
	}
	return tot
}

func famByName(n string) family {
	for _, f := range families {
		if f.name == n {
			return f
		}
	}
	panic(n)
}

var mixtureKinds = [][]string{
	{"normal", "normal"}, {"normal", "normal", "normal"}, {"poisson", "poisson"}, {"poisson", "geometric"}, {"geometric", "negative binomial", "poisson"},
	{"exponential", "exponential"}, {"exponential", "normal"},
}

func TestC16_em_monotone_mixture(t *testing.T) {
	rapid.Check(t, func(t *rapid.T) {
		kind := mixtureKinds[rapid.IntRange(0, len(mixtureKinds)-1).Draw(t, "kind")]
		fams := make([]family, len(kind))
		ests := make([]statistics.ScalarEstimator, len(kind))
		cfg := ""
		for j, n := range kind {
			fams[j] = famByName(n)
			var s string
			ests[j], s, _ = fams[j].newEstimator(t)
			cfg += fmt.Sprintf(" [%s %s]", n, s)
		}
		// data in the support of every component
		n := rapid.IntRange(2, 40).Draw(t, "n")
		x := make([]float64, n)
		for i := range x {
			src := fams[rapid.IntRange(0, len(fams)-1).Draw(t, fmt.Sprintf("src%d", i))]
			x[i] = src.drawX(t, fmt.Sprintf("x[%d]", i))
			if kind[0] == "exponential" && x[i] <= 0 {
				x[i] = 0.5
			}
		}
		var weights []float64
		if rapid.Bool().Draw(t, "weights") {
			for range kind {
				weights = append(weights, rapid.Float64Range(0.05, 1).Draw(t, "w"))
			}
		}
		eps := rapid.SampledFrom([]float64{0, 1e-12, 1e-6}).Draw(t, "epsilon")
		maxSteps := rapid.IntRange(1, 30).Draw(t, "maxSteps")
		c := obs.Begin("em_monotone_mixture", "mixture%s weights=%v eps=%v maxSteps=%d x=%v", cfg, weights, eps, maxSteps, x)
		c.Classf("components=%v", kind)
		var trace []float64
		var models []mixSnapshot
		hook := generic.EmHook{Value: func(m generic.BasicMixture, i int, likelihood, e float64) {
			if i > 0 {
				trace = append(trace, likelihood)
			}
			models = append(models, snapshotMixture(m.(*scalarDistribution.Mixture)))
		}}
		// count data: also the estimator that summarises repeated observations (SetData + Estimate)
		discrete := kind[0] != "normal" && kind[0] != "exponential" && kind[len(kind)-1] != "normal" && rapid.Bool().Draw(t, "summarizedData")
		var est interface {
			statistics.ScalarEstimator
		}
		var err error
		if discrete {
			c.Class("summarised data (DiscreteMixtureEstimator)")
			if distinct(x) < len(x) {
				c.Class("repeated observations")
			}
			est, err = scalarEstimator.NewDiscreteMixtureEstimator(weights, ests, eps, maxSteps, hook)
		} else {
			est, err = scalarEstimator.NewMixtureEstimator(weights, ests, eps, maxSteps, hook)
		}
		if err != nil {
			t.Fatalf("%s: constructor %v", c.Desc(), err)
		}
		// EM runs sequentially here: pooled execution (and the error a pool can lose, C17) is C17's subject
		pool, stop := threadpool.Nil(), func() {}
		defer stop()
		p, to := guarded(func() {
			if discrete {
				if err = est.SetData(NewDenseFloat64Vector(x), len(x)); err == nil {
					err = est.Estimate(nil, pool)
				}
			} else {
				err = est.EstimateOnData(NewDenseFloat64Vector(x), nil, pool)
			}
		})
		if to {
			c.Class("inconclusive: watchdog")
			c.End()
			return
		}
		if p != "" {
			t.Fatalf("%s: EstimateOnData %s", c.Desc(), p)
		}
		c.NT(len(trace) >= 3)
		c.Classf("iterations=%d", min(len(trace), 5))
		if err != nil {
			// a component that lost all its observations or zero probability for an observation
			c.Class("EM stopped with an error")
			c.SetDesc(c.Desc() + fmt.Sprintf(" (error: %v)", err))
		}
		checkTrace(t, c, trace, func(k int) float64 { return models[k].logLik(fams, x) }, len(models))
		if err == nil {
			final, _ := est.GetEstimate()
			lf := snapshotMixture(final.(*scalarDistribution.Mixture)).logLik(fams, x)
			if len(trace) > 0 && !(lf >= trace[len(trace)-1]-tolL(lf)) {
				t.Fatalf("%s: the final estimate has log-likelihood %v, below the last reported value %v", c.Desc(), lf, trace[len(trace)-1])
			}
		}
		c.End()
	})
}

func tolL(l float64) float64 { return 1e-9 * (1 + math.Abs(l)) }

func min(a, b int) int {
	if a < b {
		return a
	}
	return b
}

// checkTrace: monotone, and the value reported at iteration k is the likelihood of the model the
// iteration started from (models[0] is the initial model, models[k] the one produced by iteration k)
func checkTrace(t *rapid.T, c *obs.Case, trace []float64, lik func(k int) float64, nmodels int) {
	for k, l := range trace {
		if math.IsNaN(l) {
			t.Fatalf("%s: iteration %d reports a NaN likelihood (trace %v)", c.Desc(), k+1, trace)
		}
		if k > 0 && l < trace[k-1]-tolL(l) {
			t.Fatalf("%s: the likelihood decreased from %v to %v at iteration %d (trace %v)", c.Desc(), trace[k-1], l, k+1, trace)
		}
		if k < nmodels {
			if want := lik(k); math.Abs(want-l) > tolL(want) && !(math.IsInf(want, -1) && math.IsInf(l, -1)) {
				t.Fatalf("%s: iteration %d reports the likelihood %v, the model that iteration started from has %v (trace %v)", c.Desc(), k+1, l, want, trace)
			}
		}
	}
}

// ---------------------------------------------------------------------------------------------
// (e) Baum-Welch for HMMs with scalar emissions (also mixtures as emissions: nested EM)

func TestC16_em_monotone_hmm(t *testing.T) {
	rapid.Check(t, func(t *rapid.T) {
		m := rapid.IntRange(2, 3).Draw(t, "states")
		emission := rapid.SampledFrom([]string{"normal", "poisson", "geometric", "mixture of normals"}).Draw(t, "emission")
		ests := make([]statistics.ScalarEstimator, m)
		cfg := ""
		var fam family
		for j := range ests {
			if emission == "mixture of normals" {
				fam = famByName("normal")
				e1, s1, _ := fam.newEstimator(t)
				e2, s2, _ := fam.newEstimator(t)
				me, err := scalarEstimator.NewMixtureEstimator(nil, []statistics.ScalarEstimator{e1, e2}, 0, 1)
				if err != nil {
					t.Fatalf("nested mixture: %v", err)
				}
				ests[j] = me
				cfg += fmt.Sprintf(" [mix %s | %s]", s1, s2)
			} else {
				fam = famByName(emission)
				var s string
				ests[j], s, _ = fam.newEstimator(t)
				cfg += fmt.Sprintf(" [%s]", s)
			}
		}
		pi := make([]float64, m)
		tr := make([]float64, m*m)
		for i := range pi {
			pi[i] = rapid.Float64Range(0.1, 1).Draw(t, "pi")
		}
		for i := range tr {
			tr[i] = rapid.Float64Range(0.05, 1).Draw(t, "tr")
		}
		nseq := rapid.IntRange(1, 3).Draw(t, "sequences")
		var xs []ConstVector
		var raw [][]float64
		for s := 0; s < nseq; s++ {
			n := rapid.IntRange(2, 12).Draw(t, "n")
			x := make([]float64, n)
			for i := range x {
				x[i] = fam.drawX(t, "x")
				if fam.name != "normal" && x[i] > 30 {
					x[i] = 30
				}
			}
			raw = append(raw, x)
			xs = append(xs, NewDenseFloat64Vector(x))
		}
		eps := rapid.SampledFrom([]float64{0, 1e-12, 1e-6}).Draw(t, "epsilon")
		maxSteps := rapid.IntRange(1, 15).Draw(t, "maxSteps")
		// the transition matrix may be tied by an equality constraint or have the block structure of a
		// hierarchical model (both keep the M-step exact)
		structure := rapid.SampledFrom([]string{"plain", "plain", "constrained", "hierarchical"}).Draw(t, "structure")
		var constraint []int
		split := 1
		if structure == "constrained" {
			constraint = []int{rapid.IntRange(0, m-1).Draw(t, "ci0"), rapid.IntRange(0, m-1).Draw(t, "cj0"), rapid.IntRange(0, m-1).Draw(t, "ci1"), rapid.IntRange(0, m-1).Draw(t, "cj1")}
			if constraint[0] == constraint[2] && constraint[1] == constraint[3] {
				constraint[3] = (constraint[3] + 1) % m
			}
		}
		if structure == "hierarchical" {
			split = rapid.IntRange(1, m-1).Draw(t, "split")
		}
		c := obs.Begin("em_monotone_hmm", "hmm (%s %v split=%d) states=%d emission=%s%s pi=%v tr=%v eps=%v maxSteps=%d x=%v", structure, constraint, split, m, emission, cfg, pi, tr, eps, maxSteps, raw)
		c.Classf("emission=%s", emission)
		c.Classf("structure=%s", structure)
		c.Classf("sequences=%d", nseq)
		var trace []float64
		var models []*vectorDistribution.Hmm
		hook := generic.BaumWelchHook{Value: func(h generic.BasicHmm, i int, likelihood, e float64) {
			if i > 0 {
				trace = append(trace, likelihood)
			}
			models = append(models, h.(*vectorDistribution.Hmm).Clone())
		}}
		var est *vectorEstimator.HmmEstimator
		var err error
		switch structure {
		case "constrained":
			ec, e := generic.NewEqualityConstraint(constraint)
			if e != nil {
				t.Fatalf("%s: constraint %v", c.Desc(), e)
			}
			est, err = vectorEstimator.NewConstrainedHmmEstimator(NewDenseFloat64Vector(pi), NewDenseFloat64Matrix(tr, m, m), nil, nil, nil, []generic.EqualityConstraint{ec}, ests, eps, maxSteps, hook)
		case "hierarchical":
			tree := generic.NewHmmNode(generic.NewHmmLeaf(0, split), generic.NewHmmLeaf(split, m))
			est, err = vectorEstimator.NewHierarchicalHmmEstimator(NewDenseFloat64Vector(pi), NewDenseFloat64Matrix(tr, m, m), nil, nil, nil, tree, ests, eps, maxSteps, hook)
		default:
			est, err = vectorEstimator.NewHmmEstimator(NewDenseFloat64Vector(pi), NewDenseFloat64Matrix(tr, m, m), nil, nil, nil, ests, eps, maxSteps, hook)
		}
		if err != nil {
			t.Fatalf("%s: constructor %v", c.Desc(), err)
		}
		// either half of the M-step may be switched off: what remains is a generalised EM step, which
		// still cannot lose likelihood, and the switched-off half must stay as it was (seed C16-5: the
		// fixed transition matrix was cleared and became the identity)
		optE := rapid.IntRange(0, 3).Draw(t, "optimizeEmissions") != 0
		optT := rapid.IntRange(0, 3).Draw(t, "optimizeTransitions") != 0
		est.OptimizeEmissions, est.OptimizeTransitions = optE, optT
		c.Classf("optimizeEmissions=%v optimizeTransitions=%v", optE, optT)
		c.SetDesc(c.Desc() + fmt.Sprintf(" OptimizeEmissions=%v OptimizeTransitions=%v", optE, optT))
		// EM runs sequentially here: pooled execution (and the error a pool can lose, C17) is C17's subject
		pool, stop := threadpool.Nil(), func() {}
		defer stop()
		p, to := guarded(func() { err = est.EstimateOnData(xs, nil, pool) })
		if to {
			c.Class("inconclusive: watchdog")
			c.End()
			return
		}
		if p != "" {
			t.Fatalf("%s: EstimateOnData %s", c.Desc(), p)
		}
		c.NT(len(trace) >= 3)
		c.Classf("iterations=%d", min(len(trace), 5))
		if err != nil {
			c.Class("EM stopped with an error")
			c.SetDesc(c.Desc() + fmt.Sprintf(" (error: %v)", err))
		}
		// likelihood of a snapshot: the library's own forward algorithm (validated by C15)
		lik := func(k int) float64 {
			tot := 0.0
			for _, x := range xs {
				r := NullFloat64()
				if e := models[k].LogPdf(r, x); e != nil {
					return math.NaN()
				}
				tot += r.GetFloat64()
			}
			return tot
		}
		// the hook at iteration 0 sees the model before the data was attached: the first E-step
		// model is the one after SetData, which we cannot snapshot from outside; compare from k = 1
		for k, l := range trace {
			if math.IsNaN(l) {
				if structure == "hierarchical" && c.Known("C16/hierarchical-transition-normalisation-nan-for-a-block-without-mass") {
					c.End()
					return
				}
				t.Fatalf("%s: iteration %d reports a NaN likelihood (trace %v)", c.Desc(), k+1, trace)
			}
			// structured transition matrices: the M-step solves a constrained problem numerically (Newton
			// iterations for equality constraints, block normalisation) and is not an exact maximiser, so
			// the property's premise does not hold; their traces are checked for NaN and for agreement
			// with the model only
			if structure == "plain" && k > 0 && l < trace[k-1]-tolL(l) {
				t.Fatalf("%s: the likelihood decreased from %v to %v at iteration %d (trace %v)", c.Desc(), trace[k-1], l, k+1, trace)
			}
			if k >= 1 && k < len(models) {
				if want := lik(k); !math.IsNaN(want) && math.Abs(want-l) > tolL(want) {
					t.Fatalf("%s: iteration %d reports the likelihood %v, the model that iteration started from has %v (trace %v)", c.Desc(), k+1, l, want, trace)
				}
			}
		}
		if structure != "plain" {
			c.Class("structured transition matrix (monotonicity not asserted)")
		}
		if !optT && len(models) >= 2 {
			// transitions are not optimised: every snapshot has the transition matrix of the first one
			tr0 := models[0].Tr
			for k := 1; k < len(models); k++ {
				trk := models[k].Tr
				for i := 0; i < m; i++ {
					for j := 0; j < m; j++ {
						a, b := tr0.ConstAt(i, j).GetFloat64(), trk.ConstAt(i, j).GetFloat64()
						if !(a == b || math.Abs(a-b) <= 1e-12*(1+math.Abs(a))) {
							t.Fatalf("%s: OptimizeTransitions is off, but the log transition (%d,%d) is %v in snapshot %d and %v in snapshot 0", c.Desc(), i, j, b, k, a)
						}
					}
				}
			}
		}
		if err == nil && len(trace) > 0 {
			final, _ := est.GetEstimate()
			tot := 0.0
			for _, x := range xs {
				r := NullFloat64()
				final.LogPdf(r, x)
				tot += r.GetFloat64()
			}
			if math.IsNaN(tot) && structure == "hierarchical" && c.Known("C16/hierarchical-transition-normalisation-nan-for-a-block-without-mass") {
				c.End()
				return
			}
			if structure == "plain" && !(tot >= trace[len(trace)-1]-tolL(tot)) {
				t.Fatalf("%s: the final estimate has log-likelihood %v, below the last reported value %v", c.Desc(), tot, trace[len(trace)-1])
			}
		}
		c.End()
	})
}

// ---------------------------------------------------------------------------------------------
// (f) numeric estimators stop at a stationary point of the weighted log-likelihood

func digamma(x float64) float64 {
	r := 0.0
	for x < 8 {
		r -= 1 / x
		x++
	}
	f := 1 / (x * x)
	return r + math.Log(x) - 0.5/x - f*(1.0/12-f*(1.0/120-f*(1.0/252-f*(1.0/240-f/132))))
}

type numFamily struct {
	name  string
	grad  func(th []float64, x float64) []float64
	build func(th []float64) (statistics.ScalarPdf, error)
	drawX func(t *rapid.T, label string) float64
	init  func(t *rapid.T, x []float64) []float64
}

var numFamilies = []numFamily{
	{
		name: "normal",
		grad: func(th []float64, x float64) []float64 {
			d := x - th[0]
			return []float64{d / (th[1] * th[1]), -1/th[1] + d*d/(th[1]*th[1]*th[1])}
		},
		build: func(th []float64) (statistics.ScalarPdf, error) {
			return scalarDistribution.NewNormalDistribution(NewFloat64(th[0]), NewFloat64(th[1]))
		},
		drawX: func(t *rapid.T, label string) float64 { return rapid.Float64Range(-3, 3).Draw(t, label) },
		init: func(t *rapid.T, x []float64) []float64 {
			return []float64{rapid.Float64Range(-2, 2).Draw(t, "mu0"), rapid.Float64Range(0.7, 3).Draw(t, "sigma0")}
		},
	},
	{
		name: "gamma",
		grad: func(th []float64, x float64) []float64 {
			return []float64{math.Log(th[1]) - digamma(th[0]) + math.Log(x), th[0]/th[1] - x}
		},
		build: func(th []float64) (statistics.ScalarPdf, error) {
			return scalarDistribution.NewGammaDistribution(NewFloat64(th[0]), NewFloat64(th[1]))
		},
		drawX: func(t *rapid.T, label string) float64 { return rapid.Float64Range(0.2, 6).Draw(t, label) },
		init: func(t *rapid.T, x []float64) []float64 {
			return []float64{rapid.Float64Range(0.8, 4).Draw(t, "alpha0"), rapid.Float64Range(0.4, 2).Draw(t, "beta0")}
		},
	},
	{
		name: "exponential",
		grad: func(th []float64, x float64) []float64 { return []float64{1/th[0] - x} },
		build: func(th []float64) (statistics.ScalarPdf, error) {
			return scalarDistribution.NewExponentialDistribution(NewFloat64(th[0]))
		},
		drawX: func(t *rapid.T, label string) float64 { return rapid.Float64Range(0.1, 5).Draw(t, label) },
		init: func(t *rapid.T, x []float64) []float64 {
			return []float64{rapid.Float64Range(0.3, 3).Draw(t, "lambda0")}
		},
	},
}

func TestC16_numeric_stationary(t *testing.T) {
	rapid.Check(t, func(t *rapid.T) {
		f := numFamilies[rapid.IntRange(0, len(numFamilies)-1).Draw(t, "family")]
		method := rapid.SampledFrom([]string{"newton", "newton", "bfgs", "rprop"}).Draw(t, "method")
		n := rapid.IntRange(3, 30).Draw(t, "n")
		d := dataSet{x: make([]float64, n), w: make([]float64, n)}
		for i := range d.x {
			d.x[i] = f.drawX(t, fmt.Sprintf("x[%d]", i))
			d.w[i] = 1
		}
		if rapid.Bool().Draw(t, "weighted") {
			d.gamma = make([]float64, n)
			for i := range d.gamma {
				if rapid.IntRange(0, 5).Draw(t, fmt.Sprintf("gz%d", i)) == 0 && i > 2 {
					d.gamma[i] = math.Inf(-1)
				} else {
					d.gamma[i] = rapid.Float64Range(-3, 0).Draw(t, fmt.Sprintf("gamma[%d]", i))
				}
				d.w[i] = math.Exp(d.gamma[i])
			}
		}
		th0 := f.init(t, d.x)
		maxIt := rapid.SampledFrom([]int{3, 20, 200, 200}).Draw(t, "maxIterations")
		eps := rapid.SampledFrom([]float64{1e-8, 1e-6}).Draw(t, "epsilon")
		c := obs.Begin("numeric_stationary", "%s %s theta0=%v maxIterations=%d eps=%g x=%v gamma=%v", f.name, method, th0, maxIt, eps, d.x, d.gamma)
		c.Classf("family=%s", f.name)
		c.Classf("method=%s", method)
		if d.gamma != nil {
			c.Class("weighted")
		}
		if distinct(d.x) < 3 {
			c.Class("degenerate data (fewer than 3 distinct observations)")
			c.End()
			return
		}
		pdf, err := f.build(th0)
		if err != nil {
			t.Fatalf("%s: %v", c.Desc(), err)
		}
		est, _ := scalarEstimator.NewNumericEstimator(pdf)
		est.Method, est.MaxIterations, est.Epsilon = method, maxIt, eps
		evals := 0
		est.Hook = func(v ConstVector, r ConstScalar) error { evals++; return nil }
		t0 := time.Now()
		p, to := guarded(func() { err = est.EstimateOnData(NewDenseFloat64Vector(d.x), d.gammaVector(), threadpool.Nil()) })
		if el := time.Since(t0); el > time.Second {
			c.Classf("slow (>1s): %s", method)
		}
		if to {
			c.Class("inconclusive: watchdog")
			c.End()
			return
		}
		if p != "" {
			t.Fatalf("%s: EstimateOnData %s", c.Desc(), p)
		}
		if err != nil {
			c.Class("estimator reported an error")
			c.End()
			return
		}
		dist, _ := est.GetEstimate()
		th := params(dist)
		for _, v := range th {
			if math.IsNaN(v) || math.IsInf(v, 0) {
				t.Fatalf("%s: the estimate %v is not finite although no error was reported", c.Desc(), th)
			}
		}
		capped := false
		switch method {
		case "newton":
			capped = evals > maxIt // one evaluation per iteration plus the initial one
		case "bfgs":
			capped = evals > maxIt // at least one evaluation per iteration
		}
		if capped {
			c.Class("iteration cap reached (not asserted)")
			c.NT(false)
			c.End()
			return
		}
		c.NT(evals >= 3)
		// gradient of the objective -(1/n) sum w_i log p(x_i)
		g := make([]float64, len(th))
		scale := 0.0
		for i, x := range d.x {
			if d.w[i] == 0 {
				continue
			}
			gi := f.grad(th, x)
			for k := range g {
				g[k] -= d.w[i] * gi[k] / float64(n)
				scale += d.w[i] * math.Abs(gi[k]) / float64(n)
			}
		}
		norm := 0.0
		for _, v := range g {
			norm += v * v
		}
		norm = math.Sqrt(norm)
		if norm > eps*1.001+1e-11*scale {
			if method == "bfgs" && c.Known("C16/numeric-estimator-ignores-a-failed-bfgs-line-search") {
				c.Class("known finding: bfgs stopped after a failed line search")
				c.End()
				return
			}
			t.Fatalf("%s: stopped after %d evaluations at %v where the gradient of the objective has norm %g (stopping threshold %g)", c.Desc(), evals, th, norm, eps)
		}
		c.End()
	})
}

// ---------------------------------------------------------------------------------------------
// (i) EM over vector observations: vector mixtures and HMMs on matrix data (rows = positions) with
// product emissions; snapshot likelihoods through the library's LogPdf (validated by C15)

func drawVectorEstimator(t *rapid.T, dim int, fams []string) (statistics.VectorEstimator, string) {
	parts := make([]statistics.ScalarEstimator, dim)
	cfg := ""
	for j := range parts {
		var s string
		parts[j], s, _ = famByName(fams[j]).newEstimator(t)
		cfg += fmt.Sprintf("(%s %s)", fams[j], s)
	}
	e, err := vectorEstimator.NewScalarId(parts...)
	if err != nil {
		t.Fatalf("NewScalarId: %v", err)
	}
	return e, cfg
}

func TestC16_em_monotone_vector_models(t *testing.T) {
	rapid.Check(t, func(t *rapid.T) {
		kind := rapid.SampledFrom([]string{"vector mixture", "matrix hmm"}).Draw(t, "kind")
		dim := rapid.IntRange(1, 2).Draw(t, "dim")
		fams := make([]string, dim)
		for j := range fams {
			fams[j] = rapid.SampledFrom([]string{"normal", "poisson", "geometric"}).Draw(t, "family")
		}
		k := rapid.IntRange(2, 3).Draw(t, "components")
		ests := make([]statistics.VectorEstimator, k)
		cfg := ""
		for i := range ests {
			var s string
			ests[i], s = drawVectorEstimator(t, dim, fams)
			cfg += " [" + s + "]"
		}
		drawRow := func() []float64 {
			r := make([]float64, dim)
			for j := range r {
				r[j] = famByName(fams[j]).drawX(t, "x")
				if fams[j] != "normal" && r[j] > 30 {
					r[j] = 30
				}
			}
			return r
		}
		eps := rapid.SampledFrom([]float64{0, 1e-12, 1e-6}).Draw(t, "epsilon")
		maxSteps := rapid.IntRange(1, 15).Draw(t, "maxSteps")
		pool := threadpool.Nil()
		var trace []float64
		var lik []func() float64 // likelihood of the k-th snapshot
		var err error
		var runErr error
		var desc string
		if kind == "vector mixture" {
			n := rapid.IntRange(2, 30).Draw(t, "n")
			var xs []ConstVector
			var raw [][]float64
			for i := 0; i < n; i++ {
				r := drawRow()
				raw = append(raw, r)
				xs = append(xs, NewDenseFloat64Vector(r))
			}
			desc = fmt.Sprintf("x=%v", raw)
			hook := generic.EmHook{Value: func(m generic.BasicMixture, i int, likelihood, e float64) {
				if i > 0 {
					trace = append(trace, likelihood)
				}
				snap := m.(*vectorDistribution.Mixture).Clone()
				lik = append(lik, func() float64 {
					tot := 0.0
					for _, x := range xs {
						r := NullFloat64()
						if e := snap.LogPdf(r, x); e != nil {
							return math.NaN()
						}
						tot += r.GetFloat64()
					}
					return tot
				})
			}}
			var est *vectorEstimator.MixtureEstimator
			est, err = vectorEstimator.NewMixtureEstimator(nil, ests, eps, maxSteps, hook)
			if err == nil {
				p, to := guarded(func() { runErr = est.EstimateOnData(xs, nil, pool) })
				if to || p != "" {
					if p != "" {
						t.Fatalf("%s %s: EstimateOnData %s", kind, desc, p)
					}
					return
				}
			}
		} else {
			nseq := rapid.IntRange(1, 3).Draw(t, "sequences")
			var xs []ConstMatrix
			var raw [][][]float64
			for s := 0; s < nseq; s++ {
				n := rapid.IntRange(2, 10).Draw(t, "n")
				var rows [][]float64
				flat := []float64{}
				for i := 0; i < n; i++ {
					r := drawRow()
					rows = append(rows, r)
					flat = append(flat, r...)
				}
				raw = append(raw, rows)
				xs = append(xs, NewDenseFloat64Matrix(flat, n, dim))
			}
			desc = fmt.Sprintf("x=%v", raw)
			pi := make([]float64, k)
			tr := make([]float64, k*k)
			for i := range pi {
				pi[i] = rapid.Float64Range(0.1, 1).Draw(t, "pi")
			}
			for i := range tr {
				tr[i] = rapid.Float64Range(0.05, 1).Draw(t, "tr")
			}
			hook := generic.BaumWelchHook{Value: func(h generic.BasicHmm, i int, likelihood, e float64) {
				if i > 0 {
					trace = append(trace, likelihood)
				}
				snap := h.(*matrixDistribution.Hmm).Clone()
				lik = append(lik, func() float64 {
					tot := 0.0
					for _, x := range xs {
						r := NullFloat64()
						if e := snap.LogPdf(r, x); e != nil {
							return math.NaN()
						}
						tot += r.GetFloat64()
					}
					return tot
				})
			}}
			var est *matrixEstimator.HmmEstimator
			est, err = matrixEstimator.NewHmmEstimator(NewDenseFloat64Vector(pi), NewDenseFloat64Matrix(tr, k, k), nil, nil, nil, ests, eps, maxSteps, hook)
			if err == nil {
				p, to := guarded(func() { runErr = est.EstimateOnData(xs, nil, pool) })
				if to || p != "" {
					if p != "" {
						t.Fatalf("%s %s: EstimateOnData %s", kind, desc, p)
					}
					return
				}
			}
		}
		c := obs.Begin("em_monotone_vector_models", "%s%s eps=%v maxSteps=%d %s", kind, cfg, eps, maxSteps, desc)
		c.Classf("kind=%s", kind)
		c.Classf("dim=%d", dim)
		if err != nil {
			t.Fatalf("%s: constructor %v", c.Desc(), err)
		}
		c.NT(len(trace) >= 3)
		c.Classf("iterations=%d", min(len(trace), 5))
		if runErr != nil {
			c.Class("EM stopped with an error")
		}
		for i, l := range trace {
			if math.IsNaN(l) {
				t.Fatalf("%s: iteration %d reports a NaN likelihood (trace %v)", c.Desc(), i+1, trace)
			}
			if i > 0 && l < trace[i-1]-tolL(l) {
				t.Fatalf("%s: the likelihood decreased from %v to %v at iteration %d (trace %v)", c.Desc(), trace[i-1], l, i+1, trace)
			}
			// snapshot i is the model produced by iteration i (0: before the data was attached)
			if i >= 1 && i < len(lik) {
				if want := lik[i](); !math.IsNaN(want) && math.Abs(want-l) > tolL(want) {
					t.Fatalf("%s: iteration %d reports the likelihood %v, the model that iteration started from has %v (trace %v)", c.Desc(), i+1, l, want, trace)
				}
			}
		}
		c.End()
	})
}

// ---------------------------------------------------------------------------------------------
// witnesses

func TestKF_numeric_bfgs_start_point(t *testing.T) {
	pdf, _ := scalarDistribution.NewGammaDistribution(NewFloat64(1), NewFloat64(1))
	est, _ := scalarEstimator.NewNumericEstimator(pdf)
	est.Method = "bfgs"
	err := est.EstimateOnData(NewDenseFloat64Vector([]float64{1, 1.5, 3.5}), nil, threadpool.Nil())
	d, _ := est.GetEstimate()
	th := params(d)
	obs.KFStatus("C16/numeric-estimator-ignores-a-failed-bfgs-line-search", err == nil && th[0] == 1 && th[1] == 1, fmt.Sprintf("estimate %v err %v", th, err))
}

func TestKF_normal_variance_cancellation(t *testing.T) {
	e, _ := scalarEstimator.NewNormalEstimator(0, 1, 1e-8)
	x := []float64{1e8, 1e8 + 1, 1e8 + 2}
	err := e.EstimateOnData(NewDenseFloat64Vector(x), nil, threadpool.Nil())
	d, _ := e.GetEstimate()
	th := params(d)
	want := math.Sqrt(2.0 / 3.0)
	obs.KFStatus("C16/normal-estimator-variance-cancellation", err == nil && math.Abs(th[1]-want) > 1e-6, fmt.Sprintf("estimate %v (sd should be %v) err %v", th, want, err))
}

func TestKF_estimators_nan_without_weight(t *testing.T) {
	e, _ := scalarEstimator.NewPoissonEstimator(1)
	err := e.EstimateOnData(NewDenseFloat64Vector([]float64{1, 2}), NewDenseFloat64Vector([]float64{math.Inf(-1), math.Inf(-1)}), threadpool.Nil())
	nan := false
	if err == nil {
		d, _ := e.GetEstimate()
		nan = math.IsNaN(params(d)[0])
	}
	obs.KFStatus("C16/estimators-return-nan-parameters-without-positive-weight", nan, fmt.Sprintf("err %v", err))
}

func TestKF_geometric_logpdf_p1(t *testing.T) {
	d, _ := scalarDistribution.NewGeometricDistribution(NewFloat64(1))
	r := NullFloat64()
	d.LogPdf(r, ConstFloat64(0))
	obs.KFStatus("C16/geometric-logpdf-of-zero-is-nan-for-p-1", math.IsNaN(r.GetFloat64()), fmt.Sprintf("LogPdf(0) = %v", r.GetFloat64()))
}

// ---------------------------------------------------------------------------------------------
// (g) multivariate normal estimator: weighted mean and weighted covariance (the maximiser)

func TestC16_vector_normal_is_mle(t *testing.T) {
	rapid.Check(t, func(t *rapid.T) {
		dim := rapid.IntRange(1, 3).Draw(t, "dim")
		n := rapid.IntRange(dim+2, 25).Draw(t, "n")
		offset := rapid.SampledFrom([]float64{0, 0, 10, -1000, 1e6}).Draw(t, "offset")
		x := make([][]float64, n)
		xs := make([]ConstVector, n)
		for i := range x {
			x[i] = make([]float64, dim)
			for j := range x[i] {
				x[i][j] = offset + rapid.Float64Range(-3, 3).Draw(t, fmt.Sprintf("x[%d][%d]", i, j))
				if rapid.IntRange(0, 5).Draw(t, "int") == 0 {
					x[i][j] = math.Round(x[i][j])
				}
			}
			xs[i] = NewDenseFloat64Vector(x[i])
		}
		var gamma []float64
		w := make([]float64, n)
		for i := range w {
			w[i] = 1
		}
		if rapid.Bool().Draw(t, "weighted") {
			gamma = make([]float64, n)
			for i := range gamma {
				gamma[i] = rapid.Float64Range(-6, 0).Draw(t, fmt.Sprintf("gamma[%d]", i))
				w[i] = math.Exp(gamma[i])
			}
		}
		sigmaMin := rapid.SampledFrom([]float64{1e-12, 1e-8}).Draw(t, "sigmaMin")
		c := obs.Begin("vector_normal_is_mle", "vector normal dim=%d sigmaMin=%g x=%v gamma=%v", dim, sigmaMin, x, gamma)
		c.Classf("dim=%d", dim)
		if gamma != nil {
			c.Class("weighted")
		}
		c.NT(dim >= 2)
		mu0 := make([]float64, dim)
		s0 := make([]float64, dim*dim)
		for i := 0; i < dim; i++ {
			s0[i*dim+i] = 1
		}
		est, err := vectorEstimator.NewNormalEstimator(mu0, s0, sigmaMin)
		if err != nil {
			t.Fatalf("%s: constructor %v", c.Desc(), err)
		}
		pool, stop := drawPool(t, c)
		defer stop()
		var gv ConstVector
		if gamma != nil {
			gv = NewDenseFloat64Vector(gamma)
		}
		p, to := guarded(func() { err = est.EstimateOnData(xs, gv, pool) })
		if to {
			c.Class("inconclusive: watchdog")
			c.End()
			return
		}
		if p != "" {
			t.Fatalf("%s: EstimateOnData %s", c.Desc(), p)
		}
		// reference: two-pass weighted moments
		W := 0.0
		mean := make([]float64, dim)
		for i := range x {
			W += w[i]
		}
		for j := 0; j < dim; j++ {
			s := 0.0
			for i := range x {
				s += w[i] * (x[i][j] - x[0][j])
			}
			mean[j] = x[0][j] + s/W
		}
		cov := model.NewMat(dim, dim)
		for a := 0; a < dim; a++ {
			for b := 0; b < dim; b++ {
				s := 0.0
				for i := range x {
					s += w[i] * (x[i][a] - mean[a]) * (x[i][b] - mean[b])
				}
				cov[a][b] = s / W
			}
		}
		if d := cov.Det(); !(d > 1e-6*math.Pow(cov.MaxAbs(), float64(dim))) {
			c.Class("(nearly) singular sample covariance: not asserted")
			c.End()
			return
		}
		if err != nil {
			t.Fatalf("%s: EstimateOnData returned error %v although the sample covariance %v is regular", c.Desc(), err, cov)
		}
		dist, _ := est.GetEstimate()
		nd := dist.(*vectorDistribution.NormalDistribution)
		minSd := math.Inf(1)
		for a := 0; a < dim; a++ {
			minSd = math.Min(minSd, math.Sqrt(cov[a][a]))
		}
		acc := math.Max(1e-9, 10*(math.Abs(offset)+3)/minSd*1.2e-16)
		for a := 0; a < dim; a++ {
			if got := nd.Mu.At(a).GetFloat64(); math.Abs(got-mean[a]) > acc*math.Sqrt(cov[a][a])+1e-15*math.Abs(mean[a]) {
				t.Fatalf("%s: mean[%d] = %v, the weighted mean is %v", c.Desc(), a, got, mean[a])
			}
			for b := 0; b < dim; b++ {
				got := nd.Sigma.At(a, b).GetFloat64()
				if a == b && cov[a][a] < sigmaMin*(1+1e-9) {
					// the configured lower bound of the variances is active
					c.Class("bound active")
					if got < sigmaMin*(1-1e-12) || got > math.Max(sigmaMin, cov[a][a])*(1+1e-9) {
						t.Fatalf("%s: variance[%d] = %v with the sample variance %v and the bound %v", c.Desc(), a, got, cov[a][a], sigmaMin)
					}
					continue
				}
				if math.Abs(got-cov[a][b]) > acc*math.Sqrt(cov[a][a]*cov[b][b]) {
					t.Fatalf("%s: covariance[%d][%d] = %v, the weighted sample covariance (the maximiser) is %v", c.Desc(), a, b, got, cov[a][b])
				}
			}
		}
		c.End()
	})
}

// ---------------------------------------------------------------------------------------------
// (h) product estimators: ScalarId (one estimator per coordinate) and ScalarIid (one estimator for
// all coordinates) give what the scalar estimators give on the columns / on the pooled entries

func TestC16_product_estimators(t *testing.T) {
	rapid.Check(t, func(t *rapid.T) {
		kind := rapid.SampledFrom([]string{"ScalarId", "ScalarIid", "ScalarBatchId"}).Draw(t, "kind")
		f := families[rapid.IntRange(0, len(families)-1).Draw(t, "family")]
		dim := rapid.IntRange(1, 3).Draw(t, "dim")
		n := rapid.IntRange(1, 12).Draw(t, "n")
		x := make([][]float64, n)
		xs := make([]ConstVector, n)
		for i := range x {
			x[i] = make([]float64, dim)
			for j := range x[i] {
				x[i][j] = f.drawX(t, fmt.Sprintf("x[%d][%d]", i, j))
			}
			xs[i] = NewDenseFloat64Vector(x[i])
		}
		var gamma []float64
		if rapid.Bool().Draw(t, "weighted") {
			gamma = make([]float64, n)
			for i := range gamma {
				gamma[i] = rapid.Float64Range(-5, 0).Draw(t, fmt.Sprintf("gamma[%d]", i))
			}
		}
		base, cfg, _ := f.newEstimator(t)
		c := obs.Begin("product_estimators", "%s of %s %s dim=%d x=%v gamma=%v", kind, f.name, cfg, dim, x, gamma)
		c.Classf("kind=%s", kind)
		c.Classf("family=%s", f.name)
		if gamma != nil {
			c.Class("weighted")
		}
		c.NT(n >= 2 && dim >= 2)
		var gv ConstVector
		if gamma != nil {
			gv = NewDenseFloat64Vector(gamma)
		}
		pool := threadpool.Nil()
		// reference: the scalar estimator itself on the data the product estimator stands for
		ref := func(data, g []float64) ([]float64, error) {
			e := base.CloneScalarEstimator()
			var gg ConstVector
			if g != nil {
				gg = NewDenseFloat64Vector(g)
			}
			if err := e.EstimateOnData(NewDenseFloat64Vector(data), gg, pool); err != nil {
				return nil, err
			}
			d, err := e.GetEstimate()
			if err != nil {
				return nil, err
			}
			return params(d), nil
		}
		var want []float64
		var refErr error
		var est statistics.VectorEstimator
		var err error
		if kind == "ScalarBatchId" {
			// the batch variant: observations are handed over one vector at a time
			be, ok := base.(statistics.ScalarBatchEstimator)
			if !ok {
				c.Class("family has no batch estimator")
				c.End()
				return
			}
			parts := make([]statistics.ScalarBatchEstimator, dim)
			for j := range parts {
				parts[j] = be
				col := make([]float64, n)
				for i := range col {
					col[i] = x[i][j]
				}
				p, e := ref(col, gamma)
				if e != nil {
					refErr = e
				}
				want = append(want, p...)
			}
			if refErr != nil {
				c.Class("degenerate data for the scalar estimator")
				c.End()
				return
			}
			bid, err := vectorEstimator.NewScalarBatchId(parts...)
			if err != nil {
				t.Fatalf("%s: constructor %v", c.Desc(), err)
			}
			var perr error
			p, to := guarded(func() {
				if perr = bid.Initialize(pool); perr != nil {
					return
				}
				for i := range xs {
					var g ConstScalar
					if gamma != nil {
						g = ConstFloat64(gamma[i])
					}
					if perr = bid.NewObservation(xs[i], g, pool); perr != nil {
						return
					}
				}
			})
			if to {
				c.Class("inconclusive: watchdog")
				c.End()
				return
			}
			if p != "" || perr != nil {
				t.Fatalf("%s: batch run %s %v", c.Desc(), p, perr)
			}
			d, err := bid.GetEstimate()
			if err != nil {
				t.Fatalf("%s: GetEstimate error %v (the scalar estimators give %v)", c.Desc(), err, want)
			}
			got := params(d)
			if len(got) != len(want) {
				t.Fatalf("%s: %d parameters, want %d", c.Desc(), len(got), len(want))
			}
			for k := range want {
				if math.Abs(got[k]-want[k]) > 1e-9*(1+math.Abs(want[k])) {
					t.Fatalf("%s: parameters %v, the scalar estimators on the columns give %v", c.Desc(), got, want)
				}
			}
			c.End()
			return
		}
		switch kind {
		case "ScalarId":
			parts := make([]statistics.ScalarEstimator, dim)
			for j := range parts {
				parts[j] = base
				col := make([]float64, n)
				for i := range col {
					col[i] = x[i][j]
				}
				p, e := ref(col, gamma)
				if e != nil {
					refErr = e
				}
				want = append(want, p...)
			}
			est, err = vectorEstimator.NewScalarId(parts...)
		default:
			var pooled, g []float64
			for i := range x {
				for j := range x[i] {
					pooled = append(pooled, x[i][j])
					if gamma != nil {
						g = append(g, gamma[i]) // the weight of an observation vector applies to each entry
					}
				}
			}
			want, refErr = ref(pooled, g)
			est, err = vectorEstimator.NewScalarIid(base, -1)
		}
		if err != nil {
			t.Fatalf("%s: constructor %v", c.Desc(), err)
		}
		if refErr != nil {
			c.Class("degenerate data for the scalar estimator")
			c.End()
			return
		}
		p, to := guarded(func() { err = est.EstimateOnData(xs, gv, pool) })
		if to {
			c.Class("inconclusive: watchdog")
			c.End()
			return
		}
		if p != "" {
			if kind == "ScalarIid" && gamma != nil && dim > 1 && c.Known("C16/scalariid-passes-per-vector-weights-to-the-pooled-entries") {
				c.End()
				return
			}
			t.Fatalf("%s: EstimateOnData %s", c.Desc(), p)
		}
		if err != nil {
			t.Fatalf("%s: EstimateOnData error %v (the scalar estimator gives %v)", c.Desc(), err, want)
		}
		got := est.GetParameters()
		if got.Dim() != len(want) {
			t.Fatalf("%s: %d parameters, want %d", c.Desc(), got.Dim(), len(want))
		}
		for k := range want {
			if g := got.At(k).GetFloat64(); math.Abs(g-want[k]) > 1e-12*(1+math.Abs(want[k])) {
				if kind == "ScalarIid" && gamma != nil && dim > 1 && c.Known("C16/scalariid-passes-per-vector-weights-to-the-pooled-entries") {
					c.End()
					return
				}
				t.Fatalf("%s: parameters %v, the scalar estimator on the same data gives %v", c.Desc(), got, want)
			}
		}
		c.End()
	})
}

func TestKF_vector_normal_covariance_cancellation(t *testing.T) {
	est, _ := vectorEstimator.NewNormalEstimator([]float64{0}, []float64{1}, 1e-12)
	xs := []ConstVector{NewDenseFloat64Vector([]float64{11.001953125}), NewDenseFloat64Vector([]float64{11}), NewDenseFloat64Vector([]float64{11})}
	err := est.EstimateOnData(xs, nil, threadpool.Nil())
	d, _ := est.GetEstimate()
	got := d.(*vectorDistribution.NormalDistribution).Sigma.At(0, 0).GetFloat64()
	want := 8.477105034722222e-07
	obs.KFStatus("C16/vector-normal-estimator-covariance-cancellation", err == nil && math.Abs(got-want) > 1e-9*want, fmt.Sprintf("variance %v, sample variance %v, err %v", got, want, err))
}

func TestKF_scalariid_weights(t *testing.T) {
	base, _ := scalarEstimator.NewExponentialEstimator(1, 1e9)
	est, _ := vectorEstimator.NewScalarIid(base, -1)
	xs := []ConstVector{NewDenseFloat64Vector([]float64{1, 2}), NewDenseFloat64Vector([]float64{3, 4})}
	var err error
	p, _ := guarded(func() { err = est.EstimateOnData(xs, NewDenseFloat64Vector([]float64{-1, 0}), threadpool.Nil()) })
	obs.KFStatus("C16/scalariid-passes-per-vector-weights-to-the-pooled-entries", p != "", fmt.Sprintf("%s err %v", p, err))
}

func TestKF_numeric_rprop_default_eta(t *testing.T) {
	pdf, _ := scalarDistribution.NewGammaDistribution(NewFloat64(2), NewFloat64(1))
	est, _ := scalarEstimator.NewNumericEstimator(pdf)
	est.Method = "rprop"
	old := watchdog
	watchdog = 5 * time.Second
	defer func() { watchdog = old }()
	_, to := guarded(func() {
		est.EstimateOnData(NewDenseFloat64Vector([]float64{1, 1.5, 3.5, 2, 0.7}), nil, threadpool.Nil())
	})
	obs.KFStatus("C16/numeric-rprop-default-eta-reversed", to, fmt.Sprintf("returned within 5 s: %v", !to))
}

// ---------------------------------------------------------------------------------------------
// (j) wrapped estimators: the log-transform and translation estimators estimate their inner family
// on log(x + c) resp. x + c (the Jacobian does not depend on the parameters, so this is the maximum
// likelihood estimate of the wrapped density), and the estimate is the wrapped distribution

func TestC16_wrapped_estimators(t *testing.T) {
	rapid.Check(t, func(t *rapid.T) {
		wrap := rapid.SampledFrom([]string{"log", "translate"}).Draw(t, "wrapper")
		base := rapid.SampledFrom([]string{"normal", "exponential"}).Draw(t, "inner family")
		n := rapid.IntRange(1, 8).Draw(t, "n")
		cst := float64(rapid.IntRange(0, 8).Draw(t, "c")) / 4
		x := make([]float64, n)
		y := make([]float64, n)
		for i := range x {
			x[i] = float64(rapid.IntRange(1, 40).Draw(t, fmt.Sprintf("x[%d]", i))) / 4
			if wrap == "log" {
				if base == "exponential" {
					x[i] += 1 // log(x + c) > 0
				}
				y[i] = math.Log(x[i] + cst)
			} else {
				y[i] = x[i] + cst
			}
		}
		var gamma, w []float64
		if rapid.Bool().Draw(t, "weighted") {
			gamma, w = make([]float64, n), make([]float64, n)
			for i := range gamma {
				w[i] = float64(rapid.IntRange(1, 8).Draw(t, fmt.Sprintf("w[%d]", i))) / 4
				gamma[i] = math.Log(w[i])
			}
		}
		c := obs.Begin("wrapped_estimators", "%s(%s, c=%v) x=%v gamma=%v", wrap, base, cst, x, gamma)
		c.Classf("wrapper=%s", wrap)
		c.Classf("family=%s", base)
		if gamma != nil {
			c.Class("weighted")
		}
		c.NT(n >= 2)
		mk := func() statistics.ScalarBatchEstimator {
			if base == "normal" {
				e, err := scalarEstimator.NewNormalEstimator(0.5, 2, 1e-8)
				if err != nil {
					t.Fatalf("NewNormalEstimator: %v", err)
				}
				return e
			}
			e, err := scalarEstimator.NewExponentialEstimator(1.5, 1e8)
			if err != nil {
				t.Fatalf("NewExponentialEstimator: %v", err)
			}
			return e
		}
		inner := mk()
		var west statistics.ScalarEstimator
		var err error
		if wrap == "log" {
			west, err = scalarEstimator.NewLogTransformEstimator(mk(), cst)
		} else {
			west, err = scalarEstimator.NewTranslationEstimator(mk(), cst)
		}
		if err != nil {
			t.Fatalf("%s: constructor error %v", c.Desc(), err)
		}
		var gv ConstVector
		if gamma != nil {
			gv = NewDenseFloat64Vector(gamma)
		}
		pool, stop := drawPool(t, c)
		defer stop()
		var e1, e2 error
		p, to := guarded(func() {
			e1 = west.EstimateOnData(NewDenseFloat64Vector(x), gv, pool)
			e2 = inner.(statistics.ScalarEstimator).EstimateOnData(NewDenseFloat64Vector(y), gv, pool)
		})
		if to {
			c.Class("inconclusive: watchdog")
			c.End()
			return
		}
		if p != "" {
			t.Fatalf("%s: EstimateOnData %s", c.Desc(), p)
		}
		if (e1 == nil) != (e2 == nil) {
			t.Fatalf("%s: the wrapper reports %v, the inner estimator on the transformed data %v", c.Desc(), e1, e2)
		}
		if e1 != nil {
			c.Class("degenerate data: error reported")
			c.End()
			return
		}
		dw, err := west.GetEstimate()
		if err != nil {
			t.Fatalf("%s: GetEstimate of the wrapper: %v", c.Desc(), err)
		}
		di, err := inner.GetEstimate()
		if err != nil {
			t.Fatalf("%s: GetEstimate of the inner estimator: %v", c.Desc(), err)
		}
		pw, pi := params(dw), params(di)
		if len(pw) != len(pi) {
			t.Fatalf("%s: parameters %v of the wrapper's estimate, %v of the inner estimator on the transformed data", c.Desc(), pw, pi)
		}
		for k := range pw {
			if math.Abs(pw[k]-pi[k]) > 1e-12*(1+math.Abs(pi[k])) {
				t.Fatalf("%s: parameters %v of the wrapper's estimate, %v of the inner estimator on the transformed data", c.Desc(), pw, pi)
			}
		}
		// the estimate is the wrapped density
		for i := range x {
			rw, ri := NewFloat64(0), NewFloat64(0)
			if err := dw.LogPdf(rw, ConstFloat64(x[i])); err != nil {
				t.Fatalf("%s: LogPdf of the estimate at %v: %v", c.Desc(), x[i], err)
			}
			di.LogPdf(ri, ConstFloat64(y[i]))
			want := ri.GetFloat64()
			if wrap == "log" {
				want -= y[i]
			}
			if math.Abs(rw.GetFloat64()-want) > 1e-11*(1+math.Abs(want)) {
				t.Fatalf("%s: the estimate's LogPdf(%v) = %v, the wrapped inner density gives %v", c.Desc(), x[i], rw.GetFloat64(), want)
			}
		}
		c.End()
	})
}

// ---------------------------------------------------------------------------------------------
// (k) logistic regression (SAGA): when the estimator stops by its own rule with a tight epsilon, the
// returned parameters are a fixed point of the proximal gradient step of
//   (1/N) sum_i w_{c_i} loss_i(theta) + (lambda/N) R(theta_1..)     (the intercept is not regularised)
// and the dense and sparse storage of the same data agree

func TestC16_logistic_regression_stationary(t *testing.T) {
	rapid.Check(t, func(t *rapid.T) {
		k := rapid.IntRange(1, 3).Draw(t, "features")
		N := rapid.IntRange(4, 10).Draw(t, "N")
		rows := make([][]float64, N)
		labels := make([]bool, N)
		for i := range rows {
			rows[i] = make([]float64, k)
			for j := range rows[i] {
				if rapid.IntRange(0, 3).Draw(t, fmt.Sprintf("zero[%d][%d]", i, j)) == 0 {
					continue
				}
				rows[i][j] = float64(rapid.IntRange(-8, 8).Draw(t, fmt.Sprintf("x[%d][%d]", i, j))) / 4
			}
			labels[i] = rapid.Bool().Draw(t, fmt.Sprintf("c[%d]", i))
		}
		// the same point with both labels: the classes cannot be separated, the optimum is finite
		copy(rows[1], rows[0])
		labels[0], labels[1] = true, false
		reg := rapid.SampledFrom([]string{"none", "l1", "l2", "ti"}).Draw(t, "regularization")
		lambda := float64(rapid.IntRange(1, 40).Draw(t, "lambda")) / 40
		sparse := rapid.Bool().Draw(t, "sparse")
		balance := rapid.IntRange(0, 3).Draw(t, "balance") == 0
		seed := int64(rapid.IntRange(0, 100).Draw(t, "seed"))
		c := obs.Begin("logistic_regression_stationary", "logistic regression %s rows=%v labels=%v reg=%s(%v) balance=%v seed=%d", map[bool]string{true: "sparse", false: "dense"}[sparse], rows, labels, reg, lambda, balance, seed)
		c.Classf("regularization=%s", reg)
		c.Classf("storage=%s", map[bool]string{true: "sparse", false: "dense"}[sparse])
		if balance {
			c.Class("balanced class weights")
		}
		c.NT(true)
		capped := false
		run := func(sp bool) ([]float64, [2]float64, error, string, bool) {
			est, err := vectorEstimator.NewLogisticRegression(k+1, sp)
			if err != nil {
				t.Fatalf("%s: constructor: %v", c.Desc(), err)
			}
			est.Epsilon = 1e-10
			est.MaxIterations = 200000
			est.Hook = func(x ConstVector, step, lambda ConstScalar, epoch int) bool {
				if epoch >= est.MaxIterations-1 {
					capped = true
				}
				return false
			}
			est.Seed = seed
			est.Balance = balance
			switch reg {
			case "l1":
				est.L1Reg = lambda
			case "l2":
				est.L2Reg = lambda
			case "ti":
				est.TiReg = lambda
			}
			data := make([]ConstVector, N)
			for i := range rows {
				v := append([]float64{1}, rows[i]...)
				if labels[i] {
					v = append(v, 1)
				} else {
					v = append(v, 0)
				}
				if sp {
					idx := make([]int, len(v))
					for j := range idx {
						idx[j] = j
					}
					data[i] = NewSparseConstFloat64Vector(idx, v, len(v))
				} else {
					data[i] = NewDenseFloat64Vector(v)
				}
			}
			var e error
			p, to := guarded(func() { e = est.EstimateOnData(data, nil, threadpool.Nil()) })
			return floats(est.GetParameters()), est.ClassWeights, e, p, to
		}
		theta, cw, err, p, to := run(sparse)
		if to {
			c.Class("inconclusive: watchdog")
			c.End()
			return
		}
		if p != "" {
			t.Fatalf("%s: EstimateOnData %s", c.Desc(), p)
		}
		if err != nil {
			t.Fatalf("%s: EstimateOnData returned %v", c.Desc(), err)
		}
		for _, v := range theta {
			if math.IsNaN(v) || math.IsInf(v, 0) {
				t.Fatalf("%s: parameters %v", c.Desc(), theta)
			}
		}
		if capped {
			c.Class("iteration cap reached (not asserted)")
			c.End()
			return
		}
		// gradient of the weighted mean loss
		g := make([]float64, k+1)
		for i := range rows {
			r := theta[0]
			for j := range rows[i] {
				r += rows[i][j] * theta[j+1]
			}
			s := 1 / (1 + math.Exp(-r))
			w := cw[0] * s
			if labels[i] {
				w = cw[1] * (s - 1)
			}
			g[0] += w / float64(N)
			for j := range rows[i] {
				g[j+1] += w * rows[i][j] / float64(N)
			}
		}
		// proximal gradient step of size 1
		tau := lambda / float64(N)
		px := make([]float64, k+1)
		wv := make([]float64, k+1)
		for j := range wv {
			wv[j] = theta[j] - g[j]
			px[j] = wv[j]
		}
		nrm := 0.0
		for j := 1; j <= k; j++ {
			nrm += wv[j] * wv[j]
		}
		nrm = math.Sqrt(nrm)
		switch reg {
		case "l1":
			for j := 1; j <= k; j++ {
				switch {
				case wv[j] > tau:
					px[j] = wv[j] - tau
				case wv[j] < -tau:
					px[j] = wv[j] + tau
				default:
					px[j] = 0
				}
			}
		case "l2":
			for j := 1; j <= k; j++ {
				if nrm > tau {
					px[j] = wv[j] * (1 - tau/nrm)
				} else {
					px[j] = 0
				}
			}
		case "ti":
			for j := 1; j <= k; j++ {
				px[j] = wv[j] / (1 + tau)
			}
		}
		res, sc := 0.0, 1.0
		allZero := true
		for j := 1; j <= k; j++ {
			if theta[j] != 0 {
				allZero = false
			}
		}
		for j := range px {
			sc += math.Abs(g[j]) + math.Abs(theta[j])
			// coordinates that a thresholding operator holds at exactly zero are not asserted (see C07)
			if j > 0 && ((reg == "l1" && theta[j] == 0) || (reg == "l2" && allZero)) {
				continue
			}
			res = math.Max(res, math.Abs(theta[j]-px[j]))
		}
		if res > 1e-3*sc {
			t.Fatalf("%s: stopped at %v, which is not a fixed point of the proximal gradient step of the regularised weighted loss (class weights %v): residual %g, gradient of the loss %v", c.Desc(), theta, cw, res, g)
		}
		c.Class("fixed point verified")
		// the other storage: same algorithm for l2 / tikhonov and for dense-vs-sparse without the specialised
		// l1 implementation; the optimum is the same in every case
		if reg == "none" {
			// without a penalty the optimum may lie at infinity (a feature that separates part of the data)
			c.End()
			return
		}
		theta2, _, err2, p2, to2 := run(!sparse)
		if !to2 && p2 == "" && err2 == nil && !capped {
			// the minimiser may be weakly determined (as many parameters as rows): the two answers must
			// reach the same value of the objective
			F := func(th []float64) float64 {
				v := 0.0
				for i := range rows {
					r := th[0]
					for j := range rows[i] {
						r += rows[i][j] * th[j+1]
					}
					if labels[i] {
						v += cw[1] * math.Log1p(math.Exp(-r)) / float64(N)
					} else {
						v += cw[0] * math.Log1p(math.Exp(r)) / float64(N)
					}
				}
				n1, n2 := 0.0, 0.0
				for j := 1; j <= k; j++ {
					n1 += math.Abs(th[j])
					n2 += th[j] * th[j]
				}
				switch reg {
				case "l1":
					v += tau * n1
				case "l2":
					v += tau * math.Sqrt(n2)
				case "ti":
					v += tau * n2 / 2
				}
				return v
			}
			if f1, f2 := F(theta), F(theta2); math.Abs(f1-f2) > 1e-5*(1+math.Abs(f1)) {
				t.Fatalf("%s: %v (objective %v) with this storage, %v (objective %v) with the other storage of the same data", c.Desc(), theta, f1, theta2, f2)
			}
			c.Class("agrees with the other storage")
		}
		c.End()
	})
}

func floats(v ConstVector) []float64 {
	r := make([]float64, v.Dim())
	for i := range r {
		r[i] = v.ConstAt(i).GetFloat64()
	}
	return r
}

func lrFit(rows [][]float64, labels []bool, set func(*vectorEstimator.LogisticRegression)) ([]float64, int, float64) {
	est, _ := vectorEstimator.NewLogisticRegression(len(rows[0])+1, false)
	est.Epsilon = 1e-10
	est.MaxIterations = 20000
	set(est)
	epochs, last := 0, 0.0
	est.Hook = func(x ConstVector, step, lambda ConstScalar, i int) bool {
		epochs, last = i, step.GetFloat64()
		return false
	}
	data := make([]ConstVector, len(rows))
	for i := range rows {
		v := append([]float64{1}, rows[i]...)
		if labels[i] {
			v = append(v, 1)
		} else {
			v = append(v, 0)
		}
		data[i] = NewDenseFloat64Vector(v)
	}
	est.EstimateOnData(data, nil, threadpool.Nil())
	return floats(est.GetParameters()), epochs, last
}

func TestKF_logreg_l2_norm_includes_intercept(t *testing.T) {
	rows := [][]float64{{0, 0.75, 0}, {0, 0.75, 0}, {0, 0, 0}, {0, 0, 0}, {0, 0, 0}, {0, 0, -0.25}, {0, 0, 0.25}, {1.5, 0, 0}}
	labels := []bool{true, false, false, false, false, false, true, false}
	theta, _, _ := lrFit(rows, labels, func(e *vectorEstimator.LogisticRegression) { e.L2Reg = 0.875; e.Seed = 39 })
	// stationarity of mean loss + (lambda/N) ||theta_1..||_2: grad = -tau theta/||theta_1..||
	g := make([]float64, 4)
	for i := range rows {
		r := theta[0]
		for j := range rows[i] {
			r += rows[i][j] * theta[j+1]
		}
		w := 1 / (1 + math.Exp(-r))
		if labels[i] {
			w -= 1
		}
		for j := range rows[i] {
			g[j+1] += w * rows[i][j] / 8
		}
	}
	nrm := math.Sqrt(theta[1]*theta[1] + theta[2]*theta[2] + theta[3]*theta[3])
	res := 0.0
	for j := 1; j <= 3; j++ {
		res = math.Max(res, math.Abs(g[j]+0.875/8*theta[j]/nrm))
	}
	obs.KFStatus("C16/logistic-regression-l2-shrinkage-uses-the-norm-with-intercept", nrm > 0 && res > 1e-3, fmt.Sprintf("theta %v, stationarity residual %g", theta, res))
}

func TestKF_logreg_stepsize_ignores_class_weights(t *testing.T) {
	rows := [][]float64{{0.75, -0.75, -1.5}, {0.75, -0.75, -1.5}, {0, 1.75, 1.75}, {0, 0.25, 0}, {0.5, 0.75, 1.5}, {0, 0.5, -0.75}, {0, 0.25, 2}}
	labels := []bool{true, false, true, true, true, true, true}
	_, epochs, last := lrFit(rows, labels, func(e *vectorEstimator.LogisticRegression) { e.L1Reg = 0.05; e.Balance = true })
	obs.KFStatus("C16/logistic-regression-step-size-ignores-class-weights", epochs >= 19999 && last > 1e-6, fmt.Sprintf("%d epochs, last relative change %g", epochs+1, last))
}

func TestKF_hierarchical_hmm_nan(t *testing.T) {
	e0, _ := scalarEstimator.NewGeometricEstimator(1.0)
	e1, _ := scalarEstimator.NewGeometricEstimator(0.5)
	tree := generic.NewHmmNode(generic.NewHmmLeaf(0, 1), generic.NewHmmLeaf(1, 2))
	est, err := vectorEstimator.NewHierarchicalHmmEstimator(NewDenseFloat64Vector([]float64{1, 1}), NewDenseFloat64Matrix([]float64{1, 1, 1, 1}, 2, 2), nil, nil, nil, tree,
		[]statistics.ScalarEstimator{e0, e1}, 0, 1)
	if err != nil {
		obs.KFStatus("C16/hierarchical-transition-normalisation-nan-for-a-block-without-mass", false, "constructor: "+err.Error())
		return
	}
	x := NewDenseFloat64Vector([]float64{30, 0})
	err = est.EstimateOnData([]ConstVector{x}, nil, threadpool.Nil())
	d, _ := est.GetEstimate()
	r := NullFloat64()
	d.LogPdf(r, x)
	obs.KFStatus("C16/hierarchical-transition-normalisation-nan-for-a-block-without-mass", err == nil && math.IsNaN(r.GetFloat64()), fmt.Sprintf("EstimateOnData error %v, log-likelihood of the estimate %v", err, r.GetFloat64()))
}
