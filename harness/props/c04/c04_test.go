// C04 — linear solves, inverses and determinants satisfy their defining equations.
//
// Inputs are conditioned by construction (gen.DrawLinSys); residuals are computed with the
// harness' own float64 loops and compared with backward-error bounds c*n*eps*|A|*|X|.
package c04

import (
	"fmt"
	"math"
	"os"
	"testing"

	. "github.com/pbenner/autodiff"
	"github.com/pbenner/autodiff/algorithm/backSubstitution"
	"github.com/pbenner/autodiff/algorithm/determinant"
	"github.com/pbenner/autodiff/algorithm/gaussJordan"
	"github.com/pbenner/autodiff/algorithm/matrixInverse"
	"pgregory.net/rapid"
	"verifharness/gen"
	"verifharness/model"
	"verifharness/obs"
)

func TestMain(m *testing.M) {
	code := m.Run()
	obs.Flush()
	os.Exit(code)
}

func call(f func()) (perr string) {
	defer func() {
		if r := recover(); r != nil {
			perr = fmt.Sprint(r)
			if len(perr) > 120 {
				perr = perr[:120]
			}
		}
	}()
	f()
	return ""
}

var elemTypes = []gen.SType{gen.TFloat64, gen.TReal64, gen.TFloat32, gen.TReal32}

const cTol = 256.0 // constant of the backward-error bound (calibrated: >= 100x the worst ratio seen on the pinned tree)

func infNorm(a model.Mat) float64 {
	m := 0.0
	for i := range a {
		s := 0.0
		for _, v := range a[i] {
			s += math.Abs(v)
		}
		if s > m {
			m = s
		}
	}
	return m
}

// residual check |A X - I|_max <= c n eps |A| |X|
func checkInverse(t *rapid.T, c *obs.Case, aspect string, a, x model.Mat, st gen.SType, kappaKnown float64) {
	n := len(a)
	if !x.AllFinite() {
		t.Fatalf("%s: inverse contains non-finite entries: %v", c.Desc(), x)
	}
	na, nx := infNorm(a), infNorm(x)
	if kappaKnown > 0 && na*nx > 1e3*float64(n)*kappaKnown {
		t.Fatalf("%s: |A||X| = %g is far above the condition number %g known by construction", c.Desc(), na*nx, kappaKnown)
	}
	tol := cTol * float64(n) * st.Eps() * na * nx
	r1 := a.Mul(x).Sub(model.Identity(n)).MaxAbs()
	r2 := x.Mul(a).Sub(model.Identity(n)).MaxAbs()
	obs.Note(aspect, "worst residual/tolerance", math.Max(r1, r2)/tol)
	if !(r1 <= tol) || !(r2 <= tol) {
		t.Fatalf("%s: |A*X-I|=%g |X*A-I|=%g exceed the backward-error bound %g (|A|=%g |X|=%g)\nA=%v\nX=%v", c.Desc(), r1, r2, tol, na, nx, a, x)
	}
}

func drawFamily(t *rapid.T) string {
	return gen.Families[rapid.IntRange(0, len(gen.Families)-1).Draw(t, "family")]
}

func classes(c *obs.Case, ls gen.LinSys, st gen.SType, n int) {
	c.Classf("family=%s", ls.Family)
	c.Classf("elem=%s", st)
	c.Classf("n=%d", n)
	if ls.Perm != nil {
		c.Classf("pivot cycle type n=%d: %s", n, gen.CycleType(ls.Perm))
	}
}

// ---------------------------------------------------------------------------------------------

func TestC04_inverse_defining_eq(t *testing.T) {
	rapid.Check(t, func(t *rapid.T) {
		n := rapid.IntRange(1, 7).Draw(t, "n")
		st := gen.DrawType(t, "elem", elemTypes)
		ls := gen.DrawLinSys(t, "A", n, drawFamily(t))
		var args []interface{}
		opt := "default"
		if ls.SPD && rapid.Bool().Draw(t, "usePD") {
			args = append(args, matrixInverse.PositiveDefinite{Value: true})
			opt = "PositiveDefinite"
		}
		if ls.Upper && rapid.Bool().Draw(t, "useUT") {
			args = append(args, matrixInverse.UpperTriangular{Value: true})
			opt = "UpperTriangular"
		}
		c := obs.Begin("inverse_defining_eq", "n=%d %s %s opt=%s A=%v", n, st, ls.Family, opt, ls.A)
		classes(c, ls, st, n)
		c.Classf("option=%s", opt)
		c.NT(n >= 3 && (opt != "default" || (ls.Perm != nil && gen.CycleType(ls.Perm) != "id") || ls.Family == "general"))
		am := gen.ToDense(st, ls.A)
		a := model.FromMatrix(am) // as held by the element type
		var x Matrix
		var err error
		if p := call(func() { x, err = matrixInverse.Run(am, args...) }); p != "" {
			t.Fatalf("%s: panicked: %s", c.Desc(), p)
		}
		if err != nil {
			t.Fatalf("%s: returned error %v for a well-conditioned matrix (kappa=%g)", c.Desc(), err, ls.Kappa)
		}
		checkInverse(t, c, "inverse_defining_eq", a, model.FromMatrix(x), st, ls.Kappa)
		c.End()
	})
}

func TestC04_gauss_jordan_solve(t *testing.T) {
	rapid.Check(t, func(t *rapid.T) {
		n := rapid.IntRange(1, 6).Draw(t, "n")
		st := gen.DrawType(t, "elem", elemTypes)
		ls := gen.DrawLinSys(t, "A", n, drawFamily(t))
		b0 := make([]float64, n)
		for i := range b0 {
			b0[i] = gen.Dyadic(t, "b")
		}
		ut := ls.Upper && rapid.Bool().Draw(t, "useUT")
		c := obs.Begin("gauss_jordan_solve", "n=%d %s %s upperTriangular=%v A=%v b=%v", n, st, ls.Family, ut, ls.A, b0)
		classes(c, ls, st, n)
		c.Classf("upperTriangular=%v", ut)
		c.NT(n >= 3)
		am, xm, bm := gen.ToDense(st, ls.A), gen.ToDense(st, model.Identity(n)), gen.ToDenseVec(st, b0)
		a := model.FromMatrix(am)
		bh := model.FromVector(bm)
		var args []interface{}
		if ut {
			args = append(args, gaussJordan.UpperTriangular{Value: true})
		}
		var err error
		if p := call(func() { err = gaussJordan.Run(am, xm, bm, args...) }); p != "" {
			t.Fatalf("%s: panicked: %s", c.Desc(), p)
		}
		if err != nil {
			t.Fatalf("%s: returned error %v", c.Desc(), err)
		}
		x := model.FromMatrix(xm)
		checkInverse(t, c, "gauss_jordan_solve", a, x, st, ls.Kappa)
		// a is transformed into the identity
		na, nx := infNorm(a), infNorm(x)
		tol := cTol * float64(n) * st.Eps() * na * nx
		if r := model.FromMatrix(am).Sub(model.Identity(n)).MaxAbs(); !(r <= tol) {
			t.Fatalf("%s: the transformed a differs from the identity by %g (bound %g): %v", c.Desc(), r, tol, model.FromMatrix(am))
		}
		// b holds the solution of A sol = b0
		sol := model.FromVector(bm)
		res := a.MulVec(sol)
		for i := range res {
			res[i] -= bh[i]
		}
		tolb := cTol * float64(n) * st.Eps() * na * nx * (model.VecMaxAbs(bh) + 1)
		if r := model.VecMaxAbs(res); !(r <= tolb) {
			t.Fatalf("%s: |A*x-b|=%g exceeds %g; x=%v", c.Desc(), r, tolb, sol)
		}
		c.End()
	})
}

func TestC04_back_substitution(t *testing.T) {
	rapid.Check(t, func(t *rapid.T) {
		n := rapid.IntRange(1, 7).Draw(t, "n")
		st := gen.DrawType(t, "elem", elemTypes)
		ls := gen.DrawLinSys(t, "R", n, "upper-triangular")
		b0 := make([]float64, n)
		for i := range b0 {
			b0[i] = gen.Dyadic(t, "b")
		}
		insitu := rapid.SampledFrom([]string{"none", "fresh buffers", "A buffer supplied"}).Draw(t, "insitu")
		c := obs.Begin("back_substitution", "n=%d %s insitu=%s R=%v b=%v", n, st, insitu, ls.A, b0)
		c.Classf("insitu=%s", insitu)
		c.Classf("elem=%s", st)
		c.NT(n >= 2)
		rm, bm := gen.ToDense(st, ls.A), gen.ToDenseVec(st, b0)
		r := model.FromMatrix(rm)
		bh := model.FromVector(bm)
		var args []interface{}
		switch insitu {
		case "fresh buffers":
			args = append(args, &backSubstitution.InSitu{X: NullDenseVector(st.T, n), T: NullScalar(st.T)})
		case "A buffer supplied":
			args = append(args, &backSubstitution.InSitu{A: NullDenseMatrix(st.T, n, n)})
		}
		var x Vector
		var err error
		if p := call(func() { x, err = backSubstitution.Run(rm, bm, args...) }); p != "" {
			t.Fatalf("%s: panicked: %s", c.Desc(), p)
		}
		if err != nil {
			t.Fatalf("%s: error %v", c.Desc(), err)
		}
		xs := model.FromVector(x)
		res := r.MulVec(xs)
		for i := range res {
			res[i] -= bh[i]
		}
		tol := cTol * float64(n) * st.Eps() * infNorm(r) * (model.VecMaxAbs(xs) + 1)
		if rr := model.VecMaxAbs(res); !(rr <= tol) {
			if insitu == "A buffer supplied" && c.Known("C04/backsubstitution-insitu-A-not-filled") {
				c.End()
				return
			}
			t.Fatalf("%s: |R*x-b|=%g exceeds %g; x=%v", c.Desc(), rr, tol, xs)
		}
		c.End()
	})
}

func TestC04_determinant_and_logdet(t *testing.T) {
	rapid.Check(t, func(t *rapid.T) {
		n := rapid.IntRange(1, 6).Draw(t, "n")
		st := gen.DrawType(t, "elem", elemTypes)
		fam := drawFamily(t)
		ls := gen.DrawLinSys(t, "A", n, fam)
		opt := "naive"
		var args []interface{}
		if ls.SPD {
			opt = rapid.SampledFrom([]string{"naive", "PositiveDefinite", "PositiveDefinite+LogScale"}).Draw(t, "opt")
			if opt != "naive" {
				args = append(args, determinant.PositiveDefinite{Value: true})
			}
			if opt == "PositiveDefinite+LogScale" {
				args = append(args, determinant.LogScale{Value: true})
			}
		}
		c := obs.Begin("determinant_and_logdet", "n=%d %s %s opt=%s A=%v", n, st, ls.Family, opt, ls.A)
		classes(c, ls, st, n)
		c.Classf("option=%s", opt)
		c.NT(n >= 3)
		am := gen.ToDense(st, ls.A)
		a := model.FromMatrix(am)
		var d Scalar
		var err error
		if p := call(func() { d, err = determinant.Run(am, args...) }); p != "" {
			t.Fatalf("%s: panicked: %s", c.Desc(), p)
		}
		if err != nil {
			t.Fatalf("%s: error %v", c.Desc(), err)
		}
		got := d.GetFloat64()
		want := a.Det() // harness-own LU with partial pivoting
		if opt == "PositiveDefinite+LogScale" {
			want = math.Log(want)
		}
		// scale of the problem: product of row norms (Hadamard bound) for relative comparison
		scale := 1.0
		for i := range a {
			s := 0.0
			for _, v := range a[i] {
				s += v * v
			}
			scale *= math.Sqrt(s)
		}
		tol := cTol * float64(n*n) * st.Eps() * scale * ls.Kappa
		if opt == "PositiveDefinite+LogScale" {
			tol = cTol * float64(n*n) * st.Eps() * ls.Kappa * (1 + math.Abs(want))
		}
		obs.Note("determinant_and_logdet", "worst |det-ref|/tolerance", math.Abs(got-want)/tol)
		if !(math.Abs(got-want) <= tol) {
			t.Fatalf("%s: determinant %v, independent LU gives %v (tolerance %g)", c.Desc(), got, want, tol)
		}
		// the value known by construction
		if !math.IsNaN(ls.Det) && opt != "PositiveDefinite+LogScale" && st.Bits == 64 {
			if ls.Family == "integer" && n <= 5 {
				if got != ls.Det {
					t.Fatalf("%s: determinant of an integer matrix is %v, exact value %v", c.Desc(), got, ls.Det)
				}
				c.Class("exact integer determinant")
			} else if !(math.Abs(got-ls.Det) <= tol*16) {
				t.Fatalf("%s: determinant %v, value known by construction %v (tolerance %g)", c.Desc(), got, ls.Det, tol*16)
			}
		}
		c.End()
	})
}

// every pivoting order: the forced pivot order is drawn as a permutation; n <= 4 so that all n!
// orders (all cycle types) are hit within a few hundred cases.
func TestC04_all_pivot_orders(t *testing.T) {
	rapid.Check(t, func(t *rapid.T) {
		n := rapid.IntRange(2, 5).Draw(t, "n")
		st := gen.DrawType(t, "elem", elemTypes)
		ls := gen.DrawLinSys(t, "A", n, "pivot-forcing")
		c := obs.Begin("all_pivot_orders", "n=%d %s perm=%v A=%v", n, st, ls.Perm, ls.A)
		classes(c, ls, st, n)
		c.NT(gen.CycleType(ls.Perm) != "id")
		am := gen.ToDense(st, ls.A)
		a := model.FromMatrix(am)
		var x Matrix
		var err error
		if p := call(func() { x, err = matrixInverse.Run(am) }); p != "" {
			t.Fatalf("%s: panicked: %s", c.Desc(), p)
		}
		if err != nil {
			t.Fatalf("%s: error %v", c.Desc(), err)
		}
		checkInverse(t, c, "all_pivot_orders", a, model.FromMatrix(x), st, 0)
		c.End()
	})
}

func TestC04_submatrix_option(t *testing.T) {
	rapid.Check(t, func(t *rapid.T) {
		n := rapid.IntRange(2, 6).Draw(t, "n")
		st := gen.DrawType(t, "elem", elemTypes)
		mask := make([]bool, n)
		var sel []int
		for i := range mask {
			mask[i] = rapid.Bool().Draw(t, "mask")
			if mask[i] {
				sel = append(sel, i)
			}
		}
		k := len(sel)
		// the selected principal block is a conditioned system; the rest arbitrary
		full := model.NewMat(n, n)
		for i := range full {
			for j := range full[i] {
				full[i][j] = gen.Dyadic(t, "rest")
			}
		}
		var ls gen.LinSys
		if k > 0 {
			ls = gen.DrawLinSys(t, "block", k, rapid.SampledFrom([]string{"general", "pivot-forcing", "integer"}).Draw(t, "family"))
			for a, i := range sel {
				for b, j := range sel {
					full[i][j] = ls.A[a][b]
				}
			}
		}
		c := obs.Begin("submatrix_option", "n=%d %s mask=%v A=%v", n, st, mask, full)
		c.Classf("selected=%d of %d", k, n)
		c.NT(k >= 2 && k < n)
		am := gen.ToDense(st, full)
		a := model.FromMatrix(am)
		var x Matrix
		var err error
		if p := call(func() { x, err = matrixInverse.Run(am, gaussJordan.Submatrix{Value: mask}) }); p != "" {
			t.Fatalf("%s: panicked: %s", c.Desc(), p)
		}
		if err != nil {
			t.Fatalf("%s: error %v", c.Desc(), err)
		}
		xs := model.FromMatrix(x)
		// selected block inverted
		if k > 0 {
			ab, xb := model.NewMat(k, k), model.NewMat(k, k)
			for p, i := range sel {
				for q, j := range sel {
					ab[p][q], xb[p][q] = a[i][j], xs[i][j]
				}
			}
			checkInverse(t, c, "submatrix_option", ab, xb, st, 0)
		}
		// unselected rows/columns: identity
		for i := 0; i < n; i++ {
			for j := 0; j < n; j++ {
				if !mask[i] || !mask[j] {
					want := 0.0
					if i == j {
						want = 1
					}
					if xs[i][j] != want {
						t.Fatalf("%s: result (%d,%d)=%v outside the selected block, expected identity entry %v", c.Desc(), i, j, xs[i][j], want)
					}
				}
			}
		}
		c.End()
	})
}

// two calls in one case, re-using the caller supplied in-situ buffers
func TestC04_insitu_reuse(t *testing.T) {
	rapid.Check(t, func(t *rapid.T) {
		n := rapid.IntRange(1, 5).Draw(t, "n")
		st := gen.DrawType(t, "elem", elemTypes)
		pd := rapid.Bool().Draw(t, "pd")
		fam := func() string {
			if pd {
				return "spd"
			}
			return rapid.SampledFrom([]string{"general", "pivot-forcing", "integer", "sparse-pattern"}).Draw(t, "family")
		}
		ls1 := gen.DrawLinSys(t, "A1", n, fam())
		ls2 := gen.DrawLinSys(t, "A2", n, fam())
		c := obs.Begin("insitu_reuse", "n=%d %s pd=%v A1=%v A2=%v", n, st, pd, ls1.A, ls2.A)
		c.Classf("PositiveDefinite=%v", pd)
		c.Classf("elem=%s", st)
		c.NT(n >= 2)
		in := &matrixInverse.InSitu{}
		args := []interface{}{in}
		if pd {
			args = append(args, matrixInverse.PositiveDefinite{Value: true})
		}
		for k, ls := range []gen.LinSys{ls1, ls2} {
			am := gen.ToDense(st, ls.A)
			a := model.FromMatrix(am)
			var x Matrix
			var err error
			if p := call(func() { x, err = matrixInverse.Run(am, args...) }); p != "" {
				t.Fatalf("%s: call %d panicked: %s", c.Desc(), k+1, p)
			}
			if err != nil {
				t.Fatalf("%s: call %d error %v", c.Desc(), k+1, err)
			}
			checkInverse(t, c, "insitu_reuse", a, model.FromMatrix(x), st, ls.Kappa)
			// the input is unchanged by the call
			if d := model.FromMatrix(am).Sub(a).MaxAbs(); d != 0 {
				t.Fatalf("%s: call %d modified its input matrix", c.Desc(), k+1)
			}
		}
		c.End()
	})
}

// structurally singular input: error, panic or non-finite output, never a finite "answer"
func TestC04_structurally_singular_rejected(t *testing.T) {
	rapid.Check(t, func(t *rapid.T) {
		n := rapid.IntRange(2, 6).Draw(t, "n")
		st := gen.DrawType(t, "elem", elemTypes)
		ls := gen.DrawLinSys(t, "A", n, rapid.SampledFrom([]string{"general", "integer", "pivot-forcing"}).Draw(t, "family"))
		kind := rapid.SampledFrom([]string{"zero row", "zero column", "two identical rows"}).Draw(t, "kind")
		i := rapid.IntRange(0, n-1).Draw(t, "i")
		j := rapid.IntRange(0, n-1).Draw(t, "j")
		if j == i {
			j = (i + 1) % n
		}
		a := ls.A.Clone()
		switch kind {
		case "zero row":
			for k := range a[i] {
				a[i][k] = 0
			}
		case "zero column":
			for k := range a {
				a[k][i] = 0
			}
		default:
			copy(a[j], a[i])
		}
		entry := rapid.SampledFrom([]string{"matrixInverse", "gaussJordan"}).Draw(t, "entry")
		c := obs.Begin("structurally_singular_rejected", "%s n=%d %s %s A=%v", entry, n, st, kind, a)
		c.Classf("kind=%s", kind)
		c.Classf("entry=%s", entry)
		c.NT(true)
		am := gen.ToDense(st, a)
		var x Matrix
		var err error
		p := call(func() {
			if entry == "matrixInverse" {
				x, err = matrixInverse.Run(am)
			} else {
				x = gen.ToDense(st, model.Identity(n))
				err = gaussJordan.Run(am, x, NullDenseVector(st.T, n))
			}
		})
		switch {
		case p != "":
			c.Class("outcome=panic")
		case err != nil:
			c.Class("outcome=error")
		default:
			xs := model.FromMatrix(x)
			if xs.AllFinite() {
				t.Fatalf("%s: a finite matrix was returned as the inverse of a structurally singular matrix: %v", c.Desc(), xs)
			}
			c.Class("outcome=non-finite")
		}
		c.End()
	})
}

// ---------------------------------------------------------------------------------------------
// witnesses

func TestKF_gauss_jordan_pivot_cycle(t *testing.T) {
	bad := ""
	for _, st := range []gen.SType{gen.TFloat64, gen.TReal64} {
		a := gen.ToDense(st, model.Mat{{.1, 10, .2}, {.3, .1, 10}, {10, .2, .1}})
		am := model.FromMatrix(a)
		x, err := matrixInverse.Run(a)
		if err != nil {
			bad += "error " + err.Error()
			continue
		}
		if r := am.Mul(model.FromMatrix(x)).Sub(model.Identity(3)).MaxAbs(); !(r < 1e-10) {
			bad += fmt.Sprintf("%s: |A*X-I|=%g ", st, r)
		}
	}
	obs.KFStatus("C04/gauss-jordan-pivot-order-applied-as-interchanges", bad != "", bad)
}

func TestKF_backsubstitution_insitu(t *testing.T) {
	r := NewDenseFloat64Matrix([]float64{2, 1, 0, 4}, 2, 2)
	b := NewDenseFloat64Vector([]float64{4, 8})
	x, err := backSubstitution.Run(r, b, &backSubstitution.InSitu{A: NullDenseFloat64Matrix(2, 2)})
	bad := err != nil || x.Float64At(0) != 1 || x.Float64At(1) != 2
	obs.KFStatus("C04/backsubstitution-insitu-A-not-filled", bad, fmt.Sprintf("x=%v err=%v (expected [1 2])", x, err))
}
