// C19 — the ordered integer index (AVL tree) behaves as a balanced set under any history.
//
// rapid state machine.  Model: Go map + sorted slice.  After every step the set semantics,
// the structure invariants and the successor specification of every live iterator are checked.
package c19

import (
	"fmt"
	"math"
	"os"
	"sort"
	"strings"
	"testing"

	. "github.com/pbenner/autodiff"
	"pgregory.net/rapid"
	"verifharness/obs"
)

func TestMain(m *testing.M) {
	code := m.Run()
	obs.Flush()
	os.Exit(code)
}

type tracked struct {
	tree  *AvlTree
	model map[int]bool
}

type liveIter struct {
	it   *AvlIterator
	tr   int  // index of tracked tree
	cur  int  // value the iterator stands on (model)
	ok   bool // model: not exhausted
	dead bool // dropped
}

func sortedKeys(m map[int]bool) []int {
	r := make([]int, 0, len(m))
	for k := range m {
		r = append(r, k)
	}
	sort.Ints(r)
	return r
}

// successor in model: smallest key >= lo; ok=false if none
func ceilKey(keys []int, lo int) (int, bool) {
	i := sort.SearchInts(keys, lo)
	if i < len(keys) {
		return keys[i], true
	}
	return 0, false
}

// structure check; returns height, count
func checkNode(n *AvlNode, parent *AvlNode, lo, hi *int, depth int) (int, int, error) {
	if n == nil {
		return 0, 0, nil
	}
	if depth > 200 {
		return 0, 0, fmt.Errorf("depth > 200 (cycle?)")
	}
	if n.Parent != parent {
		pv := "nil"
		if n.Parent != nil {
			pv = fmt.Sprint(n.Parent.Value)
		}
		ev := "nil"
		if parent != nil {
			ev = fmt.Sprint(parent.Value)
		}
		return 0, 0, fmt.Errorf("node %d: Parent is %s, expected %s", n.Value, pv, ev)
	}
	if n.Deleted {
		return 0, 0, fmt.Errorf("reachable node %d has Deleted set", n.Value)
	}
	if lo != nil && n.Value <= *lo {
		return 0, 0, fmt.Errorf("BST order: node %d not > %d", n.Value, *lo)
	}
	if hi != nil && n.Value >= *hi {
		return 0, 0, fmt.Errorf("BST order: node %d not < %d", n.Value, *hi)
	}
	v := n.Value
	hl, cl, err := checkNode(n.Left, n, lo, &v, depth+1)
	if err != nil {
		return 0, 0, err
	}
	hr, cr, err := checkNode(n.Right, n, &v, hi, depth+1)
	if err != nil {
		return 0, 0, err
	}
	if n.Balance != hr-hl {
		return 0, 0, fmt.Errorf("node %d: Balance=%d but height(Right)-height(Left)=%d", n.Value, n.Balance, hr-hl)
	}
	if n.Balance < -1 || n.Balance > 1 {
		return 0, 0, fmt.Errorf("node %d: Balance=%d out of {-1,0,1}", n.Value, n.Balance)
	}
	h := hl
	if hr > h {
		h = hr
	}
	return h + 1, cl + cr + 1, nil
}

func nodeValues(n *AvlNode, m map[*AvlNode]int) {
	if n == nil || len(m) > 10000 {
		return
	}
	m[n] = n.Value
	nodeValues(n.Left, m)
	nodeValues(n.Right, m)
}

func height(n *AvlNode, d int) int {
	if n == nil || d > 200 {
		return 0
	}
	l, r := height(n.Left, d+1), height(n.Right, d+1)
	if l > r {
		return l + 1
	}
	return r + 1
}

func checkTree(t *rapid.T, tr *tracked, lo, hi int, wide bool) {
	keys := sortedKeys(tr.model)
	// structure
	h, cnt, err := checkNode(tr.tree.Root, nil, nil, nil, 0)
	if err != nil {
		t.Fatalf("structure: %v; tree=%v model=%v", err, tr.tree.String(), keys)
	}
	if cnt != len(keys) {
		t.Fatalf("tree has %d nodes, model %d keys; tree=%v model=%v", cnt, len(keys), tr.tree.String(), keys)
	}
	if float64(h) > 1.45*math.Log2(float64(cnt)+2)+1e-9 {
		t.Fatalf("height %d exceeds 1.45*log2(n+2) for n=%d", h, cnt)
	}
	if tr.tree.Emtpy() != (len(keys) == 0) {
		t.Fatalf("Emtpy()=%v, model has %d keys", tr.tree.Emtpy(), len(keys))
	}
	// fresh iterator yields the sorted model
	i := 0
	for it := tr.tree.Iterator(); it.Ok(); it.Next() {
		if i >= len(keys) || it.Get() != keys[i] {
			t.Fatalf("fresh iterator: position %d yields %d; model=%v tree=%v", i, it.Get(), keys, tr.tree.String())
		}
		i++
		if i > len(keys)+1 {
			break
		}
	}
	if i != len(keys) {
		t.Fatalf("fresh iterator yielded %d elements, model has %d; model=%v tree=%v", i, len(keys), keys, tr.tree.String())
	}
	// membership + lower bound over probe set
	var probes []int
	if !wide {
		for k := lo - 1; k <= hi+1; k++ {
			probes = append(probes, k)
		}
	} else {
		for _, k := range keys {
			probes = append(probes, k-1, k, k+1)
		}
		probes = append(probes, lo, hi, 0)
	}
	for _, k := range probes {
		n := tr.tree.FindNode(k)
		if (n != nil) != tr.model[k] {
			t.Fatalf("FindNode(%d)!=nil is %v, model membership %v", k, n != nil, tr.model[k])
		}
		if n != nil && n.Value != k {
			t.Fatalf("FindNode(%d) returned node with value %d", k, n.Value)
		}
		want, ok := ceilKey(keys, k)
		le := tr.tree.FindNodeLE(k)
		if (le != nil) != ok || (ok && le.Value != want) {
			got := "nil"
			if le != nil {
				got = fmt.Sprint(le.Value)
			}
			t.Fatalf("FindNodeLE(%d) = %s, model smallest key >= %d is %d (exists=%v); model=%v", k, got, k, want, ok, keys)
		}
	}
}

func checkIterFrom(t *rapid.T, tr *tracked, from int) {
	keys := sortedKeys(tr.model)
	i := sort.SearchInts(keys, from)
	n := 0
	for it := tr.tree.IteratorFrom(from); it.Ok(); it.Next() {
		if i >= len(keys) || it.Get() != keys[i] {
			t.Fatalf("IteratorFrom(%d): yields %d at step %d; model=%v", from, it.Get(), n, keys)
		}
		i++
		n++
		if n > len(keys)+1 {
			break
		}
	}
	if i != len(keys) {
		t.Fatalf("IteratorFrom(%d) stopped early after %d elements; model=%v", from, n, keys)
	}
}

func machine(t *rapid.T, aspect string, wide bool) {
	c := obs.Begin(aspect, "avl state machine")
	lo, hi := 0, rapid.IntRange(3, 40).Draw(t, "universe")
	if wide {
		lo, hi = -(1 << 31), 1<<31
	}
	var hist []string
	trees := []*tracked{{NewAvlTree(), map[int]bool{}}}
	var iters []*liveIter
	nOps, rot, del2, mutLive, delUnder, cloneDiverge := 0, false, false, false, false, false
	defer func() {
		c.SetDesc(fmt.Sprintf("U=[%d,%d] %s", lo, hi, strings.Join(hist, " ")))
		c.NT(nOps >= 6 && (rot || del2))
		if rot {
			c.Class("rotation")
		}
		if del2 {
			c.Class("delete-node-with-two-children")
		}
		if mutLive {
			c.Class("mutation-while-iterator-live")
		}
		if delUnder {
			c.Class("delete-element-iterator-stands-on")
		}
		if cloneDiverge {
			c.Class("clone-then-diverge")
		}
		if wide {
			c.Class("wide-universe")
		} else {
			c.Class("small-universe")
		}
		c.End()
	}()
	// key generator: small universe uniform; wide: mixture of existing-neighbourhood and random
	drawKey := func(t *rapid.T, tr *tracked, label string) int {
		if !wide {
			return rapid.IntRange(lo, hi).Draw(t, label)
		}
		keys := sortedKeys(tr.model)
		if len(keys) > 0 && rapid.IntRange(0, 2).Draw(t, label+"-mode") > 0 {
			k := keys[rapid.IntRange(0, len(keys)-1).Draw(t, label+"-idx")]
			return k + rapid.IntRange(-2, 2).Draw(t, label+"-off")
		}
		return rapid.IntRange(lo, hi).Draw(t, label)
	}
	liveOn := func(ti int) []*liveIter {
		var r []*liveIter
		for _, it := range iters {
			if !it.dead && it.tr == ti && it.ok {
				r = append(r, it)
			}
		}
		return r
	}
	mutate := func(t *rapid.T, ti int, insert bool, k int) {
		tr := trees[ti]
		before := map[*AvlNode]int{}
		nodeValues(tr.tree.Root, before)
		if !insert {
			if n := tr.tree.FindNode(k); n != nil && n.Left != nil && n.Right != nil {
				del2 = true
			}
		}
		var changed, want bool
		if insert {
			want = !tr.model[k]
			changed = tr.tree.Insert(k)
			tr.model[k] = true
			hist = append(hist, fmt.Sprintf("t%d.Insert(%d)", ti, k))
		} else {
			want = tr.model[k]
			changed = tr.tree.Delete(k)
			delete(tr.model, k)
			hist = append(hist, fmt.Sprintf("t%d.Delete(%d)", ti, k))
		}
		nOps++
		if changed != want {
			t.Fatalf("%s returned %v, model says changed=%v", hist[len(hist)-1], changed, want)
		}
		after := map[*AvlNode]int{}
		nodeValues(tr.tree.Root, after)
		for n, v := range after {
			if bv, ok := before[n]; ok && bv != v {
				rot = true
				break
			}
		}
		if changed {
			if l := liveOn(ti); len(l) > 0 {
				mutLive = true
				if !insert {
					for _, it := range l {
						if it.cur == k {
							delUnder = true
						}
					}
				}
			}
			if len(trees) > 1 {
				cloneDiverge = true
			}
		}
	}
	pickTree := func(t *rapid.T) int {
		if len(trees) == 1 {
			return 0
		}
		return rapid.IntRange(0, len(trees)-1).Draw(t, "tree")
	}
	actions := map[string]func(*rapid.T){
		"insert": func(t *rapid.T) {
			ti := pickTree(t)
			mutate(t, ti, true, drawKey(t, trees[ti], "k"))
		},
		"delete": func(t *rapid.T) {
			ti := pickTree(t)
			mutate(t, ti, false, drawKey(t, trees[ti], "k"))
		},
		"deletePresent": func(t *rapid.T) {
			ti := pickTree(t)
			keys := sortedKeys(trees[ti].model)
			if len(keys) == 0 {
				t.Skip("empty")
			}
			mutate(t, ti, false, keys[rapid.IntRange(0, len(keys)-1).Draw(t, "idx")])
		},
		"clone": func(t *rapid.T) {
			if len(trees) >= 3 {
				t.Skip("enough trees")
			}
			ti := pickTree(t)
			m := map[int]bool{}
			for k := range trees[ti].model {
				m[k] = true
			}
			trees = append(trees, &tracked{trees[ti].tree.Clone(), m})
			hist = append(hist, fmt.Sprintf("t%d=t%d.Clone()", len(trees)-1, ti))
			nOps++
		},
		"openIter": func(t *rapid.T) {
			if len(iters) >= 4 {
				t.Skip("enough iterators")
			}
			ti := pickTree(t)
			keys := sortedKeys(trees[ti].model)
			var li *liveIter
			if rapid.Bool().Draw(t, "from") {
				from := drawKey(t, trees[ti], "from")
				it := trees[ti].tree.IteratorFrom(from)
				want, ok := ceilKey(keys, from)
				li = &liveIter{it: it, tr: ti, cur: want, ok: ok}
				hist = append(hist, fmt.Sprintf("i%d=t%d.IteratorFrom(%d)", len(iters), ti, from))
			} else {
				it := trees[ti].tree.Iterator()
				want, ok := ceilKey(keys, math.MinInt)
				li = &liveIter{it: it, tr: ti, cur: want, ok: ok}
				hist = append(hist, fmt.Sprintf("i%d=t%d.Iterator()", len(iters), ti))
			}
			nOps++
			if li.it.Ok() != li.ok || (li.ok && li.it.Get() != li.cur) {
				t.Fatalf("%s: Ok()=%v Get()=%d, model expects ok=%v value=%d", hist[len(hist)-1], li.it.Ok(), li.it.Get(), li.ok, li.cur)
			}
			iters = append(iters, li)
		},
		"next": func(t *rapid.T) {
			if len(iters) == 0 {
				t.Skip("no iterator")
			}
			ii := rapid.IntRange(0, len(iters)-1).Draw(t, "iter")
			li := iters[ii]
			keys := sortedKeys(trees[li.tr].model)
			hist = append(hist, fmt.Sprintf("i%d.Next()", ii))
			nOps++
			li.it.Next()
			if li.ok {
				if li.cur == math.MaxInt {
					li.ok = false
				} else {
					li.cur, li.ok = ceilKey(keys, li.cur+1)
				}
			}
			if li.it.Ok() != li.ok || (li.ok && li.it.Get() != li.cur) {
				t.Fatalf("%s: Ok()=%v Get()=%d, successor specification expects ok=%v value=%d; set=%v", hist[len(hist)-1], li.it.Ok(), li.it.Get(), li.ok, li.cur, keys)
			}
		},
		"cloneIter": func(t *rapid.T) {
			if len(iters) == 0 || len(iters) >= 5 {
				t.Skip("no iterator / enough")
			}
			ii := rapid.IntRange(0, len(iters)-1).Draw(t, "iter")
			li := iters[ii]
			cl := li.it.Clone()
			iters = append(iters, &liveIter{it: &cl, tr: li.tr, cur: li.cur, ok: li.ok})
			hist = append(hist, fmt.Sprintf("i%d=i%d.Clone()", len(iters)-1, ii))
			nOps++
		},
		// the stress case: mutate relative to the position of a live iterator
		"mutateNearIter": func(t *rapid.T) {
			var cand []int
			for i, it := range iters {
				if it.ok {
					cand = append(cand, i)
				}
			}
			if len(cand) == 0 {
				t.Skip("no live iterator")
			}
			li := iters[cand[rapid.IntRange(0, len(cand)-1).Draw(t, "iter")]]
			tr := trees[li.tr]
			keys := sortedKeys(tr.model)
			which := rapid.IntRange(0, 5).Draw(t, "which")
			k := li.cur
			switch which {
			case 0: // the key it stands on
			case 1: // predecessor
				i := sort.SearchInts(keys, li.cur)
				if i > 0 {
					k = keys[i-1]
				}
			case 2: // successor
				if s, ok := ceilKey(keys, li.cur+1); ok {
					k = s
				}
			case 3: // the root
				if tr.tree.Root != nil {
					k = tr.tree.Root.Value
				}
			case 4: // just above the current (a new successor)
				k = li.cur + 1
			case 5: // just below
				k = li.cur - 1
			}
			if !wide && (k < lo || k > hi) {
				k = li.cur
			}
			ins := rapid.Bool().Draw(t, "insert")
			if which <= 3 {
				ins = rapid.IntRange(0, 3).Draw(t, "ins4") == 0
			}
			mutate(t, li.tr, ins, k)
		},
		"": func(t *rapid.T) {
			for _, tr := range trees {
				checkTree(t, tr, lo, hi, wide)
			}
			ti := pickTree(t)
			checkIterFrom(t, trees[ti], drawKey(t, trees[ti], "probeFrom"))
		},
	}
	t.Repeat(actions)
}

func TestC19_small_universe(t *testing.T) {
	rapid.Check(t, func(t *rapid.T) { machine(t, "small_universe", false) })
}

func TestC19_wide_universe(t *testing.T) {
	rapid.Check(t, func(t *rapid.T) { machine(t, "wide_universe", true) })
}

// Bulk aspect: build a tree from a generated insertion order, delete a generated subset in a
// generated order while one iterator walks the tree, deleting as it goes (the sparse-vector
// skip() idiom): every surviving larger element is visited exactly once.
func TestC19_iterate_while_deleting(t *testing.T) {
	rapid.Check(t, func(t *rapid.T) {
		keys := rapid.SliceOfNDistinct(rapid.IntRange(0, 200), 1, 60, func(i int) int { return i }).Draw(t, "keys")
		c := obs.Begin("iterate_while_deleting", "keys=%v", keys)
		tree := NewAvlTree()
		model := map[int]bool{}
		for _, k := range keys {
			tree.Insert(k)
			model[k] = true
		}
		// plan: at each visited element draw a small list of keys to delete (relative picks)
		var visited []int
		var hist []string
		steps := 0
		nd := 0
		for it := tree.Iterator(); it.Ok(); {
			v := it.Get()
			if !model[v] {
				t.Fatalf("iterator yielded %d which is not in the set; history=%v", v, hist)
			}
			if len(visited) > 0 && v <= visited[len(visited)-1] {
				t.Fatalf("iterator not ascending: %d after %d; history=%v", v, visited[len(visited)-1], hist)
			}
			visited = append(visited, v)
			nDel := rapid.IntRange(0, 3).Draw(t, "nDel")
			for d := 0; d < nDel; d++ {
				sk := sortedKeys(model)
				if len(sk) == 0 {
					break
				}
				var k int
				if rapid.Bool().Draw(t, "self") {
					k = v
				} else {
					k = sk[rapid.IntRange(0, len(sk)-1).Draw(t, "delIdx")]
				}
				if model[k] {
					if !tree.Delete(k) {
						t.Fatalf("Delete(%d) returned false for a member; history=%v", k, hist)
					}
					delete(model, k)
					hist = append(hist, fmt.Sprintf("at %d: Delete(%d)", v, k))
					nd++
				}
			}
			sk := sortedKeys(model)
			want, ok := ceilKey(sk, v+1)
			it.Next()
			if it.Ok() != ok || (ok && it.Get() != want) {
				t.Fatalf("after visiting %d and %v: Next() gives ok=%v value=%d, expected ok=%v value=%d; set=%v", v, hist, it.Ok(), it.Get(), ok, want, sk)
			}
			steps++
			if steps > 500 {
				t.Fatalf("iteration does not end")
			}
		}
		if _, _, err := checkNode(tree.Root, nil, nil, nil, 0); err != nil {
			t.Fatalf("structure after iteration: %v", err)
		}
		c.SetDesc(fmt.Sprintf("keys=%v dels=%v", keys, hist))
		c.NT(len(keys) >= 6 && nd >= 1)
		c.Classf("deletions>=1:%v", nd >= 1)
		c.End()
	})
}
