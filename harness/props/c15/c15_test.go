// C15 — HMM and mixture inference equals explicit enumeration of all hidden paths.
package c15

import (
	"fmt"
	"math"
	"os"
	"testing"

	. "github.com/pbenner/autodiff"
	"github.com/pbenner/autodiff/statistics"
	"github.com/pbenner/autodiff/statistics/generic"
	"github.com/pbenner/autodiff/statistics/matrixDistribution"
	"github.com/pbenner/autodiff/statistics/scalarDistribution"
	"github.com/pbenner/autodiff/statistics/vectorClassifier"
	"github.com/pbenner/autodiff/statistics/vectorDistribution"
	"github.com/pbenner/threadpool"
	"pgregory.net/rapid"
	"verifharness/gen"
	"verifharness/model"
	"verifharness/obs"
)

func TestMain(m *testing.M) {
	code := m.Run()
	obs.Flush()
	os.Exit(code)
}

const tolLog = 1e-9

func call(f func()) (perr string) {
	defer func() {
		if r := recover(); r != nil {
			s := fmt.Sprint(r)
			if len(s) > 200 {
				s = s[:200]
			}
			perr = "panic: " + s
		}
	}()
	f()
	return ""
}

// sameLog: both -Inf, or both finite and within tol (absolute, scaled by magnitude)
func sameLog(got, want float64) bool {
	if math.IsNaN(got) || math.IsNaN(want) {
		return false
	}
	if math.IsInf(want, 0) || math.IsInf(got, 0) {
		return got == want
	}
	return math.Abs(got-want) <= tolLog*(1+math.Abs(want))
}

// ---------------------------------------------------------------------------------------------
// generators

var probPool = []float64{0, 0, 0, 0, 0.125, 0.25, 0.5, 1, 1, 2, 3, 1e-3, 1e-8}

func drawProb(t *rapid.T, label string) float64 {
	if rapid.IntRange(0, 3).Draw(t, label+".kind") == 0 {
		return rapid.Float64Range(0.01, 5).Draw(t, label)
	}
	return rapid.SampledFrom(probPool).Draw(t, label)
}

func drawSubset(t *rapid.T, label string, m int) []int {
	var s []int
	for i := 0; i < m; i++ {
		if rapid.Bool().Draw(t, fmt.Sprintf("%s[%d]", label, i)) {
			s = append(s, i)
		}
	}
	if len(s) == 0 {
		s = []int{rapid.IntRange(0, m-1).Draw(t, label+".one")}
	}
	// a set: the order in which its members are listed carries no meaning
	if len(s) > 1 && rapid.Bool().Draw(t, label+".shuffled") {
		s = rapid.Permutation(s).Draw(t, label+".order")
	}
	return s
}

func drawLogEmission(t *rapid.T, label string) float64 {
	if rapid.IntRange(0, 6).Draw(t, label+".zero") == 0 {
		return math.Inf(-1)
	}
	return rapid.Float64Range(-8, 2).Draw(t, label)
}

type hmmCase struct {
	st           gen.SType
	m            int
	pi           []float64
	tr           model.Mat
	smap         []int // nil: none given
	ne           int
	start, final []int
	isLog        bool
	startFirst   bool
	trKind       string // "plain", "constrained", "hierarchical"
	constraint   []int  // constrained: cells (i0,j0,i1,j1) forced equal
	split        int    // hierarchical: leaves [0,split) and [split,m)
}

func (hc hmmCase) String() string {
	extra := ""
	switch hc.trKind {
	case "constrained":
		extra = fmt.Sprintf(" constrained%v", hc.constraint)
	case "hierarchical":
		extra = fmt.Sprintf(" hierarchical[0,%d)[%d,%d)", hc.split, hc.split, hc.m)
	}
	return fmt.Sprintf("%s m=%d pi=%v tr=%v map=%v start=%v final=%v isLog=%v%s", hc.st, hc.m, hc.pi, hc.tr, hc.smap, hc.start, hc.final, hc.isLog, extra)
}

func drawHmmCase(t *rapid.T, maxM int) hmmCase {
	hc := hmmCase{}
	hc.st = gen.DrawType(t, "elem", []gen.SType{gen.TFloat64, gen.TReal64})
	hc.m = rapid.IntRange(1, maxM).Draw(t, "m")
	m := hc.m
	hc.pi = make([]float64, m)
	for i := range hc.pi {
		hc.pi[i] = drawProb(t, fmt.Sprintf("pi[%d]", i))
	}
	hc.tr = model.NewMat(m, m)
	for i := 0; i < m; i++ {
		for j := 0; j < m; j++ {
			hc.tr[i][j] = drawProb(t, fmt.Sprintf("tr[%d][%d]", i, j))
		}
	}
	switch rapid.IntRange(0, 2).Draw(t, "mapKind") {
	case 0:
		hc.smap, hc.ne = nil, m
	case 1:
		hc.smap = make([]int, m)
		for i := range hc.smap {
			hc.smap[i] = i
		}
		hc.ne = m
	default:
		hc.smap = make([]int, m)
		for i := range hc.smap {
			hc.smap[i] = rapid.IntRange(0, m-1).Draw(t, fmt.Sprintf("map[%d]", i))
			if hc.smap[i]+1 > hc.ne {
				hc.ne = hc.smap[i] + 1
			}
		}
	}
	if rapid.IntRange(0, 9).Draw(t, "useStart") < 4 {
		hc.start = drawSubset(t, "start", m)
	}
	if rapid.IntRange(0, 9).Draw(t, "useFinal") < 4 {
		hc.final = drawSubset(t, "final", m)
	}
	// the initial distribution must have mass on an admissible start state (constructor precondition)
	mass := 0.0
	for i := 0; i < m; i++ {
		if hc.start == nil || contains(hc.start, i) {
			mass += hc.pi[i]
		}
	}
	if mass == 0 {
		if hc.start != nil {
			hc.pi[hc.start[rapid.IntRange(0, len(hc.start)-1).Draw(t, "piFix")]] = 1
		} else {
			hc.pi[rapid.IntRange(0, m-1).Draw(t, "piFix")] = 1
		}
	}
	hc.isLog = rapid.Bool().Draw(t, "isLog")
	hc.startFirst = rapid.Bool().Draw(t, "startFirst")
	hc.trKind = "plain"
	return hc
}

// structured transition matrices (equality constraints solved with Newton's method; block
// structure of a hierarchical model): only some front ends draw them
func drawTrKind(t *rapid.T, hc *hmmCase) {
	switch k := rapid.IntRange(0, 5).Draw(t, "trKind"); {
	case k == 4:
		hc.trKind = "constrained"
		if hc.m >= 2 && rapid.Bool().Draw(t, "withConstraint") {
			m := hc.m
			c := []int{rapid.IntRange(0, m-1).Draw(t, "ci0"), rapid.IntRange(0, m-1).Draw(t, "cj0"), rapid.IntRange(0, m-1).Draw(t, "ci1"), rapid.IntRange(0, m-1).Draw(t, "cj1")}
			if c[0] != c[2] || c[1] != c[3] {
				hc.constraint = c
			}
		}
	case k == 5 && hc.m >= 2:
		hc.trKind = "hierarchical"
		hc.split = rapid.IntRange(1, hc.m-1).Draw(t, "split")
		// the block normalisation divides by block sums: its inputs are strictly positive (the
		// package's own initialiser StdInit only produces such matrices)
		for i := range hc.tr {
			for j := range hc.tr[i] {
				if hc.tr[i][j] == 0 {
					hc.tr[i][j] = 0.125
				}
			}
		}
	}
}

func contains(s []int, x int) bool {
	for _, y := range s {
		if y == x {
			return true
		}
	}
	return false
}

func (hc hmmCase) emissionClass(i int) int {
	if hc.smap == nil {
		return i
	}
	return hc.smap[i]
}

func (hc hmmCase) buildGeneric() (*generic.Hmm, error) {
	pi := append([]float64{}, hc.pi...)
	tr := hc.tr.Clone()
	if hc.isLog {
		for i := range pi {
			pi[i] = math.Log(pi[i])
		}
		for i := range tr {
			for j := range tr[i] {
				tr[i][j] = math.Log(tr[i][j])
			}
		}
	}
	p, err := generic.NewHmmProbabilityVector(gen.ToDenseVec(hc.st, pi), hc.isLog)
	if err != nil {
		return nil, err
	}
	var tm generic.TransitionMatrix
	switch hc.trKind {
	case "constrained":
		var cs []generic.EqualityConstraint
		if hc.constraint != nil {
			ec, err := generic.NewEqualityConstraint(hc.constraint)
			if err != nil {
				return nil, err
			}
			cs = append(cs, ec)
		}
		tm, err = generic.NewChmmTransitionMatrix(gen.ToDense(hc.st, tr), cs, hc.isLog)
	case "hierarchical":
		tree := generic.NewHmmNode(generic.NewHmmLeaf(0, hc.split), generic.NewHmmLeaf(hc.split, hc.m))
		tm, err = generic.NewHhmmTransitionMatrix(gen.ToDense(hc.st, tr), tree, hc.isLog)
	default:
		tm, err = generic.NewHmmTransitionMatrix(gen.ToDense(hc.st, tr), hc.isLog)
	}
	if err != nil {
		return nil, err
	}
	h, err := generic.NewHmm(p, tm, hc.smap)
	if err != nil {
		return nil, err
	}
	if err := hc.restrict(h); err != nil {
		return nil, err
	}
	return h, nil
}

func (hc hmmCase) restrict(h *generic.Hmm) error {
	if hc.startFirst {
		if err := h.SetStartStates(hc.start); err != nil {
			return err
		}
	}
	if err := h.SetFinalStates(hc.final); err != nil {
		return err
	}
	if !hc.startFirst {
		if err := h.SetStartStates(hc.start); err != nil {
			return err
		}
	}
	return nil
}

// expected (probability scale) parameters from the inputs, by the definitions in the package
// documentation: pi restricted to the start states and normalised; rows of tr normalised (a row
// without mass is absorbing); tf = tr restricted to the final states, rows normalised
func (hc hmmCase) expected() (pi []float64, tr, tf model.Mat, unreachableFinal []bool) {
	m := hc.m
	pi = make([]float64, m)
	s := 0.0
	for i := 0; i < m; i++ {
		if hc.start == nil || contains(hc.start, i) {
			pi[i] = hc.pi[i]
			s += pi[i]
		}
	}
	for i := range pi {
		pi[i] /= s
	}
	tr = model.NewMat(m, m)
	for i := 0; i < m; i++ {
		s := 0.0
		for j := 0; j < m; j++ {
			s += hc.tr[i][j]
		}
		for j := 0; j < m; j++ {
			if s == 0 {
				if i == j {
					tr[i][j] = 1
				}
			} else {
				tr[i][j] = hc.tr[i][j] / s
			}
		}
	}
	tf = tr.Clone()
	unreachableFinal = make([]bool, m)
	if hc.final != nil {
		for i := 0; i < m; i++ {
			s := 0.0
			for j := 0; j < m; j++ {
				if contains(hc.final, j) {
					s += tr[i][j]
				}
			}
			for j := 0; j < m; j++ {
				switch {
				case !contains(hc.final, j):
					tf[i][j] = 0
				case s == 0:
					tf[i][j] = 0
				default:
					tf[i][j] = tr[i][j] / s
				}
			}
			unreachableFinal[i] = s == 0
		}
	}
	return
}

func readModel(h *generic.Hmm) model.HmmModel {
	m := h.NStates()
	r := model.HmmModel{M: m, Pi: make([]float64, m), Tr: model.NewMat(m, m), Tf: model.NewMat(m, m), Map: append([]int{}, h.StateMap...)}
	for i := 0; i < m; i++ {
		r.Pi[i] = h.Pi.At(i).GetFloat64()
		for j := 0; j < m; j++ {
			r.Tr[i][j] = h.Tr.At(i, j).GetFloat64()
			r.Tf[i][j] = h.Tf.At(i, j).GetFloat64()
		}
	}
	return r
}

// emission table as data record ---------------------------------------------------------------

type tableRecord struct {
	e      [][]float64 // [class][mapped index]
	mapIdx []int
}

func (r tableRecord) MapIndex(k int) int { return r.mapIdx[k] }
func (r tableRecord) GetN() int          { return len(r.mapIdx) }
func (r tableRecord) LogPdf(x Scalar, c, k int) error {
	x.SetFloat64(r.e[c][r.mapIdx[k]])
	return nil
}

// per-position table for the enumerator
func (r tableRecord) positional() [][]float64 {
	e := make([][]float64, len(r.e))
	for c := range e {
		e[c] = make([]float64, len(r.mapIdx))
		for k, l := range r.mapIdx {
			e[c][k] = r.e[c][l]
		}
	}
	return e
}

func drawTable(t *rapid.T, label string, ne, nmapped int) [][]float64 {
	e := make([][]float64, ne)
	for c := range e {
		e[c] = make([]float64, nmapped)
		for l := range e[c] {
			e[c][l] = drawLogEmission(t, fmt.Sprintf("%s[%d][%d]", label, c, l))
		}
	}
	return e
}

func maxLen(m int) int {
	n := 1
	for p := m; n < 6 && p*m <= 4096; p *= m {
		n++
	}
	if m == 1 {
		n = 6
	}
	return n
}

func drawRecord(t *rapid.T, label string, m int, e [][]float64, nmapped int, identity bool) tableRecord {
	n := rapid.IntRange(1, maxLen(m)).Draw(t, label+".n")
	if identity && n > nmapped {
		n = nmapped
	}
	idx := make([]int, n)
	for k := range idx {
		if identity {
			idx[k] = k
		} else {
			idx[k] = rapid.IntRange(0, nmapped-1).Draw(t, fmt.Sprintf("%s.map[%d]", label, k))
		}
	}
	return tableRecord{e, idx}
}

// ---------------------------------------------------------------------------------------------
// the inference checks shared by all front ends

type frontEnd struct {
	logPdf    func() (float64, error)
	marginals func() ([]Vector, error)
	posterior func(sets [][]int) (float64, error)
	viterbi   func() ([]int, error)
}

func checkInference(t *rapid.T, c *obs.Case, fe frontEnd, hm model.HmmModel, e [][]float64, n int) {
	st := hm.Stats(n, e)
	if st.NaN {
		t.Fatalf("%s: the model's published parameters give a NaN joint probability (model %+v)", c.Desc(), hm)
	}
	c.Classf("n=%d", min(n, 4))
	if math.IsInf(st.Total, -1) {
		c.Class("data has zero probability")
	}
	// log-likelihood
	var lp float64
	var err error
	if p := call(func() { lp, err = fe.logPdf() }); p != "" {
		t.Fatalf("%s: LogPdf %s", c.Desc(), p)
	}
	if err != nil {
		t.Fatalf("%s: LogPdf returned error %v", c.Desc(), err)
	}
	if !sameLog(lp, st.Total) {
		t.Fatalf("%s: LogPdf = %v, enumeration of all %d^%d paths gives %v", c.Desc(), lp, hm.M, n, st.Total)
	}
	// posterior marginals
	var g []Vector
	if p := call(func() { g, err = fe.marginals() }); p != "" {
		t.Fatalf("%s: PosteriorMarginals %s", c.Desc(), p)
	}
	if math.IsInf(st.Total, -1) {
		if err == nil {
			// undefined conditional: anything but a silent finite answer
			for i := range g {
				for k := 0; k < n; k++ {
					if v := g[i].At(k).GetFloat64(); !math.IsNaN(v) && !math.IsInf(v, 0) {
						t.Fatalf("%s: all paths have zero probability but PosteriorMarginals reports the finite value %v for state %d at %d", c.Desc(), v, i, k)
					}
				}
			}
		}
	} else {
		if err != nil {
			t.Fatalf("%s: PosteriorMarginals returned error %v although log p(x) = %v", c.Desc(), err, st.Total)
		}
		if len(g) != hm.M {
			t.Fatalf("%s: PosteriorMarginals has %d state rows, want %d", c.Desc(), len(g), hm.M)
		}
		for k := 0; k < n; k++ {
			var col []float64
			for i := 0; i < hm.M; i++ {
				got := g[i].At(k).GetFloat64()
				want := st.Marg[k][i] - st.Total
				if !sameLog(got, want) {
					t.Fatalf("%s: posterior marginal of state %d at position %d is %v (log), enumeration gives %v", c.Desc(), i, k, got, want)
				}
				col = append(col, got)
			}
			if s := model.LogSumExp(col); math.Abs(s) > 1e-9 {
				t.Fatalf("%s: posterior marginals at position %d sum to exp(%v), not one", c.Desc(), k, s)
			}
		}
	}
	// posterior of a state-set sequence
	sets := make([][]int, n)
	full := true
	for k := range sets {
		sets[k] = drawSubset(t, fmt.Sprintf("set%d", k), hm.M)
		if len(sets[k]) != hm.M {
			full = false
		}
	}
	var po float64
	if p := call(func() { po, err = fe.posterior(sets) }); p != "" {
		t.Fatalf("%s: Posterior(%v) %s", c.Desc(), sets, p)
	}
	if err != nil {
		t.Fatalf("%s: Posterior(%v) returned error %v", c.Desc(), sets, err)
	}
	if !math.IsInf(st.Total, -1) {
		want := hm.SetMass(n, e, sets) - st.Total
		if !sameLog(po, want) {
			t.Fatalf("%s: Posterior(%v) = %v (log), enumeration gives %v", c.Desc(), sets, po, want)
		}
		if !full {
			c.Class("proper state sets")
		}
		if math.IsInf(want, -1) {
			c.Class("state sets with zero posterior")
		}
	}
	// Viterbi
	var path []int
	if p := call(func() { path, err = fe.viterbi() }); p != "" {
		t.Fatalf("%s: Viterbi %s", c.Desc(), p)
	}
	if err != nil {
		t.Fatalf("%s: Viterbi returned error %v", c.Desc(), err)
	}
	if len(path) != n {
		t.Fatalf("%s: Viterbi path %v has length %d, want %d", c.Desc(), path, len(path), n)
	}
	for _, s := range path {
		if s < 0 || s >= hm.M {
			t.Fatalf("%s: Viterbi path %v contains an invalid state", c.Desc(), path)
		}
	}
	if j := hm.Joint(path, e); !sameLog(j, st.Best) {
		t.Fatalf("%s: Viterbi path %v has log joint probability %v, the best path has %v", c.Desc(), path, j, st.Best)
	}
	// how many maximisers are there?
	if !math.IsInf(st.Best, -1) {
		ties := 0
		hm.Enumerate(n, e, func(p []int, lj float64) {
			if lj == st.Best {
				ties++
			}
		})
		if ties > 1 {
			c.Class("tie in Viterbi")
		}
	}
}

func min(a, b int) int {
	if a < b {
		return a
	}
	return b
}

func classifyCase(c *obs.Case, hc hmmCase) {
	zeroTr := false
	for i := range hc.tr {
		rowMass := 0.0
		for _, v := range hc.tr[i] {
			if v == 0 {
				zeroTr = true
			}
			rowMass += v
		}
		if rowMass == 0 {
			c.Class("row without mass (absorbing)")
		}
	}
	if zeroTr {
		c.Class("zero transition")
	}
	manyToOne := false
	if hc.smap != nil {
		seen := map[int]bool{}
		for _, s := range hc.smap {
			if seen[s] {
				manyToOne = true
			}
			seen[s] = true
		}
	}
	if manyToOne {
		c.Class("many-to-one state map")
	}
	if hc.start != nil {
		c.Class("start states set")
	}
	if hc.final != nil {
		c.Class("final states set")
	}
	c.Classf("elem=%s", hc.st)
}

func nontrivial(hc hmmCase, n int) bool {
	if hc.m < 2 || n < 3 {
		return false
	}
	if hc.start != nil || hc.final != nil {
		return true
	}
	for i := range hc.tr {
		for _, v := range hc.tr[i] {
			if v == 0 {
				return true
			}
		}
	}
	if hc.smap != nil {
		seen := map[int]bool{}
		for _, s := range hc.smap {
			if seen[s] {
				return true
			}
			seen[s] = true
		}
	}
	return false
}

// ---------------------------------------------------------------------------------------------
// (a) generic HMM with an arbitrary emission table

func TestC15_hmm_table_enum(t *testing.T) {
	rapid.Check(t, func(t *rapid.T) {
		hc := drawHmmCase(t, 4)
		drawTrKind(t, &hc)
		nmapped := rapid.IntRange(1, 6).Draw(t, "nmapped")
		identity := rapid.Bool().Draw(t, "identityMap")
		if identity {
			nmapped = maxLen(hc.m)
		}
		e := drawTable(t, "e", hc.ne, nmapped)
		rec := drawRecord(t, "rec", hc.m, e, nmapped, identity)
		n := rec.GetN()
		c := obs.Begin("hmm_table_enum", "%v n=%d map=%v e=%v", hc, n, rec.mapIdx, e)
		classifyCase(c, hc)
		c.NT(nontrivial(hc, n))
		c.Classf("transition matrix: %s", hc.trKind)
		h, err := hc.buildGeneric()
		if err != nil {
			if hc.trKind != "plain" {
				// the structured normalisations solve an equation system and may reject inputs
				c.Class("structured transition matrix rejected by its constructor")
				c.End()
				return
			}
			t.Fatalf("%s: constructor failed: %v", c.Desc(), err)
		}
		hm := readModel(h)
		if hc.trKind != "plain" {
			// whatever the structured normalisation does, the model must be a stochastic one
			for i := 0; i < hc.m; i++ {
				if s := model.LogSumExp(hm.Tr[i]); math.IsNaN(s) || math.Abs(s) > 1e-6 {
					if hc.trKind == "constrained" && hc.constraint != nil {
						// an equality constraint can be unsatisfiable together with the zeros of the input
						c.Class("constrained rows not stochastic (constraint may be unsatisfiable)")
						c.End()
						return
					}
					t.Fatalf("%s: row %d of the published %s transition matrix sums to exp(%v): %v", c.Desc(), i, hc.trKind, s, hm.Tr[i])
				}
			}
		}
		fe := frontEnd{
			logPdf: func() (float64, error) {
				r := NullScalar(hc.st.T)
				err := h.LogPdf(r, rec)
				return r.GetFloat64(), err
			},
			marginals: func() ([]Vector, error) { return h.PosteriorMarginals(rec) },
			posterior: func(sets [][]int) (float64, error) {
				r := NullScalar(hc.st.T)
				err := h.Posterior(r, rec, sets)
				return r.GetFloat64(), err
			},
			viterbi: func() ([]int, error) { return h.Viterbi(rec) },
		}
		checkInference(t, c, fe, hm, rec.positional(), n)
		// forward-backward matrices (generic recursion): alpha*beta sums to p(x) at every position
		var alpha, beta Matrix
		if p := call(func() { alpha, beta, err = h.ForwardBackward(rec) }); p != "" || err != nil {
			t.Fatalf("%s: ForwardBackward %s %v", c.Desc(), p, err)
		}
		st := hm.Stats(n, rec.positional())
		for k := 0; k < n; k++ {
			for i := 0; i < hc.m; i++ {
				got := alpha.At(i, k).GetFloat64() + beta.At(i, k).GetFloat64()
				if !sameLog(got, st.Marg[k][i]) {
					t.Fatalf("%s: alpha+beta for state %d at %d is %v, enumeration of p(x, y_%d=%d) gives %v", c.Desc(), i, k, got, k, i, st.Marg[k][i])
				}
			}
		}
		c.End()
	})
}

// ---------------------------------------------------------------------------------------------
// (b) the parameters a constructed model publishes are the normalised, restricted inputs

func TestC15_hmm_parameters(t *testing.T) {
	rapid.Check(t, func(t *rapid.T) {
		hc := drawHmmCase(t, 4)
		c := obs.Begin("hmm_parameters", "%v", hc)
		classifyCase(c, hc)
		c.NT(hc.m >= 2 && (hc.start != nil || hc.final != nil))
		h, err := hc.buildGeneric()
		if err != nil {
			t.Fatalf("%s: constructor failed: %v", c.Desc(), err)
		}
		hm := readModel(h)
		pi, tr, tf, unreachable := hc.expected()
		for i := 0; i < hc.m; i++ {
			if !sameLog(hm.Pi[i], math.Log(pi[i])) {
				t.Fatalf("%s: Pi[%d] = %v (log), expected %v", c.Desc(), i, hm.Pi[i], math.Log(pi[i]))
			}
			for j := 0; j < hc.m; j++ {
				if !sameLog(hm.Tr[i][j], math.Log(tr[i][j])) {
					t.Fatalf("%s: Tr[%d][%d] = %v (log), expected %v", c.Desc(), i, j, hm.Tr[i][j], math.Log(tr[i][j]))
				}
				if unreachable[i] {
					c.Class("row cannot reach a final state")
					// no admissible last transition from i: whatever the row holds, a state that is
					// not final must stay excluded
					if !contains(hc.final, j) && !math.IsInf(hm.Tf[i][j], -1) {
						if c.Known("C15/final-state-restriction-lost-for-rows-without-final-mass") {
							continue
						}
						t.Fatalf("%s: Tf[%d][%d] = %v (log) although state %d is not a final state", c.Desc(), i, j, hm.Tf[i][j], j)
					}
					continue
				}
				if !sameLog(hm.Tf[i][j], math.Log(tf[i][j])) {
					t.Fatalf("%s: Tf[%d][%d] = %v (log), expected %v", c.Desc(), i, j, hm.Tf[i][j], math.Log(tf[i][j]))
				}
			}
		}
		// a clone publishes the same parameters
		h2 := h.Clone()
		hm2 := readModel(h2)
		for i := 0; i < hc.m; i++ {
			ok := sameLog(hm2.Pi[i], hm.Pi[i])
			for j := 0; j < hc.m; j++ {
				ok = ok && sameLog(hm2.Tr[i][j], hm.Tr[i][j]) && sameLog(hm2.Tf[i][j], hm.Tf[i][j])
			}
			if !ok || hm2.Map[i] != hm.Map[i] {
				t.Fatalf("%s: the clone publishes %v, the original %v", c.Desc(), hm2, hm)
			}
		}
		c.End()
	})
}

// ---------------------------------------------------------------------------------------------
// (c) the float64-specialised recursion (Baum-Welch step) against the enumeration

type tableSet struct {
	recs    []tableRecord
	nmapped int
}

func (s *tableSet) GetRecord(i int) generic.HmmDataRecord { return s.recs[i] }
func (s *tableSet) GetNMapped() int                       { return s.nmapped }
func (s *tableSet) GetNRecords() int                      { return len(s.recs) }
func (s *tableSet) GetN() int {
	n := 0
	for _, r := range s.recs {
		n += r.GetN()
	}
	return n
}

type bwCore struct {
	hmm1, hmm2 *generic.Hmm
	data       *tableSet
	gamma      [][]float64
	stepErr    error
}

func (c *bwCore) EvaluateLogPdf(p threadpool.ThreadPool) error { return nil }
func (c *bwCore) GetBasicHmm() generic.BasicHmm                { return c.hmm1 }
func (c *bwCore) Swap()                                        { c.hmm1, c.hmm2 = c.hmm2, c.hmm1 }
func (c *bwCore) Step(meta ConstVector, tmp []generic.BaumWelchTmp, p threadpool.ThreadPool) (float64, error) {
	l, err := c.hmm1.BaumWelchStep(c.hmm1, c.hmm2, c.data, meta, tmp, p)
	c.stepErr = err
	return l, err
}
func (c *bwCore) Emissions(gamma []DenseFloat64Vector, p threadpool.ThreadPool) error {
	c.gamma = make([][]float64, len(gamma))
	for i := range gamma {
		c.gamma[i] = make([]float64, gamma[i].Dim())
		for l := range c.gamma[i] {
			c.gamma[i][l] = gamma[i].At(l).GetFloat64()
		}
	}
	return nil
}

func TestC15_baumwelch_step_enum(t *testing.T) {
	rapid.Check(t, func(t *rapid.T) {
		hc := drawHmmCase(t, 3)
		nmapped := rapid.IntRange(1, 6).Draw(t, "nmapped")
		e := drawTable(t, "e", hc.ne, nmapped)
		nrec := rapid.IntRange(1, 3).Draw(t, "records")
		ds := &tableSet{nmapped: nmapped}
		for r := 0; r < nrec; r++ {
			ds.recs = append(ds.recs, drawRecord(t, fmt.Sprintf("rec%d", r), hc.m, e, nmapped, false))
		}
		optE := rapid.Bool().Draw(t, "optimizeEmissions")
		optT := rapid.Bool().Draw(t, "optimizeTransitions")
		var meta []float64
		if rapid.IntRange(0, 3).Draw(t, "useMeta") == 0 {
			meta = make([]float64, nmapped)
			for l := range meta {
				meta[l] = rapid.Float64Range(-5, 0).Draw(t, fmt.Sprintf("meta[%d]", l))
			}
		}
		threads := rapid.IntRange(0, 3).Draw(t, "threads")
		c := obs.Begin("baumwelch_step_enum", "%v records=%d e=%v optE=%v optT=%v meta=%v threads=%d", hc, nrec, e, optE, optT, meta, threads)
		classifyCase(c, hc)
		c.Classf("records=%d", nrec)
		h, err := hc.buildGeneric()
		if err != nil {
			t.Fatalf("%s: constructor failed: %v", c.Desc(), err)
		}
		hm := readModel(h)
		// reference statistics per record
		stats := make([]model.PathStats, nrec)
		total := 0.0
		nmax := 0
		for r, rec := range ds.recs {
			stats[r] = hm.Stats(rec.GetN(), rec.positional())
			total += stats[r].Total
			if rec.GetN() > nmax {
				nmax = rec.GetN()
			}
			c.SetDesc(c.Desc() + fmt.Sprintf(" rec%d=%v", r, rec.mapIdx))
		}
		c.NT(nontrivial(hc, nmax) && nrec >= 1)
		core := &bwCore{hmm1: h.Clone(), hmm2: h.Clone(), data: ds}
		var pool threadpool.ThreadPool
		if threads == 0 {
			pool = threadpool.Nil()
		} else {
			pool = threadpool.New(threads, 10)
			defer pool.Stop()
			c.Class("thread pool")
		}
		var metaV ConstVector
		if meta != nil {
			metaV = NewDenseFloat64Vector(meta)
			c.Class("weights (meta)")
		}
		var hookL []float64
		hook := generic.BaumWelchHook{Value: func(hmm generic.BasicHmm, i int, likelihood, epsilon float64) {
			if i > 0 {
				hookL = append(hookL, likelihood)
			}
		}}
		var runErr error
		if p := call(func() {
			runErr = generic.BaumWelchAlgorithm(core, metaV, nrec, nmax, nmapped, hc.m, hc.ne, 0.0, 1, pool, hook,
				generic.BaumWelchOptimizeEmissions{Value: optE}, generic.BaumWelchOptimizeTransitions{Value: optT})
		}); p != "" {
			t.Fatalf("%s: BaumWelchAlgorithm %s", c.Desc(), p)
		}
		if hc.final != nil && len(hc.final) > 1 {
			c.Class("several final states (documented: rejected)")
			if runErr == nil {
				t.Fatalf("%s: several final states are documented as rejected, but the step succeeded", c.Desc())
			}
			c.End()
			return
		}
		if math.IsInf(total, -1) {
			c.Class("a record has zero probability")
			// undefined update: must not be reported as an ordinary finite likelihood
			if runErr == nil && len(hookL) > 0 && !math.IsInf(hookL[0], -1) && !math.IsNaN(hookL[0]) {
				// with a worker pool the error of the failing record can be lost inside the thread
				// pool (open finding of C17, a race in the dependency): schedule dependent
				if threads > 0 && c.Known("C17/threadpool-drops-a-job-error-when-wait-wins-the-race") {
					c.End()
					return
				}
				t.Fatalf("%s: a record has zero probability but the step reports the likelihood %v", c.Desc(), hookL[0])
			}
			c.End()
			return
		}
		if runErr != nil {
			t.Fatalf("%s: BaumWelchAlgorithm returned error %v (log p(data) = %v)", c.Desc(), runErr, total)
		}
		if len(hookL) != 1 {
			t.Fatalf("%s: hook was called %d times with an iteration number > 0, want 1", c.Desc(), len(hookL))
		}
		if !sameLog(hookL[0], total) {
			t.Fatalf("%s: reported likelihood %v, enumeration gives %v", c.Desc(), hookL[0], total)
		}
		upd := readModel(core.hmm1)
		// expected pi: average posterior of the first state
		for i := 0; i < hc.m; i++ {
			var terms []float64
			for r := range ds.recs {
				terms = append(terms, stats[r].Marg[0][i]-stats[r].Total)
			}
			want := model.LogSumExp(terms) - math.Log(float64(nrec))
			if !sameLog(upd.Pi[i], want) {
				t.Fatalf("%s: updated Pi[%d] = %v (log), enumeration gives %v", c.Desc(), i, upd.Pi[i], want)
			}
		}
		// expected transition matrix
		if optT {
			for i := 0; i < hc.m; i++ {
				row := make([]float64, hc.m)
				for j := 0; j < hc.m; j++ {
					var terms []float64
					for r, rec := range ds.recs {
						last := rec.GetN() - 2
						if hc.final != nil {
							last-- // the last transition is not counted when a final state is forced
						}
						for k := 0; k <= last; k++ {
							terms = append(terms, stats[r].Pair[k][i][j]-stats[r].Total)
						}
					}
					row[j] = model.LogSumExp(terms)
				}
				z := model.LogSumExp(row)
				for j := 0; j < hc.m; j++ {
					want := row[j] - z
					if math.IsInf(z, -1) {
						c.Class("state never left (row becomes absorbing)")
						want = math.Inf(-1)
						if i == j {
							want = 0
						}
					}
					if !sameLog(upd.Tr[i][j], want) {
						t.Fatalf("%s: updated Tr[%d][%d] = %v (log), enumeration of expected transition counts gives %v", c.Desc(), i, j, upd.Tr[i][j], want)
					}
				}
			}
		} else {
			for i := 0; i < hc.m; i++ {
				for j := 0; j < hc.m; j++ {
					if !sameLog(upd.Tr[i][j], hm.Tr[i][j]) {
						t.Fatalf("%s: transitions are not optimised but Tr[%d][%d] changed from %v to %v", c.Desc(), i, j, hm.Tr[i][j], upd.Tr[i][j])
					}
				}
			}
		}
		// responsibilities handed to the emission estimators
		if optE {
			if len(core.gamma) != hc.ne {
				t.Fatalf("%s: %d responsibility vectors, want %d", c.Desc(), len(core.gamma), hc.ne)
			}
			for cl := 0; cl < hc.ne; cl++ {
				for l := 0; l < nmapped; l++ {
					var terms []float64
					for r, rec := range ds.recs {
						for k, lk := range rec.mapIdx {
							if lk != l {
								continue
							}
							for i := 0; i < hc.m; i++ {
								if hc.emissionClass(i) == cl {
									w := stats[r].Marg[k][i] - stats[r].Total
									if meta != nil {
										w += meta[l]
									}
									terms = append(terms, w)
								}
							}
						}
					}
					want := model.LogSumExp(terms)
					if !sameLog(core.gamma[cl][l], want) {
						t.Fatalf("%s: responsibility of emission class %d for observation %d is %v (log), enumeration gives %v", c.Desc(), cl, l, core.gamma[cl][l], want)
					}
				}
			}
			c.Class("responsibilities checked")
		}
		c.End()
	})
}

// ---------------------------------------------------------------------------------------------
// (d) library front ends: vector/matrix HMM distributions with real emission families, and the
// classifiers built on them

func drawScalarPdf(t *rapid.T, label string, st gen.SType) statistics.ScalarPdf {
	switch rapid.IntRange(0, 2).Draw(t, label+".family") {
	case 0:
		mu := rapid.Float64Range(-2, 4).Draw(t, label+".mu")
		sigma := rapid.Float64Range(0.2, 3).Draw(t, label+".sigma")
		d, err := scalarDistribution.NewNormalDistribution(NewScalar(st.T, mu), NewScalar(st.T, sigma))
		if err != nil {
			t.Fatalf("normal: %v", err)
		}
		return d
	case 1:
		lambda := rapid.Float64Range(0.1, 4).Draw(t, label+".lambda")
		d, err := scalarDistribution.NewPoissonDistribution(NewScalar(st.T, lambda))
		if err != nil {
			t.Fatalf("poisson: %v", err)
		}
		return d
	default:
		th := make([]float64, 4)
		s := 0.0
		for i := range th {
			th[i] = drawProb(t, fmt.Sprintf("%s.theta[%d]", label, i))
			s += th[i]
		}
		if s == 0 {
			th[0] = 1
		}
		d, err := scalarDistribution.NewCategoricalDistribution(gen.ToDenseVec(st, th))
		if err != nil {
			t.Fatalf("categorical: %v", err)
		}
		return d
	}
}

func TestC15_hmm_distributions_enum(t *testing.T) {
	rapid.Check(t, func(t *rapid.T) {
		hc := drawHmmCase(t, 3)
		hc.isLog = false
		n := rapid.IntRange(1, maxLen(hc.m)).Draw(t, "n")
		matrixData := rapid.Bool().Draw(t, "matrixData")
		dim := 1
		if matrixData {
			dim = rapid.IntRange(1, 2).Draw(t, "dim")
		}
		x := model.NewMat(n, dim)
		for k := 0; k < n; k++ {
			for d := 0; d < dim; d++ {
				x[k][d] = float64(rapid.IntRange(0, 3).Draw(t, fmt.Sprintf("x[%d][%d]", k, d)))
			}
		}
		c := obs.Begin("hmm_distributions_enum", "%v n=%d matrix=%v x=%v", hc, n, matrixData, x)
		classifyCase(c, hc)
		c.NT(nontrivial(hc, n))
		// emission distributions
		e := make([][]float64, hc.ne)
		var fe frontEnd
		var gh *generic.Hmm
		piV, trM := gen.ToDenseVec(hc.st, hc.pi), gen.ToDense(hc.st, hc.tr)
		if !matrixData {
			c.Class("front end: vectorDistribution.Hmm")
			edist := make([]statistics.ScalarPdf, hc.ne)
			for cl := range edist {
				edist[cl] = drawScalarPdf(t, fmt.Sprintf("edist%d", cl), hc.st)
				c.SetDesc(c.Desc() + fmt.Sprintf(" edist%d=%v", cl, edist[cl].GetParameters()))
			}
			h, err := vectorDistribution.NewHmm(piV, trM, hc.smap, edist)
			if err != nil {
				t.Fatalf("%s: constructor failed: %v", c.Desc(), err)
			}
			if err := hc.restrict(&h.Hmm); err != nil {
				t.Fatalf("%s: %v", c.Desc(), err)
			}
			gh = &h.Hmm
			xs := make([]float64, n)
			for k := range xs {
				xs[k] = x[k][0]
			}
			xv := NewDenseFloat64Vector(xs)
			for cl := range e {
				e[cl] = make([]float64, n)
				for k := 0; k < n; k++ {
					r := NullScalar(hc.st.T)
					if err := edist[cl].LogPdf(r, ConstFloat64(xs[k])); err != nil {
						t.Fatalf("%s: emission LogPdf: %v", c.Desc(), err)
					}
					e[cl][k] = r.GetFloat64()
				}
			}
			useClassifier := rapid.Bool().Draw(t, "classifier")
			fe = frontEnd{
				logPdf: func() (float64, error) {
					r := NullScalar(hc.st.T)
					err := h.LogPdf(r, xv)
					return r.GetFloat64(), err
				},
				marginals: func() ([]Vector, error) { return h.PosteriorMarginals(xv) },
				posterior: func(sets [][]int) (float64, error) {
					r := NullScalar(hc.st.T)
					err := h.Posterior(r, xv, sets)
					return r.GetFloat64(), err
				},
				viterbi: func() ([]int, error) { return h.Viterbi(xv) },
			}
			if useClassifier {
				c.Class("front end: classifiers")
				fe.viterbi = func() ([]int, error) {
					r := NullDenseFloat64Vector(n)
					if err := (vectorClassifier.HmmClassifier{Hmm: h}).Eval(r, xv); err != nil {
						return nil, err
					}
					p := make([]int, n)
					for k := range p {
						p[k] = int(r.At(k).GetFloat64())
					}
					return p, nil
				}
				// HmmPosterior: probability (not log) that the state at each position is in States
				states := drawSubset(t, "classifierStates", hc.m)
				defer func() {
					hm := readModel(gh)
					st := hm.Stats(n, e)
					if math.IsInf(st.Total, -1) {
						return
					}
					r := NullDenseFloat64Vector(n)
					var err error
					if p := call(func() { err = (vectorClassifier.HmmPosterior{Hmm: h, States: states}).Eval(r, xv) }); p != "" || err != nil {
						t.Fatalf("%s: HmmPosterior.Eval %s %v", c.Desc(), p, err)
					}
					for k := 0; k < n; k++ {
						var terms []float64
						for _, s := range states {
							terms = append(terms, st.Marg[k][s]-st.Total)
						}
						want := math.Exp(model.LogSumExp(terms))
						if got := r.At(k).GetFloat64(); math.Abs(got-want) > 1e-9 {
							t.Fatalf("%s: HmmPosterior(states %v) at position %d is %v, enumeration gives %v", c.Desc(), states, k, got, want)
						}
					}
				}()
			}
		} else {
			c.Class("front end: matrixDistribution.Hmm")
			edist := make([]statistics.VectorPdf, hc.ne)
			for cl := range edist {
				parts := make([]statistics.ScalarPdf, dim)
				for d := range parts {
					parts[d] = drawScalarPdf(t, fmt.Sprintf("edist%d.%d", cl, d), hc.st)
					c.SetDesc(c.Desc() + fmt.Sprintf(" edist%d.%d=%v", cl, d, parts[d].GetParameters()))
				}
				v, err := vectorDistribution.NewScalarId(parts...)
				if err != nil {
					t.Fatalf("%s: NewScalarId: %v", c.Desc(), err)
				}
				edist[cl] = v
			}
			h, err := matrixDistribution.NewHmm(piV, trM, hc.smap, edist)
			if err != nil {
				t.Fatalf("%s: constructor failed: %v", c.Desc(), err)
			}
			if err := hc.restrict(&h.Hmm); err != nil {
				t.Fatalf("%s: %v", c.Desc(), err)
			}
			gh = &h.Hmm
			xm := gen.ToDense(gen.TFloat64, x)
			for cl := range e {
				e[cl] = make([]float64, n)
				for k := 0; k < n; k++ {
					r := NullScalar(hc.st.T)
					if err := edist[cl].LogPdf(r, NewDenseFloat64Vector(x[k])); err != nil {
						t.Fatalf("%s: emission LogPdf: %v", c.Desc(), err)
					}
					e[cl][k] = r.GetFloat64()
				}
			}
			fe = frontEnd{
				logPdf: func() (float64, error) {
					r := NullScalar(hc.st.T)
					err := h.LogPdf(r, xm)
					return r.GetFloat64(), err
				},
				marginals: func() ([]Vector, error) { return h.PosteriorMarginals(xm) },
				posterior: func(sets [][]int) (float64, error) {
					r := NullScalar(hc.st.T)
					err := h.Posterior(r, xm, sets)
					return r.GetFloat64(), err
				},
				viterbi: func() ([]int, error) { return h.Viterbi(xm) },
			}
		}
		checkInference(t, c, fe, readModel(gh), e, n)
		c.End()
	})
}

// ---------------------------------------------------------------------------------------------
// (e) mixtures: density, likelihood and posterior of component subsets against the direct sums

type mixRecord struct{ e []float64 }

func (r mixRecord) LogPdf(x Scalar, c int) error { x.SetFloat64(r.e[c]); return nil }

func TestC15_mixture_enum(t *testing.T) {
	rapid.Check(t, func(t *rapid.T) {
		st := gen.DrawType(t, "elem", []gen.SType{gen.TFloat64, gen.TReal64})
		k := rapid.IntRange(1, 4).Draw(t, "components")
		w := make([]float64, k)
		s := 0.0
		for i := range w {
			w[i] = drawProb(t, fmt.Sprintf("w[%d]", i))
			s += w[i]
		}
		if s == 0 {
			w[rapid.IntRange(0, k-1).Draw(t, "wFix")] = 1
			s = 1
		}
		front := rapid.SampledFrom([]string{"generic", "scalarDistribution", "vectorDistribution"}).Draw(t, "front")
		x := float64(rapid.IntRange(0, 3).Draw(t, "x"))
		c := obs.Begin("mixture_enum", "%s %s weights=%v x=%v", front, st, w, x)
		c.Classf("front=%s", front)
		c.Classf("components=%d", k)
		zeroW := false
		for _, v := range w {
			if v == 0 {
				zeroW = true
			}
		}
		if zeroW {
			c.Class("zero weight")
		}
		c.NT(k >= 2)
		e := make([]float64, k)
		var logPdf func() (float64, error)
		var likelihood, posterior func(states []int) (float64, error)
		wv := gen.ToDenseVec(st, w)
		wrap := func(f func(r Scalar) error) (float64, error) {
			r := NullScalar(st.T)
			err := f(r)
			return r.GetFloat64(), err
		}
		var logW func(i int) float64
		switch front {
		case "generic":
			for i := range e {
				e[i] = drawLogEmission(t, fmt.Sprintf("e[%d]", i))
			}
			mx, err := generic.NewMixture(wv)
			if err != nil {
				t.Fatalf("%s: constructor: %v", c.Desc(), err)
			}
			rec := mixRecord{e}
			logPdf = func() (float64, error) { return wrap(func(r Scalar) error { return mx.LogPdf(r, rec) }) }
			likelihood = func(s []int) (float64, error) { return wrap(func(r Scalar) error { return mx.Likelihood(r, rec, s) }) }
			posterior = func(s []int) (float64, error) { return wrap(func(r Scalar) error { return mx.Posterior(r, rec, s) }) }
			logW = func(i int) float64 { return mx.LogWeights.At(i).GetFloat64() }
		case "scalarDistribution":
			edist := make([]statistics.ScalarPdf, k)
			for i := range edist {
				edist[i] = drawScalarPdf(t, fmt.Sprintf("edist%d", i), st)
				c.SetDesc(c.Desc() + fmt.Sprintf(" edist%d=%v", i, edist[i].GetParameters()))
				r := NullScalar(st.T)
				edist[i].LogPdf(r, ConstFloat64(x))
				e[i] = r.GetFloat64()
			}
			mx, err := scalarDistribution.NewMixture(wv, edist)
			if err != nil {
				t.Fatalf("%s: constructor: %v", c.Desc(), err)
			}
			xs := ConstFloat64(x)
			logPdf = func() (float64, error) { return wrap(func(r Scalar) error { return mx.LogPdf(r, xs) }) }
			likelihood = func(s []int) (float64, error) { return wrap(func(r Scalar) error { return mx.Likelihood(r, xs, s) }) }
			posterior = func(s []int) (float64, error) { return wrap(func(r Scalar) error { return mx.Posterior(r, xs, s) }) }
			logW = func(i int) float64 { return mx.LogWeights.At(i).GetFloat64() }
		default:
			dim := rapid.IntRange(1, 2).Draw(t, "dim")
			xv := make([]float64, dim)
			for d := range xv {
				xv[d] = float64(rapid.IntRange(0, 3).Draw(t, fmt.Sprintf("xv[%d]", d)))
			}
			edist := make([]statistics.VectorPdf, k)
			for i := range edist {
				parts := make([]statistics.ScalarPdf, dim)
				for d := range parts {
					parts[d] = drawScalarPdf(t, fmt.Sprintf("edist%d.%d", i, d), st)
				}
				v, err := vectorDistribution.NewScalarId(parts...)
				if err != nil {
					t.Fatalf("NewScalarId: %v", err)
				}
				edist[i] = v
				r := NullScalar(st.T)
				v.LogPdf(r, NewDenseFloat64Vector(xv))
				e[i] = r.GetFloat64()
			}
			mx, err := vectorDistribution.NewMixture(wv, edist)
			if err != nil {
				t.Fatalf("%s: constructor: %v", c.Desc(), err)
			}
			xx := NewDenseFloat64Vector(xv)
			logPdf = func() (float64, error) { return wrap(func(r Scalar) error { return mx.LogPdf(r, xx) }) }
			likelihood = func(s []int) (float64, error) { return wrap(func(r Scalar) error { return mx.Likelihood(r, xx, s) }) }
			posterior = func(s []int) (float64, error) { return wrap(func(r Scalar) error { return mx.Posterior(r, xx, s) }) }
			logW = func(i int) float64 { return mx.LogWeights.At(i).GetFloat64() }
		}
		// published weights are the normalised inputs
		for i := range w {
			if !sameLog(logW(i), math.Log(w[i]/s)) {
				t.Fatalf("%s: published log weight %d is %v, expected %v", c.Desc(), i, logW(i), math.Log(w[i]/s))
			}
		}
		var all []float64
		for i := range w {
			all = append(all, math.Log(w[i]/s)+e[i])
		}
		total := model.LogSumExp(all)
		var got float64
		var err error
		if p := call(func() { got, err = logPdf() }); p != "" || err != nil {
			t.Fatalf("%s: LogPdf %s %v", c.Desc(), p, err)
		}
		if !sameLog(got, total) {
			t.Fatalf("%s: LogPdf = %v, direct sum over components gives %v (component log densities %v)", c.Desc(), got, total, e)
		}
		states := drawSubset(t, "states", k)
		var num, den []float64
		for _, j := range states {
			num = append(num, math.Log(w[j]/s)+e[j])
			den = append(den, math.Log(w[j]/s))
		}
		if z := model.LogSumExp(den); !math.IsInf(z, -1) {
			if p := call(func() { got, err = likelihood(states) }); p != "" || err != nil {
				t.Fatalf("%s: Likelihood(%v) %s %v", c.Desc(), states, p, err)
			}
			if want := model.LogSumExp(num) - z; !sameLog(got, want) {
				t.Fatalf("%s: Likelihood(%v) = %v, direct sum gives %v (component log densities %v)", c.Desc(), states, got, want, e)
			}
		} else {
			c.Class("subset without weight (likelihood undefined)")
		}
		if !math.IsInf(total, -1) {
			if p := call(func() { got, err = posterior(states) }); p != "" || err != nil {
				t.Fatalf("%s: Posterior(%v) %s %v", c.Desc(), states, p, err)
			}
			if want := model.LogSumExp(num) - total; !sameLog(got, want) {
				t.Fatalf("%s: Posterior(%v) = %v, direct sum gives %v (component log densities %v)", c.Desc(), states, got, want, e)
			}
			if len(states) < k {
				c.Class("proper subset")
			}
		} else {
			c.Class("data has zero density")
		}
		c.End()
	})
}

// ---------------------------------------------------------------------------------------------
// witnesses

func TestKF_final_state_restriction(t *testing.T) {
	hc := hmmCase{st: gen.TFloat64, m: 2, pi: []float64{1, 0}, tr: model.Mat{{1, 1}, {0, 0}}, final: []int{0}, start: []int{0}, ne: 2}
	h, err := hc.buildGeneric()
	if err != nil {
		obs.KFStatus("C15/final-state-restriction-lost-for-rows-without-final-mass", false, fmt.Sprint(err))
		return
	}
	// path 0 -> 1 -> 1 ends in state 1, which is not a final state
	rec := tableRecord{[][]float64{{0, 0, 0}, {0, 0, 0}}, []int{0, 1, 2}}
	r := NullFloat64()
	h.Posterior(r, rec, [][]int{{0, 1}, {0, 1}, {1}})
	obs.KFStatus("C15/final-state-restriction-lost-for-rows-without-final-mass", !math.IsInf(r.GetFloat64(), -1), fmt.Sprintf("log posterior of ending in the non-final state 1: %v; Tf[1][1]=%v", r.GetFloat64(), h.Tf.At(1, 1).GetFloat64()))
}

func TestKF_baumwelch_without_transitions(t *testing.T) {
	hc := hmmCase{st: gen.TFloat64, m: 2, pi: []float64{1, 1}, tr: model.Mat{{1, 1}, {1, 1}}, ne: 2}
	h, _ := hc.buildGeneric()
	ds := &tableSet{recs: []tableRecord{{[][]float64{{-1, -2}, {-2, -1}}, []int{0, 1, 0}}}, nmapped: 2}
	core := &bwCore{hmm1: h.Clone(), hmm2: h.Clone(), data: ds}
	p := call(func() {
		generic.BaumWelchAlgorithm(core, nil, 1, 3, 2, 2, 2, 0.0, 1, threadpool.Nil(), generic.BaumWelchOptimizeTransitions{Value: false})
	})
	obs.KFStatus("C15/baumwelch-step-without-transition-optimisation-crashes", p != "", p)
}

func TestKF_final_states_structured_matrix(t *testing.T) {
	hc := hmmCase{st: gen.TFloat64, m: 3, pi: []float64{1, 0, 0}, tr: model.Mat{{1, 1, 0.125}, {1, 0.125, 0.125}, {0.125, 0.125, 0.125}}, final: []int{2}, ne: 3, trKind: "hierarchical", split: 1}
	h, err := hc.buildGeneric()
	if err != nil {
		obs.KFStatus("C15/final-states-with-hierarchical-transition-matrix-give-nan", false, fmt.Sprint(err))
		return
	}
	nan := false
	for i := 0; i < 3; i++ {
		for j := 0; j < 3; j++ {
			if math.IsNaN(h.Tf.At(i, j).GetFloat64()) {
				nan = true
			}
		}
	}
	obs.KFStatus("C15/final-states-with-hierarchical-transition-matrix-give-nan", nan, fmt.Sprintf("Tf=%v", h.Tf))
}
