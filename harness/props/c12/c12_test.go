// C12 — copies are independent and read-only inputs are left unchanged.
package c12

import (
	"fmt"
	"os"
	"testing"
	"time"

	. "github.com/pbenner/autodiff"
	"github.com/pbenner/autodiff/algorithm/adam"
	"github.com/pbenner/autodiff/algorithm/backSubstitution"
	"github.com/pbenner/autodiff/algorithm/bfgs"
	"github.com/pbenner/autodiff/algorithm/cholesky"
	"github.com/pbenner/autodiff/algorithm/determinant"
	"github.com/pbenner/autodiff/algorithm/eigensystem"
	"github.com/pbenner/autodiff/algorithm/gaussJordan"
	"github.com/pbenner/autodiff/algorithm/gradientDescent"
	"github.com/pbenner/autodiff/algorithm/gramSchmidt"
	"github.com/pbenner/autodiff/algorithm/hessenbergReduction"
	"github.com/pbenner/autodiff/algorithm/householderBidiagonalization"
	"github.com/pbenner/autodiff/algorithm/householderTridiagonalization"
	"github.com/pbenner/autodiff/algorithm/matrixInverse"
	"github.com/pbenner/autodiff/algorithm/msqrt"
	"github.com/pbenner/autodiff/algorithm/msqrtInv"
	"github.com/pbenner/autodiff/algorithm/newton"
	"github.com/pbenner/autodiff/algorithm/qrAlgorithm"
	"github.com/pbenner/autodiff/algorithm/rprop"
	"github.com/pbenner/autodiff/algorithm/svd"
	"github.com/pbenner/autodiff/statistics/scalarDistribution"
	"pgregory.net/rapid"
	"verifharness/gen"
	"verifharness/model"
	"verifharness/obs"
)

func TestMain(m *testing.M) {
	code := m.Run()
	obs.Flush()
	os.Exit(code)
}

func guarded(f func()) (perr string, timedOut bool) {
	done := make(chan string, 1)
	go func() {
		defer func() {
			if r := recover(); r != nil {
				s := fmt.Sprint(r)
				if len(s) > 160 {
					s = s[:160]
				}
				done <- "panic: " + s
			}
		}()
		f()
		done <- ""
	}()
	select {
	case p := <-done:
		return p, false
	case <-time.After(5 * time.Second):
		return "", true
	}
}

func canon(x interface{}) string {
	switch y := x.(type) {
	case ConstMatrix:
		s, bad := model.ObsMatrix(y)
		return s.Canon() + bad
	case ConstVector:
		s, bad := model.ObsVector(y)
		return s.Canon() + bad
	case ConstScalar:
		return model.ObsScalar(y).Canon()
	}
	return fmt.Sprint(x)
}

func drawType(t *rapid.T) gen.SType {
	return gen.DrawType(t, "elem", []gen.SType{gen.TFloat64, gen.TReal64, gen.TReal64, gen.TFloat32, gen.TReal32, gen.TInt})
}

// mutate applies a generated mutation to a vector / matrix / scalar; returns a description.
func mutateVector(t *rapid.T, v Vector, st gen.SType, label string) string {
	if v.Dim() == 0 {
		return "nothing (empty)"
	}
	i := rapid.IntRange(0, v.Dim()-1).Draw(t, label+".i")
	switch rapid.IntRange(0, 4).Draw(t, label+".kind") {
	case 0:
		v.At(i).SetFloat64(41)
		return fmt.Sprintf("At(%d).SetFloat64(41)", i)
	case 1:
		v.Reset()
		return "Reset()"
	case 2:
		v.VaddS(v, st.NewMut(1))
		return "VaddS(self,1)"
	case 3:
		if m, ok := v.At(i).(MagicScalar); ok {
			m.Alloc(2, 2)
			m.SetDerivative(1, 13)
			m.SetHessian(0, 1, 17)
			return fmt.Sprintf("At(%d): Alloc(2,2), SetDerivative(1,13), SetHessian(0,1,17)", i)
		}
		v.At(i).SetFloat64(43)
		return fmt.Sprintf("At(%d).SetFloat64(43)", i)
	default:
		v.At(i).Add(v.At(i), ConstFloat64(3))
		return fmt.Sprintf("At(%d) += 3", i)
	}
}

func mutateMatrix(t *rapid.T, m Matrix, st gen.SType, label string, owner bool) string {
	r, c := m.Dims()
	if r == 0 || c == 0 {
		return "nothing (empty)"
	}
	i, j := rapid.IntRange(0, r-1).Draw(t, label+".i"), rapid.IntRange(0, c-1).Draw(t, label+".j")
	switch rapid.IntRange(0, 4).Draw(t, label+".kind") {
	case 0:
		m.At(i, j).SetFloat64(41)
		return fmt.Sprintf("At(%d,%d).SetFloat64(41)", i, j)
	case 1:
		m.Reset()
		return "Reset()"
	case 2:
		m.MaddS(m, st.NewMut(1))
		return "MaddS(self,1)"
	case 3:
		if ms, ok := m.At(i, j).(MagicScalar); ok {
			ms.Alloc(2, 2)
			ms.SetDerivative(1, 13)
			ms.SetHessian(0, 1, 17)
			return fmt.Sprintf("At(%d,%d): Alloc(2,2), SetDerivative(1,13), SetHessian(0,1,17)", i, j)
		}
		m.At(i, j).SetFloat64(43)
		return fmt.Sprintf("At(%d,%d).SetFloat64(43)", i, j)
	default:
		// Tip() is defined for matrices that own their whole storage only
		if r == c && owner {
			m.Tip()
			return "Tip()"
		}
		m.At(i, j).Add(m.At(i, j), ConstFloat64(3))
		return fmt.Sprintf("At(%d,%d) += 3", i, j)
	}
}

// ---------------------------------------------------------------------------------------------
// (a) clones are equal, then independent

var cloneEntries = []string{
	"scalar.CloneScalar", "scalar.CloneConstScalar", "scalar.CloneMagicScalar",
	"vector.CloneVector", "vector.CloneConstVector", "vector.AsDenseVector", "vector.AsSparseVector", "vector.CloneMagicVector",
	"matrix.CloneMatrix", "matrix.CloneConstMatrix", "matrix.AsDenseMatrix", "matrix.AsSparseMatrix", "matrix.Row", "matrix.Col", "matrix.Diag", "matrix.CloneMagicMatrix",
	"view.CloneMatrix", "iterator.Clone",
}

func TestC12_clone_equal_then_independent(t *testing.T) {
	rapid.Check(t, func(t *rapid.T) {
		entry := cloneEntries[rapid.IntRange(0, len(cloneEntries)-1).Draw(t, "entry")]
		st := drawType(t)
		dm := gen.DrawDerivMode(t, "dm", st)
		sparse := rapid.Bool().Draw(t, "sparse")
		mutateSource := rapid.Bool().Draw(t, "mutateSource")
		var c *obs.Case
		fail := func(format string, args ...interface{}) {
			t.Fatalf("%s: %s", c.Desc(), fmt.Sprintf(format, args...))
		}
		// returns (source, clone, mutate(x) string)
		switch entry[:6] {
		case "scalar":
			e := gen.DrawVec(t, "s", st, false, 1, dm, false).E[0]
			c = obs.Begin("clone_equal_then_independent", "%s %s %s mutateSource=%v", entry, st, e, mutateSource)
			src := e.Scalar(st)
			var cl ConstScalar
			switch entry {
			case "scalar.CloneScalar":
				cl = src.CloneScalar()
			case "scalar.CloneConstScalar":
				cl = src.CloneConstScalar()
			default:
				if m, ok := src.(MagicScalar); ok {
					cl = m.CloneMagicScalar()
				} else {
					cl = src.CloneScalar()
				}
			}
			c.Classf("entry=%s", entry)
			before := canon(src)
			if canon(cl) != before {
				fail("clone %s differs from its source %s", canon(cl), before)
			}
			mut, other := Scalar(src), cl
			if !mutateSource {
				m, ok := cl.(Scalar)
				if !ok {
					c.End()
					return
				}
				mut, other = m, src
			}
			if mm, ok := mut.(MagicScalar); ok && rapid.Bool().Draw(t, "derivMutation") {
				mm.Alloc(2, 2)
				mm.SetDerivative(0, 5)
				mm.SetHessian(1, 1, 7)
			}
			mut.Add(mut, ConstFloat64(2))
			c.NT(true)
			if canon(other) != before {
				fail("after mutating one side the other changed from %s to %s", before, canon(other))
			}
			c.End()
		case "vector":
			n := rapid.IntRange(0, 6).Draw(t, "n")
			vc := gen.DrawVec(t, "v", st, sparse, n, dm, false)
			c = obs.Begin("clone_equal_then_independent", "%s %s mutateSource=%v", entry, vc, mutateSource)
			c.Classf("entry=%s", entry)
			src := vc.Build()
			var cl ConstVector
			switch entry {
			case "vector.CloneVector":
				cl = src.CloneVector()
			case "vector.CloneConstVector":
				cl = src.CloneConstVector()
			case "vector.AsDenseVector":
				cl = AsDenseVector(st.T, src)
			case "vector.AsSparseVector":
				cl = AsSparseVector(st.T, src)
			default:
				if m, ok := src.(MagicVector); ok {
					cl = m.CloneMagicVector()
				} else {
					cl = src.CloneVector()
				}
			}
			before := canon(src)
			if canon(cl) != before {
				fail("clone %s differs from its source %s", canon(cl), before)
			}
			mut, other := src, cl
			if !mutateSource {
				m, ok := cl.(Vector)
				if !ok {
					c.End()
					return
				}
				mut, other = m, src
			}
			what := mutateVector(t, mut, st, "mut")
			c.NT(canon(mut) != before)
			if canon(other) != before {
				fail("after %s on one side the other changed from %s to %s", what, before, canon(other))
			}
			c.End()
		case "matrix", "view.C":
			rows, cols := rapid.IntRange(1, 4).Draw(t, "rows"), rapid.IntRange(1, 4).Draw(t, "cols")
			if entry == "matrix.Diag" {
				cols = rows
			}
			mc := gen.DrawMat(t, "m", st, sparse, rows, cols, dm, false)
			view := ""
			src := mc.Build()
			base := src
			if entry == "view.CloneMatrix" {
				r0 := rapid.IntRange(0, rows-1).Draw(t, "r0")
				c0 := rapid.IntRange(0, cols-1).Draw(t, "c0")
				src = src.Slice(r0, rows, c0, cols)
				view = fmt.Sprintf(" view=Slice(%d,%d,%d,%d)", r0, rows, c0, cols)
				if rapid.Bool().Draw(t, "T") {
					src = src.T()
					view += ".T"
				}
			}
			c = obs.Begin("clone_equal_then_independent", "%s %s%s mutateSource=%v", entry, mc, view, mutateSource)
			c.Classf("entry=%s", entry)
			i, j := 0, 0
			sr, sc := src.Dims()
			if sr > 0 {
				i = rapid.IntRange(0, sr-1).Draw(t, "i")
			}
			if sc > 0 {
				j = rapid.IntRange(0, sc-1).Draw(t, "j")
			}
			var cl interface{}
			var expect string
			switch entry {
			case "matrix.CloneMatrix", "view.CloneMatrix":
				cl, expect = src.CloneMatrix(), canon(src)
			case "matrix.CloneConstMatrix":
				cl, expect = src.CloneConstMatrix(), canon(src)
			case "matrix.AsDenseMatrix":
				cl, expect = AsDenseMatrix(st.T, src), canon(src)
			case "matrix.AsSparseMatrix":
				cl, expect = AsSparseMatrix(st.T, src), canon(src)
			case "matrix.CloneMagicMatrix":
				if m, ok := src.(MagicMatrix); ok {
					cl = m.CloneMagicMatrix()
				} else {
					cl = src.CloneMatrix()
				}
				expect = canon(src)
			case "matrix.Row":
				cl = src.Row(i)
				expect = canon(rowOf(src, i))
			case "matrix.Col":
				cl = src.Col(j)
				expect = canon(colOf(src, j))
			default:
				cl = src.Diag()
				expect = canon(diagOf(src))
			}
			if canon(cl) != expect {
				fail("copy %s differs from the source elements %s", canon(cl), expect)
			}
			beforeSrc, beforeBase, beforeCl := canon(src), canon(base), canon(cl)
			var what string
			if mutateSource {
				what = mutateMatrix(t, src, st, "mut", entry != "view.CloneMatrix")
				c.NT(canon(src) != beforeSrc)
				if canon(cl) != beforeCl {
					fail("after %s on the source the copy changed from %s to %s", what, beforeCl, canon(cl))
				}
			} else {
				switch m := cl.(type) {
				case Matrix:
					what = mutateMatrix(t, m, st, "mut", entry != "view.CloneMatrix")
				case Vector:
					what = mutateVector(t, m, st, "mut")
				default:
					c.End()
					return
				}
				c.NT(canon(cl) != beforeCl)
				if canon(src) != beforeSrc || canon(base) != beforeBase {
					fail("after %s on the copy the source changed from %s to %s", what, beforeSrc, canon(src))
				}
			}
			c.End()
		default: // iterator clone
			n := rapid.IntRange(1, 6).Draw(t, "n")
			vc := gen.DrawVec(t, "v", st, sparse, n, dm, false)
			k := rapid.IntRange(0, n).Draw(t, "advance")
			c = obs.Begin("clone_equal_then_independent", "iterator.Clone %s advance=%d", vc, k)
			c.Classf("entry=%s", entry)
			v := vc.Build()
			it := v.ConstIterator()
			for s := 0; s < k && it.Ok(); s++ {
				it.Next()
			}
			cl := it.CloneConstIterator()
			if it.Ok() != cl.Ok() || (it.Ok() && it.Index() != cl.Index()) {
				fail("iterator clone stands elsewhere")
			}
			if it.Ok() {
				pos := it.Index()
				cl.Next()
				c.NT(true)
				if !it.Ok() || it.Index() != pos {
					fail("advancing the clone moved the original iterator (index %d -> %v)", pos, it.Ok())
				}
			}
			c.End()
		}
	})
}

func rowOf(m Matrix, i int) Vector {
	_, c := m.Dims()
	v := NullDenseVector(m.ElementType(), c)
	for j := 0; j < c; j++ {
		v.At(j).Set(m.ConstAt(i, j))
	}
	return v
}

func colOf(m Matrix, j int) Vector {
	r, _ := m.Dims()
	v := NullDenseVector(m.ElementType(), r)
	for i := 0; i < r; i++ {
		v.At(i).Set(m.ConstAt(i, j))
	}
	return v
}

func diagOf(m Matrix) Vector {
	r, _ := m.Dims()
	v := NullDenseVector(m.ElementType(), r)
	for i := 0; i < r; i++ {
		v.At(i).Set(m.ConstAt(i, i))
	}
	return v
}

// ---------------------------------------------------------------------------------------------
// (b) operations with distinct receiver leave their operands unchanged

func TestC12_operands_unchanged(t *testing.T) {
	ops := []string{"VaddV", "VsubV", "VmulV", "VdivV", "VaddS", "VmulS", "VdotV", "MdotV", "VdotM", "MaddM", "MmulM", "MdivM", "MsubS", "MdotM", "Outer", "Set", "Equals", "Mnorm", "Vnorm", "Mtrace", "String", "Iterate", "JointIterate", "AsMatrix"}
	rapid.Check(t, func(t *rapid.T) {
		op := ops[rapid.IntRange(0, len(ops)-1).Draw(t, "op")]
		st := drawType(t)
		dm := gen.DrawDerivMode(t, "dm", st)
		n := rapid.IntRange(1, 4).Draw(t, "n")
		as, bs, rs := rapid.Bool().Draw(t, "aSparse"), rapid.Bool().Draw(t, "bSparse"), rapid.Bool().Draw(t, "rSparse")
		av, bv := gen.DrawVec(t, "av", st, as, n, dm, false), gen.DrawVec(t, "bv", st, bs, n, dm, true)
		am, bm := gen.DrawMat(t, "am", st, as, n, n, dm, false), gen.DrawMat(t, "bm", st, bs, n, n, dm, true)
		if st.IsInt() {
			for i := range bv.E {
				bv.E[i].V = 1
			}
			for i := range bm.E {
				bm.E[i].V = 1
			}
		}
		c := obs.Begin("operands_unchanged", "%s av=%s bv=%s am=%s bm=%s rSparse=%v", op, av, bv, am, bm, rs)
		c.Classf("op=%s", op)
		c.Classf("operand storage=%v/%v", as, bs)
		A, B, MA, MB := av.Build(), bv.Build(), am.Build(), bm.Build()
		snap := []string{canon(A), canon(B), canon(MA), canon(MB)}
		var rv Vector
		var rm Matrix
		if rs {
			rv, rm = NullSparseVector(st.T, n), NullSparseMatrix(st.T, n, n)
		} else {
			rv, rm = NullDenseVector(st.T, n), NullDenseMatrix(st.T, n, n)
		}
		s := st.NewMut(2)
		p, _ := guarded(func() {
			switch op {
			case "VaddV":
				rv.VaddV(A, B)
			case "VsubV":
				rv.VsubV(A, B)
			case "VmulV":
				rv.VmulV(A, B)
			case "VdivV":
				rv.VdivV(A, B)
			case "VaddS":
				rv.VaddS(A, s)
			case "VmulS":
				rv.VmulS(A, s)
			case "VdotV":
				s.VdotV(A, B)
			case "MdotV":
				rv.MdotV(MA, B)
			case "VdotM":
				rv.VdotM(A, MB)
			case "MaddM":
				rm.MaddM(MA, MB)
			case "MmulM":
				rm.MmulM(MA, MB)
			case "MdivM":
				rm.MdivM(MA, MB)
			case "MsubS":
				rm.MsubS(MA, s)
			case "MdotM":
				rm.MdotM(MA, MB)
			case "Outer":
				rm.Outer(A, B)
			case "Set":
				rv.Set(A)
				rm.Set(MA)
			case "Equals":
				A.Equals(B, 1e-9)
				MA.Equals(MB, 1e-9)
			case "Mnorm":
				s.Mnorm(MA)
			case "Vnorm":
				s.Vnorm(A)
			case "Mtrace":
				s.Mtrace(MA)
			case "String":
				_ = A.String() + MA.String() + A.Table() + MA.Table()
			case "Iterate":
				for it := A.ConstIterator(); it.Ok(); it.Next() {
				}
				for it := MA.ConstIterator(); it.Ok(); it.Next() {
				}
			case "JointIterate":
				for it := A.ConstJointIterator(B); it.Ok(); it.Next() {
				}
			case "AsMatrix":
				_ = A.AsConstMatrix(1, n)
				_ = MA.AsConstVector()
			}
		})
		c.NT(true)
		if p != "" {
			c.Class("panicked")
		}
		names := []string{"vector a", "vector b", "matrix a", "matrix b"}
		for i, x := range []interface{}{A, B, MA, MB} {
			if canon(x) != snap[i] {
				t.Fatalf("%s: operand %s changed from %s to %s", c.Desc(), names[i], snap[i], canon(x))
			}
		}
		c.End()
	})
}

// ---------------------------------------------------------------------------------------------
// (c) algorithm entry points leave their inputs unchanged (no in-situ options)

var algos = []string{"matrixInverse", "matrixInverse(PD)", "gaussJordan(b only)", "backSubstitution", "determinant", "determinant(PD)", "cholesky", "cholesky(LDL)", "cholesky(LDL,ForcePD)",
	"gramSchmidt", "hessenbergReduction", "householderBidiagonalization", "householderTridiagonalization", "qrAlgorithm", "qrAlgorithm(Symmetric)", "eigensystem", "eigensystem(Symmetric)", "svd", "msqrt", "msqrtInv"}

func TestC12_algorithm_inputs_unchanged(t *testing.T) {
	rapid.Check(t, func(t *rapid.T) {
		algo := algos[rapid.IntRange(0, len(algos)-1).Draw(t, "algo")]
		st := gen.DrawType(t, "elem", []gen.SType{gen.TFloat64, gen.TReal64})
		n := rapid.IntRange(1, 5).Draw(t, "n")
		fam := "general"
		switch algo {
		case "matrixInverse(PD)", "determinant(PD)", "cholesky", "cholesky(LDL)", "cholesky(LDL,ForcePD)", "msqrt", "msqrtInv", "qrAlgorithm(Symmetric)", "eigensystem(Symmetric)", "householderTridiagonalization":
			fam = "spd"
		case "backSubstitution":
			fam = "upper-triangular"
		}
		ls := gen.DrawLinSys(t, "A", n, fam)
		c := obs.Begin("algorithm_inputs_unchanged", "%s %s n=%d A=%v", algo, st, n, ls.A)
		c.Classf("algo=%s", algo)
		c.NT(n >= 2)
		am := gen.ToDense(st, ls.A)
		if st.IsReal() && rapid.Bool().Draw(t, "activate") {
			Variables(2, am.(MagicMatrix).MagicAt(0, 0))
			c.Class("input carries derivatives")
		}
		bvec := gen.ToDenseVec(st, make([]float64, n))
		for i := 0; i < n; i++ {
			bvec.At(i).SetFloat64(float64(i) + 0.5)
		}
		before, beforeB := canon(am), canon(bvec)
		eps := qrAlgorithm.Epsilon{Value: 1.11e-16}
		p, to := guarded(func() {
			switch algo {
			case "matrixInverse":
				matrixInverse.Run(am)
			case "matrixInverse(PD)":
				matrixInverse.Run(am, matrixInverse.PositiveDefinite{Value: true})
			case "gaussJordan(b only)":
				// a and x are documented work space; only a copy is passed for a
				x := gen.ToDense(st, model.Identity(n))
				gaussJordan.Run(am.CloneMatrix(), x, bvec.CloneVector())
			case "backSubstitution":
				backSubstitution.Run(am, bvec)
			case "determinant":
				determinant.Run(am)
			case "determinant(PD)":
				determinant.Run(am, determinant.PositiveDefinite{Value: true})
			case "cholesky":
				cholesky.Run(am)
			case "cholesky(LDL)":
				cholesky.Run(am, cholesky.LDL{Value: true})
			case "cholesky(LDL,ForcePD)":
				cholesky.Run(am, cholesky.LDL{Value: true}, cholesky.ForcePD{Value: true})
			case "gramSchmidt":
				gramSchmidt.Run(am)
			case "hessenbergReduction":
				hessenbergReduction.Run(am, hessenbergReduction.ComputeU{Value: true})
			case "householderBidiagonalization":
				householderBidiagonalization.Run(am, householderBidiagonalization.ComputeU{Value: true}, householderBidiagonalization.ComputeV{Value: true})
			case "householderTridiagonalization":
				householderTridiagonalization.Run(am, householderTridiagonalization.ComputeU{Value: true})
			case "qrAlgorithm":
				qrAlgorithm.Run(am, qrAlgorithm.ComputeU{Value: true}, eps)
			case "qrAlgorithm(Symmetric)":
				qrAlgorithm.Run(am, qrAlgorithm.ComputeU{Value: true}, qrAlgorithm.Symmetric{Value: true}, eps)
			case "eigensystem":
				eigensystem.Run(am, eps)
			case "eigensystem(Symmetric)":
				eigensystem.Run(am, eigensystem.Symmetric{Value: true}, eps)
			case "svd":
				svd.Run(am, svd.ComputeU{Value: true}, svd.ComputeV{Value: true})
			case "msqrt":
				msqrt.Run(am)
			case "msqrtInv":
				msqrtInv.Run(am)
			}
		})
		if to {
			c.Class("inconclusive: watchdog")
			c.End()
			return
		}
		if p != "" {
			c.Class("panicked")
		}
		if canon(am) != before {
			t.Fatalf("%s: the input matrix changed from %s to %s", c.Desc(), before, canon(am))
		}
		if canon(bvec) != beforeB {
			t.Fatalf("%s: the input vector changed from %s to %s", c.Desc(), beforeB, canon(bvec))
		}
		c.End()
	})
}

// ---------------------------------------------------------------------------------------------
// (c') a work-space object (InSitu) that the caller keeps between calls must not turn an earlier
// read-only input into work space: after every call all inputs handed in so far are unchanged

var insituAlgos = []string{"qrAlgorithm", "eigensystem", "hessenbergReduction", "householderBidiagonalization", "householderTridiagonalization",
	"cholesky", "determinant", "matrixInverse", "svd", "backSubstitution"}

func TestC12_insitu_reuse_inputs_unchanged(t *testing.T) {
	rapid.Check(t, func(t *rapid.T) {
		algo := insituAlgos[rapid.IntRange(0, len(insituAlgos)-1).Draw(t, "algo")]
		st := gen.DrawType(t, "elem", []gen.SType{gen.TFloat64, gen.TReal64})
		n := rapid.IntRange(1, 4).Draw(t, "n")
		calls := rapid.IntRange(2, 4).Draw(t, "calls")
		c := obs.Begin("insitu_reuse_inputs_unchanged", "%s %s n=%d calls=%d", algo, st, n, calls)
		c.Classf("algo=%s", algo)
		c.NT(n >= 2)
		eps := qrAlgorithm.Epsilon{Value: 1.11e-16}
		var ins interface{}
		switch algo {
		case "qrAlgorithm":
			ins = &qrAlgorithm.InSitu{InitializeH: rapid.Bool().Draw(t, "InitializeH")}
		case "eigensystem":
			ins = &eigensystem.InSitu{QrAlgorithm: qrAlgorithm.InSitu{InitializeH: rapid.Bool().Draw(t, "InitializeH")}}
		case "hessenbergReduction":
			ins = &hessenbergReduction.InSitu{}
		case "householderBidiagonalization":
			ins = &householderBidiagonalization.InSitu{}
		case "householderTridiagonalization":
			ins = &householderTridiagonalization.InSitu{}
		case "cholesky":
			ins = &cholesky.InSitu{}
		case "determinant":
			ins = &determinant.InSitu{}
		case "matrixInverse":
			ins = &matrixInverse.InSitu{}
		case "svd":
			ins = &svd.InSitu{}
		case "backSubstitution":
			ins = &backSubstitution.InSitu{}
		}
		type kept struct {
			m      Matrix
			before string
			desc   string
		}
		var inputs []kept
		bvec := gen.ToDenseVec(st, make([]float64, n))
		for i := 0; i < n; i++ {
			bvec.At(i).SetFloat64(float64(i) + 0.5)
		}
		beforeB := canon(bvec)
		for k := 0; k < calls; k++ {
			opt := rapid.Bool().Draw(t, fmt.Sprintf("opt%d", k))
			fam := "general"
			switch {
			case algo == "cholesky" || algo == "householderTridiagonalization":
				fam = "spd"
			case algo == "backSubstitution":
				fam = "upper-triangular"
			case opt && (algo == "qrAlgorithm" || algo == "eigensystem" || algo == "determinant" || algo == "matrixInverse"):
				fam = "spd"
			}
			ls := gen.DrawLinSys(t, fmt.Sprintf("A%d", k), n, fam)
			am := gen.ToDense(st, ls.A)
			if st.IsReal() && rapid.Bool().Draw(t, fmt.Sprintf("activate%d", k)) {
				Variables(2, am.(MagicMatrix).MagicAt(0, 0))
				c.Class("input carries derivatives")
			}
			inputs = append(inputs, kept{am, canon(am), fmt.Sprintf("call %d (option=%v) A=%v", k, opt, ls.A)})
			if k > 0 {
				c.Classf("option sequence %v", opt)
			}
			p, to := guarded(func() {
				switch algo {
				case "qrAlgorithm":
					qrAlgorithm.Run(am, qrAlgorithm.ComputeU{Value: rapid.Bool().Draw(t, "computeU")}, qrAlgorithm.Symmetric{Value: opt}, eps, ins)
				case "eigensystem":
					eigensystem.Run(am, eigensystem.Symmetric{Value: opt}, eps, ins)
				case "hessenbergReduction":
					hessenbergReduction.Run(am, hessenbergReduction.ComputeU{Value: opt}, ins)
				case "householderBidiagonalization":
					householderBidiagonalization.Run(am, householderBidiagonalization.ComputeU{Value: opt}, householderBidiagonalization.ComputeV{Value: opt}, ins)
				case "householderTridiagonalization":
					householderTridiagonalization.Run(am, householderTridiagonalization.ComputeU{Value: opt}, ins)
				case "cholesky":
					cholesky.Run(am, cholesky.LDL{Value: opt}, ins)
				case "determinant":
					determinant.Run(am, determinant.PositiveDefinite{Value: opt}, ins)
				case "matrixInverse":
					matrixInverse.Run(am, matrixInverse.PositiveDefinite{Value: opt}, ins)
				case "svd":
					svd.Run(am, svd.ComputeU{Value: opt}, svd.ComputeV{Value: opt}, ins)
				case "backSubstitution":
					backSubstitution.Run(am, bvec, ins)
				}
			})
			if to {
				c.Class("inconclusive: watchdog")
				c.End()
				return
			}
			if p != "" {
				c.Class("panicked")
			}
			for j, in := range inputs {
				if got := canon(in.m); got != in.before {
					t.Fatalf("%s: after call %d with the same InSitu object the input of %s changed from %s to %s", c.Desc(), k, in.desc, in.before, got)
				}
				if j < k {
					c.Class("earlier input checked after a later call")
				}
			}
			if canon(bvec) != beforeB {
				t.Fatalf("%s: the input vector changed from %s to %s", c.Desc(), beforeB, canon(bvec))
			}
		}
		c.End()
	})
}

// ---------------------------------------------------------------------------------------------
// (d) optimizers do not move the starting point they were given

func TestC12_optimizer_start_unchanged(t *testing.T) {
	optimizers := []string{"rprop", "bfgs", "gradientDescent", "newton.RunRoot", "newton.RunCrit", "newton.RunMin", "adam", "rprop.RunGradient", "adam.RunGradient"}
	rapid.Check(t, func(t *rapid.T) {
		which := optimizers[rapid.IntRange(0, len(optimizers)-1).Draw(t, "optimizer")]
		n := rapid.IntRange(1, 3).Draw(t, "n")
		x0vals := make([]float64, n)
		target := make([]float64, n)
		for i := range x0vals {
			x0vals[i] = gen.Dyadic(t, "x0")
			target[i] = gen.Dyadic(t, "target")
		}
		kind := rapid.SampledFrom([]string{"DenseFloat64", "DenseReal64", "DenseReal64 with derivatives"}).Draw(t, "x0kind")
		c := obs.Begin("optimizer_start_unchanged", "%s x0=%v (%s) target=%v", which, x0vals, kind, target)
		c.Classf("optimizer=%s", which)
		c.Classf("x0 kind=%s", kind)
		var x0 Vector
		if kind == "DenseFloat64" {
			x0 = NewDenseFloat64Vector(append([]float64{}, x0vals...))
		} else {
			x0 = NewDenseReal64Vector(append([]float64{}, x0vals...))
			if kind == "DenseReal64 with derivatives" {
				x0.(MagicVector).Variables(1)
			}
		}
		before := canon(x0)
		// f(x) = sum (x_i - target_i)^2 ; F(x) = x - target
		f := func(x ConstVector) (MagicScalar, error) {
			r := NewReal64(0)
			tmp := NewReal64(0)
			for i := 0; i < x.Dim(); i++ {
				tmp.Sub(x.ConstAt(i), ConstFloat64(target[i]))
				tmp.Mul(tmp, tmp)
				r.Add(r, tmp)
			}
			return r, nil
		}
		F := func(x ConstVector) (MagicVector, error) {
			r := NullDenseReal64Vector(x.Dim())
			for i := 0; i < x.Dim(); i++ {
				r.At(i).Sub(x.ConstAt(i), ConstFloat64(target[i]))
			}
			return r, nil
		}
		moved, shared := false, false
		iters := rapid.IntRange(1, 40).Draw(t, "iterations")
		p, to := guarded(func() {
			var r ConstVector
			switch which {
			case "rprop":
				r, _ = rprop.Run(f, x0, 0.1, []float64{1.2, 0.5}, rprop.MaxIterations{Value: 200})
			case "bfgs":
				r, _ = bfgs.Run(f, x0, bfgs.MaxIterations{Value: 50})
			case "gradientDescent":
				r, _ = gradientDescent.Run(f, x0, 0.1, gradientDescent.Epsilon{Value: 1e-6})
			case "newton.RunRoot":
				r, _ = newton.RunRoot(F, x0, newton.MaxIterations{Value: 50})
			case "newton.RunCrit":
				r, _ = newton.RunCrit(f, x0, newton.MaxIterations{Value: 50})
			case "newton.RunMin":
				r, _ = newton.RunMin(f, x0, newton.MaxIterations{Value: 50})
			case "adam":
				r, _ = adam.Run(f, x0, adam.StepSize{Value: 0.05}, adam.MaxIterations{Value: iters})
			case "rprop.RunGradient", "adam.RunGradient":
				// the plain-float variants take a DenseFloat64Vector and a gradient function
				gf := func(x, g DenseFloat64Vector) error {
					for i := range x {
						g[i] = 2 * (x[i] - target[i])
					}
					return nil
				}
				xf, ok := x0.(DenseFloat64Vector)
				if !ok {
					return
				}
				if which == "rprop.RunGradient" {
					r, _ = rprop.RunGradient(rprop.DenseGradientF(gf), xf, 0.1, []float64{1.2, 0.5}, rprop.MaxIterations{Value: iters})
				} else {
					r, _ = adam.RunGradient(adam.DenseGradientF(gf), xf, adam.StepSize{Value: 0.05}, adam.MaxIterations{Value: iters})
				}
				// the result must not be the caller's storage either
				if rv, ok := r.(DenseFloat64Vector); ok && len(rv) > 0 && len(xf) > 0 && &rv[0] == &xf[0] {
					shared = true
				}
			}
			if r != nil && r.Dim() == n {
				for i := 0; i < n; i++ {
					if r.Float64At(i) != x0vals[i] {
						moved = true
					}
				}
			}
		})
		if to {
			c.Class("inconclusive: watchdog")
			c.End()
			return
		}
		if p != "" {
			c.Class("panicked: " + p[:min(40, len(p))])
		}
		c.NT(moved)
		if canon(x0) != before {
			t.Fatalf("%s: the starting point changed from %s to %s", c.Desc(), before, canon(x0))
		}
		if shared {
			t.Fatalf("%s: the returned vector is the caller's starting vector (same storage)", c.Desc())
		}
		c.End()
	})
}

func min(a, b int) int {
	if a < b {
		return a
	}
	return b
}

// ---------------------------------------------------------------------------------------------
// (e) mutating a scalar handed to a distribution constructor does not change later LogPdf results

func TestC12_constructor_params_cloned(t *testing.T) {
	fams := []string{"normal", "gamma", "beta", "exponential", "cauchy", "laplace", "pareto", "poisson", "geometric", "gev"}
	rapid.Check(t, func(t *rapid.T) {
		fam := fams[rapid.IntRange(0, len(fams)-1).Draw(t, "family")]
		st := gen.DrawType(t, "ptype", []gen.SType{gen.TFloat64, gen.TReal64})
		p1 := float64(rapid.IntRange(2, 16).Draw(t, "p1")) / 4
		p2 := float64(rapid.IntRange(2, 16).Draw(t, "p2")) / 4
		x := float64(rapid.IntRange(1, 12).Draw(t, "x")) / 4
		c := obs.Begin("constructor_params_cloned", "%s %s p1=%v p2=%v x=%v", fam, st, p1, p2, x)
		c.Classf("family=%s", fam)
		c.NT(true)
		a, b := st.NewMut(p1), st.NewMut(p2)
		var d interface {
			LogPdf(r Scalar, x ConstScalar) error
		}
		var err error
		switch fam {
		case "normal":
			d, err = scalarDistribution.NewNormalDistribution(a, b)
		case "gamma":
			d, err = scalarDistribution.NewGammaDistribution(a, b)
		case "beta":
			d, err = scalarDistribution.NewBetaDistribution(a, b, false)
			x = x / 4
		case "exponential":
			d, err = scalarDistribution.NewExponentialDistribution(a)
		case "cauchy":
			d, err = scalarDistribution.NewCauchyDistribution(a, b)
		case "laplace":
			d, err = scalarDistribution.NewLaplaceDistribution(a, b)
		case "pareto":
			d, err = scalarDistribution.NewParetoDistribution(a, b)
			x += p1
		case "poisson":
			d, err = scalarDistribution.NewPoissonDistribution(a)
			x = float64(int(x * 4))
		case "geometric":
			a.SetFloat64(p1 / 8)
			d, err = scalarDistribution.NewGeometricDistribution(a)
			x = float64(int(x * 4))
		case "gev":
			xi := st.NewMut(0.25)
			d, err = scalarDistribution.NewGevDistribution(a, b, xi)
		}
		if err != nil {
			c.Class("constructor error")
			c.End()
			return
		}
		r1, r2 := st.NewMut(0), st.NewMut(0)
		if e := d.LogPdf(r1, ConstFloat64(x)); e != nil {
			c.Class("LogPdf error")
			c.End()
			return
		}
		// mutate the scalars that were handed to the constructor
		a.SetFloat64(a.GetFloat64() + 1)
		b.SetFloat64(b.GetFloat64() + 1)
		d.LogPdf(r2, ConstFloat64(x))
		if canon(r1) != canon(r2) {
			t.Fatalf("%s: LogPdf changed from %s to %s after mutating the constructor arguments", c.Desc(), canon(r1), canon(r2))
		}
		c.End()
	})
}

// ---------------------------------------------------------------------------------------------
// (g) constructors that "allocate a new vector/matrix" from index and value slices leave the slices as
// they were and do not keep them: two containers built from one shared index slice are both right

func TestC12_slice_arguments_unchanged(t *testing.T) {
	kinds := []string{"NewSparseConstFloat64Vector", "NewSparseFloat64Vector", "NewSparseReal64Vector", "NewSparseConstFloat32Vector", "NewSparseConstIntVector", "NewSparseFloat64Matrix"}
	rapid.Check(t, func(t *rapid.T) {
		kind := kinds[rapid.IntRange(0, len(kinds)-1).Draw(t, "constructor")]
		n := rapid.IntRange(1, 9).Draw(t, "n")
		k := rapid.IntRange(0, n).Draw(t, "entries")
		perm := rapid.Permutation(seq(n)).Draw(t, "indices")[:k]
		vals1 := make([]float64, k)
		vals2 := make([]float64, k)
		for i := range vals1 {
			// exact zeros are dropped by the constructors
			vals1[i] = float64(rapid.IntRange(-2, 3).Draw(t, fmt.Sprintf("v1[%d]", i)))
			vals2[i] = float64(rapid.IntRange(1, 4).Draw(t, fmt.Sprintf("v2[%d]", i)))
		}
		c := obs.Begin("slice_arguments_unchanged", "%s n=%d indices=%v values=%v then values=%v with the same index slice", kind, n, perm, vals1, vals2)
		c.Classf("constructor=%s", kind)
		zero := false
		for _, v := range vals1 {
			if v == 0 {
				zero = true
			}
		}
		if zero {
			c.Class("a zero value among the arguments")
		}
		sorted := true
		for i := 1; i < len(perm); i++ {
			if perm[i] < perm[i-1] {
				sorted = false
			}
		}
		if !sorted {
			c.Class("indices not sorted")
		}
		c.NT(k >= 2)
		idx := append([]int{}, perm...)
		idx0 := append([]int{}, perm...)
		build := func(values []float64) (func(i int) float64, []float64) {
			held := append([]float64{}, values...)
			switch kind {
			case "NewSparseConstFloat64Vector":
				v := NewSparseConstFloat64Vector(idx, held, n)
				return func(i int) float64 { return v.Float64At(i) }, held
			case "NewSparseFloat64Vector":
				v := NewSparseFloat64Vector(idx, held, n)
				return func(i int) float64 { return v.Float64At(i) }, held
			case "NewSparseReal64Vector":
				v := NewSparseReal64Vector(idx, held, n)
				return func(i int) float64 { return v.Float64At(i) }, held
			case "NewSparseConstFloat32Vector":
				h32 := make([]float32, len(held))
				for i := range held {
					h32[i] = float32(held[i])
				}
				v := NewSparseConstFloat32Vector(idx, h32, n)
				for i := range held {
					defer func(i int) { held[i] = float64(h32[i]) }(i)
				}
				return func(i int) float64 { return float64(v.Float32At(i)) }, held
			case "NewSparseConstIntVector":
				hi := make([]int, len(held))
				for i := range held {
					hi[i] = int(held[i])
				}
				v := NewSparseConstIntVector(idx, hi, n)
				for i := range held {
					defer func(i int) { held[i] = float64(hi[i]) }(i)
				}
				return func(i int) float64 { return float64(v.IntAt(i)) }, held
			default:
				cols := make([]int, len(idx))
				m := NewSparseFloat64Matrix(idx, cols, held, n, 1)
				return func(i int) float64 { return m.Float64At(i, 0) }, held
			}
		}
		check := func(at func(int) float64, values []float64, which string) {
			want := make([]float64, n)
			for i, j := range idx0 {
				want[j] = values[i]
			}
			for i := 0; i < n; i++ {
				if at(i) != want[i] {
					t.Fatalf("%s: the %s container holds %v at %d, the arguments say %v", c.Desc(), which, at(i), i, want[i])
				}
			}
		}
		at1, held1 := build(vals1)
		for i := range idx {
			if idx[i] != idx0[i] {
				t.Fatalf("%s: the constructor changed the caller's index slice from %v to %v", c.Desc(), idx0, idx)
			}
		}
		for i := range held1 {
			if held1[i] != vals1[i] {
				t.Fatalf("%s: the constructor changed the caller's value slice from %v to %v", c.Desc(), vals1, held1)
			}
		}
		check(at1, vals1, "first")
		at2, _ := build(vals2)
		check(at2, vals2, "second")
		// the first container does not live in the caller's slices
		check(at1, vals1, "first (after the second was built)")
		for i := range idx {
			idx[i] = 0
		}
		check(at1, vals1, "first (after the index slice was overwritten)")
		c.End()
	})
}

func seq(n int) []int {
	r := make([]int, n)
	for i := range r {
		r[i] = i
	}
	return r
}

func TestKF_sparse_const_constructor_mutates_arguments(t *testing.T) {
	idx := []int{0, 1, 2}
	NewSparseConstFloat64Vector(idx, []float64{1, 0, 1}, 3)
	obs.KFStatus("C12/sparse-const-vector-constructor-rewrites-its-index-argument", !(idx[0] == 0 && idx[1] == 1 && idx[2] == 2), fmt.Sprintf("index slice after the call: %v", idx))
}
