// C06 — derivatives propagate through linear algebra; fast paths equal generic paths.
//
// Oracles: (1) Real64 values equal Float64 values; (2) specialised Float32/Float64 code paths equal
// the generic scalar-interface path; (3) the defining equation of each routine, recomputed in AD
// arithmetic by the harness' own loops, must reproduce the input's value AND its derivative seeds
// (A*X = I with all derivatives zero; L*L' = A with gradient delta and Hessian zero; ...);
// (4) closed forms of matrix calculus; (5) Jacobian/Hessian helpers against analytic derivatives.
package c06

import (
	"fmt"
	"math"
	"os"
	"strings"
	"testing"
	"time"

	. "github.com/pbenner/autodiff"
	"github.com/pbenner/autodiff/algorithm/backSubstitution"
	"github.com/pbenner/autodiff/algorithm/cholesky"
	"github.com/pbenner/autodiff/algorithm/determinant"
	"github.com/pbenner/autodiff/algorithm/eigensystem"
	"github.com/pbenner/autodiff/algorithm/gaussJordan"
	"github.com/pbenner/autodiff/algorithm/gramSchmidt"
	"github.com/pbenner/autodiff/algorithm/hessenbergReduction"
	"github.com/pbenner/autodiff/algorithm/matrixInverse"
	"github.com/pbenner/autodiff/algorithm/qrAlgorithm"
	"github.com/pbenner/autodiff/algorithm/svd"
	"pgregory.net/rapid"
	"verifharness/gen"
	"verifharness/model"
	"verifharness/obs"
)

func TestMain(m *testing.M) {
	code := m.Run()
	obs.Flush()
	os.Exit(code)
}

func guarded(f func()) (perr string, timedOut bool) {
	done := make(chan string, 1)
	go func() {
		defer func() {
			if r := recover(); r != nil {
				s := fmt.Sprint(r)
				if len(s) > 160 {
					s = s[:160]
				}
				done <- "panic: " + s
			}
		}()
		f()
		done <- ""
	}()
	select {
	case p := <-done:
		return p, false
	case <-time.After(5 * time.Second):
		return "", true
	}
}

// denseOrthogonal: product of Givens rotations over all index pairs with angles away from multiples
// of pi/2, so that no structural zeros remain (exact zeros are non-differentiable points of the
// Householder/Givens based routines).
func denseOrthogonal(t *rapid.T, label string, n int) model.Mat {
	q := model.Identity(n)
	for i := 0; i < n; i++ {
		for j := i + 1; j < n; j++ {
			th := float64(rapid.IntRange(20, 130).Draw(t, label+".theta")) / 100
			c, s := math.Cos(th), math.Sin(th)
			for col := 0; col < n; col++ {
				a, b := q[i][col], q[j][col]
				q[i][col], q[j][col] = c*a-s*b, s*a+c*b
			}
		}
	}
	return q
}

// ---- AD matrices (harness-own products over the library's scalar AD arithmetic) -------------

type adm [][]ConstScalar

func fromMatrix(m ConstMatrix) adm {
	r, c := m.Dims()
	a := make(adm, r)
	for i := range a {
		a[i] = make([]ConstScalar, c)
		for j := range a[i] {
			a[i][j] = m.ConstAt(i, j).CloneConstScalar()
		}
	}
	return a
}

func (a adm) dims() (int, int) {
	if len(a) == 0 {
		return 0, 0
	}
	return len(a), len(a[0])
}

func (a adm) t() adm {
	r, c := a.dims()
	b := make(adm, c)
	for j := range b {
		b[j] = make([]ConstScalar, r)
		for i := 0; i < r; i++ {
			b[j][i] = a[i][j]
		}
	}
	return b
}

func (a adm) mul(b adm) adm {
	n, k := a.dims()
	_, m := b.dims()
	r := make(adm, n)
	for i := 0; i < n; i++ {
		r[i] = make([]ConstScalar, m)
		for j := 0; j < m; j++ {
			s := NewReal64(0)
			tmp := NewReal64(0)
			for l := 0; l < k; l++ {
				tmp.Mul(a[i][l], b[l][j])
				s.Add(s, tmp)
			}
			r[i][j] = s
		}
	}
	return r
}

func identityADM(n int) adm {
	r := make(adm, n)
	for i := range r {
		r[i] = make([]ConstScalar, n)
		for j := range r[i] {
			v := 0.0
			if i == j {
				v = 1
			}
			r[i][j] = NewReal64(v)
		}
	}
	return r
}

// maxDeriv: largest |derivative| / |hessian| entry in a set of AD matrices (scale of the tolerance)
func scaleOf(nvar, order int, ms ...adm) (float64, float64) {
	g, h := 1.0, 1.0
	for _, m := range ms {
		for _, row := range m {
			for _, s := range row {
				for k := 0; k < nvar && s.GetOrder() >= 1 && k < s.GetN(); k++ {
					g = math.Max(g, math.Abs(s.GetDerivative(k)))
					for l := 0; l < nvar && s.GetOrder() >= 2; l++ {
						h = math.Max(h, math.Abs(s.GetHessian(k, l)))
					}
				}
			}
		}
	}
	return g, h
}

const relTol = 1e-9

// sameAD: got must equal want in value, every first and every second derivative.
func sameAD(what string, got, want adm, nvar, order int, vscale, gscale, hscale float64) string {
	n, m := want.dims()
	gn, gm := got.dims()
	if gn != n || gm != m {
		return fmt.Sprintf("%s: dimensions %dx%d vs %dx%d", what, gn, gm, n, m)
	}
	for i := 0; i < n; i++ {
		for j := 0; j < m; j++ {
			g, w := got[i][j], want[i][j]
			if d := math.Abs(g.GetFloat64() - w.GetFloat64()); !(d <= relTol*vscale) {
				return fmt.Sprintf("%s (%d,%d): value %v, expected %v", what, i, j, g.GetFloat64(), w.GetFloat64())
			}
			for k := 0; k < nvar; k++ {
				gd, wd := deriv(g, k), deriv(w, k)
				if d := math.Abs(gd - wd); !(d <= relTol*gscale*100) {
					return fmt.Sprintf("%s (%d,%d): d/dx%d = %v, expected %v", what, i, j, k, gd, wd)
				}
				if order >= 2 {
					for l := 0; l < nvar; l++ {
						gh, wh := hess(g, k, l), hess(w, k, l)
						if d := math.Abs(gh - wh); !(d <= relTol*hscale*1e4) {
							return fmt.Sprintf("%s (%d,%d): d2/dx%ddx%d = %v, expected %v", what, i, j, k, l, gh, wh)
						}
					}
				}
			}
		}
	}
	return ""
}

func deriv(s ConstScalar, k int) float64 {
	if s.GetOrder() >= 1 && k < s.GetN() {
		return s.GetDerivative(k)
	}
	return 0
}

func hess(s ConstScalar, k, l int) float64 {
	if s.GetOrder() >= 2 && k < s.GetN() && l < s.GetN() {
		return s.GetHessian(k, l)
	}
	return 0
}

// activated builds a Real64 matrix from plain numbers and activates all or a subset of its entries.
type activated struct {
	m      *DenseReal64Matrix
	nvar   int
	order  int
	index  map[[2]int]int // entry -> variable number
	subset bool
}

func activate(t *rapid.T, a model.Mat, maxVars int, lowerOnly bool) activated {
	r, c := a.Dims()
	m := NullDenseReal64Matrix(r, c)
	for i := 0; i < r; i++ {
		for j := 0; j < c; j++ {
			m.At(i, j).SetFloat64(a[i][j])
		}
	}
	order := rapid.IntRange(1, 2).Draw(t, "order")
	subset := rapid.IntRange(0, 2).Draw(t, "subset") == 0
	act := activated{m: m, order: order, index: map[[2]int]int{}, subset: subset}
	var vars []MagicScalar
	for i := 0; i < r; i++ {
		for j := 0; j < c; j++ {
			if lowerOnly && j > i {
				continue
			}
			if subset && !rapid.Bool().Draw(t, "active") {
				continue
			}
			if len(vars) >= maxVars {
				continue
			}
			act.index[[2]int{i, j}] = len(vars)
			vars = append(vars, m.MagicAt(i, j))
		}
	}
	if len(vars) == 0 {
		act.index[[2]int{0, 0}] = 0
		vars = append(vars, m.MagicAt(0, 0))
	}
	if err := Variables(order, vars...); err != nil {
		t.Fatalf("Variables: %v", err)
	}
	act.nvar = len(vars)
	if lowerOnly {
		// the routines read the lower triangle of a symmetric input: mirror it so that the matrix is
		// symmetric as an AD object (upper entry == lower entry including derivatives)
		for i := 0; i < r; i++ {
			for j := i + 1; j < c; j++ {
				m.At(i, j).Set(m.ConstAt(j, i))
			}
		}
	}
	return act
}

func begin(t *rapid.T, aspect, routine string, a model.Mat, act activated) *obs.Case {
	n, _ := a.Dims()
	c := obs.Begin(aspect, "%s n=%d order=%d vars=%d subset=%v A=%v", routine, n, act.order, act.nvar, act.subset, a)
	c.Classf("routine=%s", routine)
	c.Classf("order=%d", act.order)
	if act.subset {
		c.Class("subset activation")
	}
	c.NT(n >= 2 && act.nvar >= 2)
	return c
}

var adRoutines = []string{"inverse", "inverse(PositiveDefinite)", "inverse(UpperTriangular)", "gaussJordan solve", "backSubstitution",
	"cholesky", "ldl", "ldl+forcepd", "gramSchmidt", "hessenberg", "svd", "eigensystem(symmetric)", "qrAlgorithm", "eigensystem(general)"}

func TestC06_defining_eq_in_ad(t *testing.T) {
	rapid.Check(t, func(t *rapid.T) {
		routine := adRoutines[rapid.IntRange(0, len(adRoutines)-1).Draw(t, "routine")]
		n := rapid.IntRange(1, 4).Draw(t, "n")
		maxVars := 9
		var a model.Mat
		lowerOnly := false
		switch routine {
		case "inverse(PositiveDefinite)", "cholesky", "ldl", "ldl+forcepd", "eigensystem(symmetric)":
			a = gen.DrawLinSys(t, "A", n, "spd").A
			lowerOnly = true
		case "inverse(UpperTriangular)", "backSubstitution":
			a = gen.DrawLinSys(t, "A", n, "upper-triangular").A
		case "svd":
			// distinct, well separated singular values
			u, v := denseOrthogonal(t, "u", n), denseOrthogonal(t, "v", n)
			s := model.NewMat(n, n)
			for i := 0; i < n; i++ {
				s[i][i] = float64(i+1) + float64(rapid.IntRange(0, 4).Draw(t, "s"))/8
			}
			a = u.Mul(s).Mul(v.T())
		case "eigensystem(general)":
			// well separated eigenvalues, complex pairs included: an orthogonal similarity of a block
			// upper triangular matrix with 1x1 blocks and 2x2 blocks [[a b] [-b a]], b != 0 (with repeated
			// eigenvalues the rotations of the iteration are not differentiable and the derivatives it
			// carries are unbounded)
			if n < 2 {
				n = 2
			}
			q := denseOrthogonal(t, "qg", n)
			d := model.NewMat(n, n)
			for i := 0; i < n; {
				re := float64(i+1) + float64(rapid.IntRange(0, 4).Draw(t, "re"))/8
				if i+1 < n && rapid.Bool().Draw(t, "pair") {
					im := float64(rapid.IntRange(2, 8).Draw(t, "im")) / 4
					d[i][i], d[i+1][i+1] = re, re
					d[i][i+1], d[i+1][i] = im, -im
					i += 2
				} else {
					d[i][i] = re
					i++
				}
			}
			for i := 0; i < n; i++ {
				for j := i + 1; j < n; j++ {
					if d[i][j] == 0 && d[j][i] == 0 {
						d[i][j] = float64(rapid.IntRange(-4, 4).Draw(t, "upg")) / 8
					}
				}
			}
			a = q.Mul(d).Mul(q.T())
		case "qrAlgorithm", "hessenberg":
			// real, well separated eigenvalues: symmetric-plus-small-perturbation
			q := denseOrthogonal(t, "q", n)
			d := model.NewMat(n, n)
			for i := 0; i < n; i++ {
				d[i][i] = float64(i+1) + float64(rapid.IntRange(0, 4).Draw(t, "ev"))/8
			}
			for i := 0; i < n; i++ {
				for j := i + 1; j < n; j++ {
					d[i][j] = float64(rapid.IntRange(-4, 4).Draw(t, "up")) / 8
				}
			}
			a = q.Mul(d).Mul(q.T())
		default:
			a = gen.DrawLinSys(t, "A", n, rapid.SampledFrom([]string{"general", "pivot-forcing", "sparse-pattern"}).Draw(t, "family")).A
		}
		if routine == "eigensystem(symmetric)" {
			// distinct eigenvalues
			q := denseOrthogonal(t, "qs", n)
			d := model.NewMat(n, n)
			for i := 0; i < n; i++ {
				d[i][i] = float64(i+1) + float64(rapid.IntRange(0, 4).Draw(t, "evs"))/8
			}
			a = q.Mul(d).Mul(q.T())
			for i := 0; i < n; i++ {
				for j := 0; j < i; j++ {
					a[i][j] = a[j][i]
				}
			}
		}
		act := activate(t, a, maxVars, lowerOnly)
		c := begin(t, "defining_eq_in_ad", routine, a, act)
		A := fromMatrix(act.m)
		nv, ord := act.nvar, act.order
		fail := func(s string) { t.Fatalf("%s: %s", c.Desc(), s) }
		run := func(f func()) bool {
			p, to := guarded(f)
			if to {
				c.Class("inconclusive: watchdog")
				c.End()
				return false
			}
			if p != "" {
				fail(p)
			}
			return true
		}
		iterative := routine == "qrAlgorithm" || routine == "svd" || routine == "eigensystem(symmetric)"
		knownHit := false
		check := func(what string, got, want adm, extra ...adm) {
			if knownHit {
				return
			}
			g, h := scaleOf(nv, ord, append(extra, got, want)...)
			if s := sameAD(what, got, want, nv, ord, 1+model.FromMatrix(act.m).MaxAbs(), g, h); s != "" {
				// iterative routines: the value part holds but the derivative part is inexact
				if iterative && !strings.Contains(s, ": value ") && c.Known("C06/iterative-routines-deflate-on-values-only") {
					knownHit = true
					return
				}
				fail(s)
			}
		}
		switch routine {
		case "inverse", "inverse(PositiveDefinite)", "inverse(UpperTriangular)":
			var args []interface{}
			if routine == "inverse(PositiveDefinite)" {
				args = append(args, matrixInverse.PositiveDefinite{Value: true})
			}
			if routine == "inverse(UpperTriangular)" {
				args = append(args, matrixInverse.UpperTriangular{Value: true})
			}
			var x Matrix
			var err error
			if !run(func() { x, err = matrixInverse.Run(act.m, args...) }) {
				return
			}
			if err != nil {
				fail("error " + err.Error())
			}
			X := fromMatrix(x)
			Aeff := A
			if routine == "inverse(UpperTriangular)" {
				// only the upper triangle is read
				Aeff = fromMatrix(act.m)
				for i := range Aeff {
					for j := 0; j < i; j++ {
						Aeff[i][j] = NewReal64(0)
					}
				}
			}
			check("A*inv(A) = I (value and all derivatives)", Aeff.mul(X), identityADM(n), X)
			check("inv(A)*A = I (value and all derivatives)", X.mul(Aeff), identityADM(n), X)
		case "gaussJordan solve":
			am := act.m.CloneMatrix()
			xm := NullDenseReal64Matrix(n, n)
			xm.SetIdentity()
			bm := NullDenseReal64Vector(n)
			for i := 0; i < n; i++ {
				bm.At(i).SetFloat64(float64(i + 1))
			}
			b0 := make(adm, n)
			for i := range b0 {
				b0[i] = []ConstScalar{NewReal64(float64(i + 1))}
			}
			var err error
			if !run(func() { err = gaussJordan.Run(am, xm, bm) }) {
				return
			}
			if err != nil {
				fail("error " + err.Error())
			}
			sol := make(adm, n)
			for i := range sol {
				sol[i] = []ConstScalar{bm.ConstAt(i).CloneConstScalar()}
			}
			check("A*x = b (value and all derivatives)", A.mul(sol), b0, sol)
			check("A*X = I", A.mul(fromMatrix(xm)), identityADM(n), fromMatrix(xm))
		case "backSubstitution":
			bm := NullDenseReal64Vector(n)
			b0 := make(adm, n)
			for i := 0; i < n; i++ {
				bm.At(i).SetFloat64(float64(i + 1))
				b0[i] = []ConstScalar{NewReal64(float64(i + 1))}
			}
			var x Vector
			var err error
			if !run(func() { x, err = backSubstitution.Run(act.m, bm) }) {
				return
			}
			if err != nil {
				fail("error " + err.Error())
			}
			sol := make(adm, n)
			for i := range sol {
				sol[i] = []ConstScalar{x.ConstAt(i).CloneConstScalar()}
			}
			Aeff := fromMatrix(act.m)
			for i := range Aeff {
				for j := 0; j < i; j++ {
					Aeff[i][j] = NewReal64(0)
				}
			}
			check("R*x = b (value and all derivatives)", Aeff.mul(sol), b0, sol)
		case "cholesky", "ldl", "ldl+forcepd":
			var args []interface{}
			if routine != "cholesky" {
				args = append(args, cholesky.LDL{Value: true})
			}
			if routine == "ldl+forcepd" {
				args = append(args, cholesky.ForcePD{Value: true})
			}
			var l, d Matrix
			var err error
			if !run(func() { l, d, err = cholesky.Run(act.m, args...) }) {
				return
			}
			if err != nil {
				fail("error " + err.Error())
			}
			L := fromMatrix(l)
			if routine != "cholesky" {
				check("L*D*L' = A (value and derivative seeds)", L.mul(fromMatrix(d)).mul(L.t()), A, L)
			} else {
				check("L*L' = A (value and derivative seeds)", L.mul(L.t()), A, L)
			}
		case "gramSchmidt":
			var q, r Matrix
			var err error
			if !run(func() { q, r, err = gramSchmidt.Run(act.m) }) {
				return
			}
			if err != nil {
				fail("error " + err.Error())
			}
			Q, R := fromMatrix(q), fromMatrix(r)
			check("Q*R = A (value and derivative seeds)", Q.mul(R), A, Q, R)
			check("Q'*Q = I (value and zero derivatives)", Q.t().mul(Q), identityADM(n), Q)
		case "hessenberg":
			var h, u Matrix
			var err error
			if !run(func() { h, u, err = hessenbergReduction.Run(act.m, hessenbergReduction.ComputeU{Value: true}) }) {
				return
			}
			if err != nil {
				fail("error " + err.Error())
			}
			U, H := fromMatrix(u), fromMatrix(h)
			check("U*H*U' = A (value and derivative seeds)", U.mul(H).mul(U.t()), A, U, H)
			check("U'*U = I (zero derivatives)", U.t().mul(U), identityADM(n), U)
		case "qrAlgorithm":
			var h, u Matrix
			var err error
			if !run(func() {
				h, u, err = qrAlgorithm.Run(act.m, qrAlgorithm.ComputeU{Value: true}, qrAlgorithm.Epsilon{Value: 1.11e-16})
			}) {
				return
			}
			if err != nil {
				fail("error " + err.Error())
			}
			U, H := fromMatrix(u), fromMatrix(h)
			check("U*H*U' = A (value and derivative seeds)", U.mul(H).mul(U.t()), A, U, H)
			check("U'*U = I (zero derivatives)", U.t().mul(U), identityADM(n), U)
		case "svd":
			var s, u, v Matrix
			var err error
			if !run(func() { s, u, v, err = svd.Run(act.m, svd.ComputeU{Value: true}, svd.ComputeV{Value: true}) }) {
				return
			}
			if err != nil {
				fail("error " + err.Error())
			}
			U, S, V := fromMatrix(u), fromMatrix(s), fromMatrix(v)
			check("U*S*V' = A (value and derivative seeds)", U.mul(S).mul(V.t()), A, U, S, V)
			check("U'*U = I (zero derivatives)", U.t().mul(U), identityADM(n), U)
			check("V'*V = I (zero derivatives)", V.t().mul(V), identityADM(n), V)
		case "eigensystem(general)":
			// eigenvalues of a general matrix with complex pairs (seed C06-5: the second member of a
			// complex pair lost its derivatives)
			var ev Vector
			var err error
			if !run(func() { ev, _, err = eigensystem.Run(act.m, qrAlgorithm.Epsilon{Value: 1.11e-16}) }) {
				return
			}
			if err != nil {
				// convergence of the Francis iteration is C05's subject (two recorded findings there)
				c.Class("eigensystem(general) reported an error (not judged here)")
				c.End()
				return
			}
			sum, tr := NewReal64(0), NewReal64(0)
			distinct := false
			for i := 0; i < n; i++ {
				sum.Add(sum, ev.ConstAt(i))
				tr.Add(tr, act.m.ConstAt(i, i))
				if i > 0 && ev.ConstAt(i).GetFloat64() == ev.ConstAt(i-1).GetFloat64() {
					distinct = true
				}
			}
			if distinct {
				c.Class("eigensystem(general): two equal eigenvalue entries (complex pair)")
			}
			evm := make(adm, n)
			for i := range evm {
				evm[i] = []ConstScalar{ev.ConstAt(i).CloneConstScalar()}
			}
			// The trace identity itself is only counted: the derivatives the shifted QR iteration carries
			// are inexact (gradient of the sum 0.952 instead of 1 on a well separated 4x4 — the recorded
			// finding C06/iterative-routines-deflate-on-values-only), so a tolerance would either raise
			// false alarms or hide real errors. Asserted instead, exactly: the two members of a complex
			// pair are the same function (h11+h22)/2, so entries with the same value have the same
			// gradient and Hessian, bit for bit.
			g, h := scaleOf(nv, ord, evm, A, adm{{sum}}, adm{{tr}})
			vs := 1 + model.FromMatrix(act.m).MaxAbs()
			if sameAD("", adm{{sum}}, adm{{tr}}, nv, ord, vs, g, h) != "" {
				c.Class("eigensystem(general): derivatives of the eigenvalue sum differ from those of the trace (counted, not asserted)")
			}
			for i := 1; i < n; i++ {
				x, y := ev.ConstAt(i-1), ev.ConstAt(i)
				if x.GetFloat64() != y.GetFloat64() {
					continue
				}
				for k := 0; k < nv; k++ {
					if x.GetDerivative(k) != y.GetDerivative(k) {
						fail(fmt.Sprintf("eigenvalues %d and %d are the real part %v of one complex pair, but d/dx%d is %v for the first and %v for the second", i-1, i, x.GetFloat64(), k, x.GetDerivative(k), y.GetDerivative(k)))
					}
					for l := 0; ord >= 2 && l < nv; l++ {
						if x.GetHessian(k, l) != y.GetHessian(k, l) {
							fail(fmt.Sprintf("eigenvalues %d and %d are the real part %v of one complex pair, but d2/dx%ddx%d is %v for the first and %v for the second", i-1, i, x.GetFloat64(), k, l, x.GetHessian(k, l), y.GetHessian(k, l)))
						}
					}
				}
			}
		case "eigensystem(symmetric)":
			var ev Vector
			var evec Matrix
			var err error
			if !run(func() {
				ev, evec, err = eigensystem.Run(act.m, eigensystem.Symmetric{Value: true}, qrAlgorithm.Epsilon{Value: 1.11e-16})
			}) {
				return
			}
			if err != nil {
				fail("error " + err.Error())
			}
			V := fromMatrix(evec)
			D := make(adm, n)
			for i := range D {
				D[i] = make([]ConstScalar, n)
				for j := range D[i] {
					if i == j {
						D[i][j] = ev.ConstAt(i).CloneConstScalar()
					} else {
						D[i][j] = NewReal64(0)
					}
				}
			}
			check("V*diag(lambda)*V' = A (value and derivative seeds)", V.mul(D).mul(V.t()), A, V, D)
		}
		c.End()
	})
}

// ---------------------------------------------------------------------------------------------
// closed forms of matrix calculus

func TestC06_closed_form_matrix_calculus(t *testing.T) {
	rapid.Check(t, func(t *rapid.T) {
		which := rapid.SampledFrom([]string{"det", "det with zero entries", "logdet(PD)", "det(PD)", "inverse", "MdotM"}).Draw(t, "what")
		if which == "det with zero entries" {
			detWithZeros(t)
			return
		}
		n := rapid.IntRange(1, 3).Draw(t, "n")
		fam := "general"
		if which == "logdet(PD)" || which == "det(PD)" {
			fam = "spd"
		}
		ls := gen.DrawLinSys(t, "A", n, fam)
		act := activate(t, ls.A, 9, fam == "spd")
		c := begin(t, "closed_form_matrix_calculus", which, ls.A, act)
		fail := func(format string, args ...interface{}) {
			t.Fatalf("%s: %s", c.Desc(), fmt.Sprintf(format, args...))
		}
		// float inverse by the harness
		inv := model.NewMat(n, n)
		for j := 0; j < n; j++ {
			e := make([]float64, n)
			e[j] = 1
			col := ls.A.Solve(e)
			for i := 0; i < n; i++ {
				inv[i][j] = col[i]
			}
		}
		det := ls.A.Det()
		tol := func(scale float64) float64 { return 1e-8 * (1 + math.Abs(scale)) * ls.Kappa }
		switch which {
		case "det", "det(PD)", "logdet(PD)":
			var args []interface{}
			if which != "det" {
				args = append(args, determinant.PositiveDefinite{Value: true})
			}
			if which == "logdet(PD)" {
				args = append(args, determinant.LogScale{Value: true})
			}
			var d Scalar
			var err error
			p, _ := guarded(func() { d, err = determinant.Run(act.m, args...) })
			if p != "" || err != nil {
				fail("panic/error: %s %v", p, err)
			}
			for ij, k := range act.index {
				i, j := ij[0], ij[1]
				// d det / dA_ij = det * inv(A)_ji ; for the symmetric parametrisation (lower triangle
				// mirrored) off-diagonal entries count twice
				want := det * inv[j][i]
				if which == "logdet(PD)" {
					want = inv[j][i]
				}
				if fam == "spd" && i != j {
					want *= 2
				}
				if got := d.GetDerivative(k); !(math.Abs(got-want) <= tol(want)*math.Max(1, math.Abs(det))) {
					fail("d %s / dA(%d,%d) = %v, closed form gives %v", which, i, j, got, want)
				}
			}
			if act.order == 2 && which == "logdet(PD)" {
				// d2 logdet / dA_ij dA_kl = - inv_jk inv_li  (general, unsymmetrised); check the diagonal-diagonal entries
				for ij, k := range act.index {
					for kl, l := range act.index {
						if ij[0] != ij[1] || kl[0] != kl[1] {
							continue
						}
						want := -inv[ij[1]][kl[0]] * inv[kl[1]][ij[0]]
						if got := d.GetHessian(k, l); !(math.Abs(got-want) <= tol(want)*10) {
							fail("d2 logdet / dA(%d,%d)dA(%d,%d) = %v, closed form gives %v", ij[0], ij[1], kl[0], kl[1], got, want)
						}
					}
				}
			}
		case "inverse":
			var x Matrix
			var err error
			p, _ := guarded(func() { x, err = matrixInverse.Run(act.m) })
			if p != "" || err != nil {
				fail("panic/error: %s %v", p, err)
			}
			for ij, k := range act.index {
				i, j := ij[0], ij[1]
				for r := 0; r < n; r++ {
					for s := 0; s < n; s++ {
						want := -inv[r][i] * inv[j][s]
						if got := x.ConstAt(r, s).GetDerivative(k); !(math.Abs(got-want) <= tol(want)*10) {
							fail("d inv(A)(%d,%d) / dA(%d,%d) = %v, closed form -inv_ki inv_jl gives %v", r, s, i, j, got, want)
						}
					}
				}
			}
		case "MdotM":
			// R = A*B with B a second activated matrix sharing the variable space: product rule
			b := gen.DrawLinSys(t, "B", n, "general").A
			bm := NullDenseReal64Matrix(n, n)
			for i := 0; i < n; i++ {
				for j := 0; j < n; j++ {
					bm.At(i, j).SetFloat64(b[i][j])
				}
			}
			r := NullDenseReal64Matrix(n, n)
			if p, _ := guarded(func() { r.MdotM(act.m, bm) }); p != "" {
				fail("%s", p)
			}
			for ij, k := range act.index {
				i, j := ij[0], ij[1]
				for rr := 0; rr < n; rr++ {
					for s := 0; s < n; s++ {
						want := 0.0
						if rr == i {
							want = b[j][s]
						}
						if got := r.ConstAt(rr, s).GetDerivative(k); !(math.Abs(got-want) <= 1e-12*(1+math.Abs(want))) {
							fail("d (A*B)(%d,%d) / dA(%d,%d) = %v, product rule gives %v", rr, s, i, j, got, want)
						}
					}
				}
			}
		}
		c.End()
	})
}

// the determinant is a polynomial of the entries: its derivative with respect to an entry is the
// cofactor, also where entries are exactly zero and where the matrix is singular (no pivoting is
// involved in the general determinant routine)
func detWithZeros(t *rapid.T) {
	n := rapid.IntRange(2, 4).Draw(t, "n")
	a := model.NewMat(n, n)
	for i := 0; i < n; i++ {
		for j := 0; j < n; j++ {
			if rapid.IntRange(0, 2).Draw(t, fmt.Sprintf("zero[%d][%d]", i, j)) == 0 {
				continue
			}
			a[i][j] = float64(rapid.IntRange(-8, 8).Draw(t, fmt.Sprintf("a[%d][%d]", i, j))) / 2
		}
	}
	act := activate(t, a, 16, false)
	c := begin(t, "closed_form_matrix_calculus", "det with zero entries", a, act)
	var d Scalar
	var err error
	p, _ := guarded(func() { d, err = determinant.Run(act.m) })
	if p != "" || err != nil {
		t.Fatalf("%s: panic/error: %s %v", c.Desc(), p, err)
	}
	var detOf func(m model.Mat) float64
	detOf = func(m model.Mat) float64 {
		k := len(m)
		if k == 0 {
			return 1
		}
		if k == 1 {
			return m[0][0]
		}
		s, sign := 0.0, 1.0
		for j := 0; j < k; j++ {
			s += sign * m[0][j] * detOf(minorOf(m, 0, j))
			sign = -sign
		}
		return s
	}
	if got, want := d.GetFloat64(), detOf(a); math.Abs(got-want) > 1e-9*(1+math.Abs(want)) {
		t.Fatalf("%s: determinant %v, cofactor expansion gives %v", c.Desc(), got, want)
	}
	for ij, k := range act.index {
		i, j := ij[0], ij[1]
		want := detOf(minorOf(a, i, j))
		if (i+j)%2 == 1 {
			want = -want
		}
		if got := d.GetDerivative(k); !(math.Abs(got-want) <= 1e-9*(1+math.Abs(want))) {
			t.Fatalf("%s: d det / dA(%d,%d) = %v, the cofactor is %v", c.Desc(), i, j, got, want)
		}
		if act.order == 2 {
			// second derivatives: signed determinants of the matrix without rows i,k and columns j,l
			for kl, l := range act.index {
				r2, c2 := kl[0], kl[1]
				want2 := 0.0
				if r2 != i && c2 != j {
					m1 := minorOf(a, i, j)
					// position of (r2,c2) inside the minor
					rr, cc := r2, c2
					if rr > i {
						rr--
					}
					if cc > j {
						cc--
					}
					want2 = detOf(minorOf(m1, rr, cc))
					if (i+j+rr+cc)%2 == 1 {
						want2 = -want2
					}
				}
				if got := d.GetHessian(k, l); !(math.Abs(got-want2) <= 1e-9*(1+math.Abs(want2))) {
					t.Fatalf("%s: d2 det / dA(%d,%d) dA(%d,%d) = %v, the second-order cofactor is %v", c.Desc(), i, j, r2, c2, got, want2)
				}
			}
		}
	}
	c.Class("zero entries")
	c.End()
}

func minorOf(m model.Mat, i, j int) model.Mat {
	k := len(m)
	r := model.NewMat(k-1, k-1)
	for a, x := 0, 0; a < k; a++ {
		if a == i {
			continue
		}
		for b, y := 0, 0; b < k; b++ {
			if b == j {
				continue
			}
			r[x][y] = m[a][b]
			y++
		}
		x++
	}
	return r
}

// ---------------------------------------------------------------------------------------------
// values on magic matrices equal values on plain float matrices; fast paths equal generic paths

func TestC06_values_and_fast_paths(t *testing.T) {
	routines := []string{"inverse", "inverse(PD)", "gaussJordan", "cholesky", "ldl", "ldl+forcepd", "ldl+forcepd(indefinite)", "determinant", "determinant(PD)", "MdotM", "MdotV", "VdotM", "Outer"}
	rapid.Check(t, func(t *rapid.T) {
		routine := routines[rapid.IntRange(0, len(routines)-1).Draw(t, "routine")]
		n := rapid.IntRange(1, 6).Draw(t, "n")
		fam := "general"
		switch routine {
		case "inverse(PD)", "cholesky", "ldl", "ldl+forcepd", "determinant(PD)":
			fam = "spd"
		case "inverse", "gaussJordan":
			fam = rapid.SampledFrom([]string{"general", "pivot-forcing", "integer"}).Draw(t, "family")
		}
		ls := gen.DrawLinSys(t, "A", n, fam)
		if routine == "ldl+forcepd(indefinite)" {
			// symmetric indefinite input: the forced algorithm has to modify pivots
			q := gen.Orthogonal(t, "qi", n)
			d := model.NewMat(n, n)
			for i := 0; i < n; i++ {
				d[i][i] = float64(rapid.IntRange(-16, 16).Draw(t, "evi")) / 4
			}
			a := q.Mul(d).Mul(q.T())
			for i := 0; i < n; i++ {
				for j := 0; j < i; j++ {
					a[i][j] = a[j][i]
				}
			}
			ls = gen.LinSys{A: a, Family: "symmetric indefinite", Kappa: 64}
		}
		other := gen.DrawLinSys(t, "B", n, "general").A
		// variants: Float64 (specialised where one exists), Real64 without variables (generic),
		// Real64 with variables (generic + derivative bookkeeping), Float32 / Real32 as a pair
		variants := []struct {
			name string
			st   gen.SType
			act  bool
		}{{"Float64", gen.TFloat64, false}, {"Real64", gen.TReal64, false}, {"Real64+variables", gen.TReal64, true}, {"Float32", gen.TFloat32, false}, {"Real32", gen.TReal32, false}}
		c := obs.Begin("values_and_fast_paths", "%s n=%d %s A=%v", routine, n, ls.Family, ls.A)
		c.Classf("routine=%s", routine)
		c.NT(n >= 2)
		results := map[string]model.Mat{}
		errs := map[string]string{}
		for _, v := range variants {
			am := gen.ToDense(v.st, ls.A)
			bm := gen.ToDense(v.st, other)
			if v.act {
				var vars []MagicScalar
				mm := am.(MagicMatrix)
				for i := 0; i < n && len(vars) < 6; i++ {
					vars = append(vars, mm.MagicAt(i, i))
				}
				Variables(2, vars...)
			}
			var out model.Mat
			var err error
			p, to := guarded(func() {
				switch routine {
				case "inverse", "inverse(PD)":
					var x Matrix
					var args []interface{}
					if routine == "inverse(PD)" {
						args = append(args, matrixInverse.PositiveDefinite{Value: true})
					}
					x, err = matrixInverse.Run(am, args...)
					if err == nil {
						out = model.FromMatrix(x)
					}
				case "gaussJordan":
					x := gen.ToDense(v.st, model.Identity(n))
					b := gen.ToDenseVec(v.st, make([]float64, n))
					for i := 0; i < n; i++ {
						b.At(i).SetFloat64(float64(i) - 1.5)
					}
					err = gaussJordan.Run(am, x, b)
					if err == nil {
						out = append(model.FromMatrix(x), model.FromVector(b))
					}
				case "cholesky", "ldl", "ldl+forcepd", "ldl+forcepd(indefinite)":
					var args []interface{}
					if routine != "cholesky" {
						args = append(args, cholesky.LDL{Value: true})
					}
					if routine == "ldl+forcepd" || routine == "ldl+forcepd(indefinite)" {
						args = append(args, cholesky.ForcePD{Value: true})
					}
					var l, d Matrix
					l, d, err = cholesky.Run(am, args...)
					if err == nil {
						out = model.FromMatrix(l)
						if d != nil {
							out = append(out, model.FromMatrix(d)...)
						}
					}
				case "determinant", "determinant(PD)":
					var args []interface{}
					if routine == "determinant(PD)" {
						args = append(args, determinant.PositiveDefinite{Value: true})
					}
					var d Scalar
					d, err = determinant.Run(am, args...)
					if err == nil {
						out = model.Mat{{d.GetFloat64()}}
					}
				case "MdotM":
					r := NullDenseMatrix(v.st.T, n, n)
					r.MdotM(am, bm)
					out = model.FromMatrix(r)
				case "MdotV":
					r := NullDenseVector(v.st.T, n)
					r.MdotV(am, bm.Row(0))
					out = model.Mat{model.FromVector(r)}
				case "VdotM":
					r := NullDenseVector(v.st.T, n)
					r.VdotM(bm.Row(0), am)
					out = model.Mat{model.FromVector(r)}
				case "Outer":
					r := NullDenseMatrix(v.st.T, n, n)
					r.Outer(am.Row(0), bm.Col(0))
					out = model.FromMatrix(r)
				}
			})
			switch {
			case to:
				errs[v.name] = "timeout"
			case p != "":
				errs[v.name] = p
			case err != nil:
				errs[v.name] = "error: " + err.Error()
			default:
				results[v.name] = out
			}
		}
		cmp := func(x, y string, rel float64) {
			if (errs[x] == "") != (errs[y] == "") {
				t.Fatalf("%s: %s gives %q but %s gives %q", c.Desc(), x, errs[x], y, errs[y])
			}
			if errs[x] != "" {
				c.Class("both error")
				return
			}
			a, b := results[x], results[y]
			scale := math.Max(a.MaxAbs(), 1)
			if d := a.Sub(b).MaxAbs(); !(d <= rel*scale*ls.Kappa) {
				t.Fatalf("%s: %s and %s disagree by %g (relative tolerance %g)\n%s: %v\n%s: %v", c.Desc(), x, y, d, rel, x, a, y, b)
			}
		}
		cmp("Float64", "Real64", 1e-13)
		cmp("Real64", "Real64+variables", 1e-13)
		cmp("Float32", "Real32", 1e-5)
		c.End()
	})
}

// ---------------------------------------------------------------------------------------------
// Jacobian / Hessian helpers on polynomial maps with analytic derivatives

func TestC06_jacobian_hessian_helpers(t *testing.T) {
	rapid.Check(t, func(t *rapid.T) {
		n := rapid.IntRange(1, 4).Draw(t, "n")
		m := rapid.IntRange(1, 3).Draw(t, "m")
		// f_r(x) = sum_i c_ri x_i + sum_{i<=j} q_rij x_i x_j
		cl := make([][]float64, m)
		ql := make([][][]float64, m)
		for r := 0; r < m; r++ {
			cl[r] = make([]float64, n)
			ql[r] = make([][]float64, n)
			for i := 0; i < n; i++ {
				cl[r][i] = gen.Dyadic(t, "c")
				ql[r][i] = make([]float64, n)
				for j := i; j < n; j++ {
					ql[r][i][j] = gen.Dyadic(t, "q")
				}
			}
		}
		x0 := make([]float64, n)
		for i := range x0 {
			x0[i] = gen.Dyadic(t, "x")
		}
		sparse := rapid.Bool().Draw(t, "sparseResult")
		stale := rapid.Bool().Draw(t, "staleDerivatives")
		c := obs.Begin("jacobian_hessian_helpers", "n=%d m=%d x=%v c=%v q=%v sparse=%v stale=%v", n, m, x0, cl, ql, sparse, stale)
		c.Classf("sparse result=%v", sparse)
		c.Classf("argument carried derivatives before=%v", stale)
		c.NT(n >= 2)
		x := NullDenseReal64Vector(n)
		for i := range x0 {
			x.At(i).SetFloat64(x0[i])
		}
		if stale {
			// the argument vector carries unrelated derivative content from an earlier computation
			for i := 0; i < n; i++ {
				s := x.MagicAt(i)
				s.Alloc(n, 2)
				for k := 0; k < n; k++ {
					s.SetDerivative(k, 7)
					s.SetHessian(k, (k+1)%n, 5)
				}
			}
		}
		before := model.ObsScalars(toScalars(x))
		eval := func(r int, v ConstVector) Scalar {
			s := NewReal64(0)
			tmp := NewReal64(0)
			for i := 0; i < n; i++ {
				tmp.Mul(ConstFloat64(cl[r][i]), v.ConstAt(i))
				s.Add(s, tmp)
				for j := i; j < n; j++ {
					tmp.Mul(v.ConstAt(i), v.ConstAt(j))
					tmp.Mul(tmp, ConstFloat64(ql[r][i][j]))
					s.Add(s, tmp)
				}
			}
			return s
		}
		f := func(v ConstVector) ConstVector {
			r := NullDenseReal64Vector(m)
			for k := 0; k < m; k++ {
				r.At(k).Set(eval(k, v))
			}
			return r
		}
		var J, H Matrix
		if sparse {
			J, H = NullSparseReal64Matrix(m, n), NullSparseReal64Matrix(n, n)
		} else {
			J, H = NullDenseReal64Matrix(m, n), NullDenseReal64Matrix(n, n)
		}
		// prior content of the receivers must not leak into the result
		J.At(0, 0).SetFloat64(99)
		H.At(0, 0).SetFloat64(99)
		if p, _ := guarded(func() { J.Jacobian(f, x) }); p != "" {
			t.Fatalf("%s: Jacobian %s", c.Desc(), p)
		}
		if p, _ := guarded(func() { H.Hessian(func(v ConstVector) ConstScalar { return eval(0, v) }, x) }); p != "" {
			t.Fatalf("%s: Hessian %s", c.Desc(), p)
		}
		for r := 0; r < m; r++ {
			for i := 0; i < n; i++ {
				want := cl[r][i]
				for j := 0; j < n; j++ {
					switch {
					case i == j:
						want += 2 * ql[r][i][i] * x0[i]
					case i < j:
						want += ql[r][i][j] * x0[j]
					default:
						want += ql[r][j][i] * x0[j]
					}
				}
				if got := J.Float64At(r, i); math.Abs(got-want) > 1e-12*(1+math.Abs(want)) {
					if sparse && c.Known("C06/sparse-jacobian-hessian-keep-prior-entries") {
						c.End()
						return
					}
					t.Fatalf("%s: Jacobian(%d,%d)=%v, analytic %v", c.Desc(), r, i, got, want)
				}
			}
		}
		for i := 0; i < n; i++ {
			for j := 0; j < n; j++ {
				want := 0.0
				switch {
				case i == j:
					want = 2 * ql[0][i][i]
				case i < j:
					want = ql[0][i][j]
				default:
					want = ql[0][j][i]
				}
				if got := H.Float64At(i, j); math.Abs(got-want) > 1e-12*(1+math.Abs(want)) {
					if sparse && c.Known("C06/sparse-jacobian-hessian-keep-prior-entries") {
						c.End()
						return
					}
					t.Fatalf("%s: Hessian(%d,%d)=%v, analytic %v", c.Desc(), i, j, got, want)
				}
			}
		}
		// the argument vector is not modified
		after := model.ObsScalars(toScalars(x))
		if d := after.Diff(before, 0); d != "" {
			t.Fatalf("%s: the argument vector was modified: %s", c.Desc(), d)
		}
		c.End()
	})
}

func toScalars(v Vector) []Scalar {
	r := make([]Scalar, v.Dim())
	for i := range r {
		r[i] = v.At(i)
	}
	return r
}

// ---------------------------------------------------------------------------------------------
// witnesses

func TestKF_qr_derivatives_deflation(t *testing.T) {
	a := model.Mat{{1.2306471385598772, 0.004731146742327136, -0.2821668983453072, -0.6406628086733794},
		{0.004731146742327108, 2.0960813433895193, -0.12173722019129524, -0.41747195843004936},
		{-0.2821668983453071, -0.12173722019129535, 2.954941742172585, -0.29657146975556803},
		{-0.6406628086733794, -0.41747195843004936, -0.29657146975556803, 3.7183297758780185}}
	m := NullDenseReal64Matrix(4, 4)
	for i := range a {
		for j := range a[i] {
			m.At(i, j).SetFloat64(a[i][j])
		}
	}
	Variables(1, m.MagicAt(0, 0))
	h, u, err := qrAlgorithm.Run(m, qrAlgorithm.ComputeU{Value: true}, qrAlgorithm.Epsilon{Value: 1.11e-16})
	bad := ""
	if err != nil {
		bad = err.Error()
	} else {
		U, H := fromMatrix(u), fromMatrix(h)
		r := U.mul(H).mul(U.t())
		if d := r[0][0].GetDerivative(0); math.Abs(d-1) > 1e-8 {
			bad = fmt.Sprintf("d (U*H*U')(0,0) / dA(0,0) = %v, expected 1", d)
		}
	}
	obs.KFStatus("C06/iterative-routines-deflate-on-values-only", bad != "", bad)
}

func TestKF_cholesky_typed_nil(t *testing.T) {
	_, d, err := cholesky.Run(NewDenseFloat64Matrix([]float64{1}, 1, 1))
	obs.KFStatus("C06/cholesky-fast-path-typed-nil", err == nil && d != nil, fmt.Sprintf("second result of plain Cholesky on the Float64 fast path: d != nil is %v", d != nil))
}

func TestKF_sparse_jacobian_prior(t *testing.T) {
	H := NullSparseReal64Matrix(2, 2)
	H.At(0, 0).SetFloat64(99)
	x := NewDenseReal64Vector([]float64{0, 0.125})
	H.Hessian(func(v ConstVector) ConstScalar { r := NewReal64(0); r.Mul(v.ConstAt(0), v.ConstAt(1)); return r }, x)
	obs.KFStatus("C06/sparse-jacobian-hessian-keep-prior-entries", H.Float64At(0, 0) != 0, fmt.Sprintf("Hessian of x0*x1 stored into a sparse receiver that held 99 at (0,0): (0,0)=%v", H.Float64At(0, 0)))
}

func TestKF_forcepd_derivatives(t *testing.T) {
	m := NullDenseReal64Matrix(1, 1)
	m.At(0, 0).SetFloat64(1)
	Variables(1, m.MagicAt(0, 0))
	_, d, err := cholesky.Run(m, cholesky.LDL{Value: true}, cholesky.ForcePD{Value: true})
	bad := err != nil || d.ConstAt(0, 0).GetDerivative(0) != 1
	obs.KFStatus("C06/forcepd-drops-derivatives-of-D", bad, fmt.Sprintf("err=%v dD/dA=%v", err, func() float64 {
		if d == nil {
			return math.NaN()
		}
		return d.ConstAt(0, 0).GetDerivative(0)
	}()))
}
