// C20 — every routine terminates and fails loudly on invalid use.
package c20

import (
	"fmt"
	"math"
	"os"
	"testing"
	"time"

	. "github.com/pbenner/autodiff"
	"github.com/pbenner/autodiff/algorithm/adam"
	"github.com/pbenner/autodiff/algorithm/bfgs"
	"github.com/pbenner/autodiff/algorithm/cholesky"
	"github.com/pbenner/autodiff/algorithm/determinant"
	"github.com/pbenner/autodiff/algorithm/eigensystem"
	"github.com/pbenner/autodiff/algorithm/gradientDescent"
	"github.com/pbenner/autodiff/algorithm/gramSchmidt"
	"github.com/pbenner/autodiff/algorithm/hessenbergReduction"
	"github.com/pbenner/autodiff/algorithm/householderBidiagonalization"
	"github.com/pbenner/autodiff/algorithm/householderTridiagonalization"
	"github.com/pbenner/autodiff/algorithm/lineSearch"
	"github.com/pbenner/autodiff/algorithm/matrixInverse"
	"github.com/pbenner/autodiff/algorithm/msqrt"
	"github.com/pbenner/autodiff/algorithm/msqrtInv"
	"github.com/pbenner/autodiff/algorithm/newton"
	"github.com/pbenner/autodiff/algorithm/qrAlgorithm"
	"github.com/pbenner/autodiff/algorithm/rprop"
	"github.com/pbenner/autodiff/algorithm/svd"
	"pgregory.net/rapid"
	"verifharness/gen"
	"verifharness/model"
	"verifharness/obs"
)

func TestMain(m *testing.M) {
	code := m.Run()
	obs.Flush()
	os.Exit(code)
}

// outcome of a call: "panic: ...", "error: ...", or "" (returned normally)
func loud(f func() error) (how string) {
	defer func() {
		if r := recover(); r != nil {
			s := fmt.Sprint(r)
			if len(s) > 160 {
				s = s[:160]
			}
			how = "panic: " + s
		}
	}()
	if err := f(); err != nil {
		return "error: " + err.Error()
	}
	return ""
}

// run f under a deadline; a second, longer attempt is made before a missed deadline counts
func terminates(f func(), d time.Duration) (perr string, timedOut bool) {
	try := func(d time.Duration) (string, bool) {
		done := make(chan string, 1)
		go func() {
			defer func() {
				if r := recover(); r != nil {
					s := fmt.Sprint(r)
					if len(s) > 200 {
						s = s[:200]
					}
					done <- "panic: " + s
				}
			}()
			f()
			done <- ""
		}()
		select {
		case p := <-done:
			return p, false
		case <-time.After(d):
			return "", true
		}
	}
	if p, to := try(d); !to {
		return p, false
	}
	return try(3 * d)
}

// ---------------------------------------------------------------------------------------------
// containers

type kind struct {
	st     gen.SType
	sparse bool
	view   bool
}

func (k kind) String() string {
	s := "dense"
	if k.sparse {
		s = "sparse"
	}
	v := "owner"
	if k.view {
		v = "view"
	}
	return fmt.Sprintf("%s %s %s", k.st, s, v)
}

func drawKind(t *rapid.T, label string) kind {
	return kind{st: gen.DrawType(t, label+".elem", []gen.SType{gen.TFloat64, gen.TReal64, gen.TInt}), sparse: rapid.Bool().Draw(t, label+".sparse"), view: rapid.Bool().Draw(t, label+".view")}
}

// a vector of dimension n; as a view it is a window of a larger vector whose other entries hold
// the sentinel 777
func (k kind) vector(n int) Vector {
	mk := func(n int) Vector {
		if k.sparse {
			return NullSparseVector(k.st.T, n)
		}
		return NullDenseVector(k.st.T, n)
	}
	if !k.view {
		v := mk(n)
		for i := 0; i < n; i++ {
			v.At(i).SetFloat64(float64(i + 1))
		}
		return v
	}
	p := mk(n + 3)
	for i := 0; i < n+3; i++ {
		p.At(i).SetFloat64(777)
	}
	v := p.Slice(1, 1+n)
	for i := 0; i < n; i++ {
		v.At(i).SetFloat64(float64(i + 1))
	}
	return v
}

func (k kind) matrix(r, c int) Matrix {
	mk := func(r, c int) Matrix {
		if k.sparse {
			return NullSparseMatrix(k.st.T, r, c)
		}
		return NullDenseMatrix(k.st.T, r, c)
	}
	fill := func(m Matrix) {
		for i := 0; i < r; i++ {
			for j := 0; j < c; j++ {
				m.At(i, j).SetFloat64(float64(1 + i*c + j))
			}
		}
	}
	if !k.view {
		m := mk(r, c)
		fill(m)
		return m
	}
	p := mk(r+2, c+3)
	for i := 0; i < r+2; i++ {
		for j := 0; j < c+3; j++ {
			p.At(i, j).SetFloat64(777)
		}
	}
	m := p.Slice(1, 1+r, 2, 2+c)
	fill(m)
	return m
}

// ---------------------------------------------------------------------------------------------
// (a) operations with one mismatching dimension must be rejected

// every op takes dimension parameters d (n, m, k) and a function that may perturb them per operand
type dimOp struct {
	name string
	// operands: list of (operand name, dims) where dims index into d; vectors have one, matrices two
	// call performs the operation on freshly built containers with the given per-operand dimensions
	call func(k kind, dims map[string][]int) (recv interface{}, run func() error)
	args map[string][]string // operand -> symbolic dims, e.g. "a": {"n","k"}
}

func vecs(k kind, dims map[string][]int, names ...string) []Vector {
	r := make([]Vector, len(names))
	for i, n := range names {
		r[i] = k.vector(dims[n][0])
	}
	return r
}

func mats(k kind, dims map[string][]int, names ...string) []Matrix {
	r := make([]Matrix, len(names))
	for i, n := range names {
		r[i] = k.matrix(dims[n][0], dims[n][1])
	}
	return r
}

var dimOps = []dimOp{
	{name: "VaddV", args: map[string][]string{"r": {"n"}, "a": {"n"}, "b": {"n"}}, call: func(k kind, d map[string][]int) (interface{}, func() error) {
		v := vecs(k, d, "r", "a", "b")
		return v[0], func() error {
			v[0].VaddV(v[1], v[2])
			return nil
		}
	}},
	{name: "VsubV", args: map[string][]string{"r": {"n"}, "a": {"n"}, "b": {"n"}}, call: func(k kind, d map[string][]int) (interface{}, func() error) {
		v := vecs(k, d, "r", "a", "b")
		return v[0], func() error {
			v[0].VsubV(v[1], v[2])
			return nil
		}
	}},
	{name: "VmulV", args: map[string][]string{"r": {"n"}, "a": {"n"}, "b": {"n"}}, call: func(k kind, d map[string][]int) (interface{}, func() error) {
		v := vecs(k, d, "r", "a", "b")
		return v[0], func() error {
			v[0].VmulV(v[1], v[2])
			return nil
		}
	}},
	{name: "VdivV", args: map[string][]string{"r": {"n"}, "a": {"n"}, "b": {"n"}}, call: func(k kind, d map[string][]int) (interface{}, func() error) {
		v := vecs(k, d, "r", "a", "b")
		return v[0], func() error {
			v[0].VdivV(v[1], v[2])
			return nil
		}
	}},
	{name: "VaddS", args: map[string][]string{"r": {"n"}, "a": {"n"}}, call: func(k kind, d map[string][]int) (interface{}, func() error) {
		v := vecs(k, d, "r", "a")
		return v[0], func() error {
			v[0].VaddS(v[1], ConstFloat64(2))
			return nil
		}
	}},
	{name: "VmulS", args: map[string][]string{"r": {"n"}, "a": {"n"}}, call: func(k kind, d map[string][]int) (interface{}, func() error) {
		v := vecs(k, d, "r", "a")
		return v[0], func() error {
			v[0].VmulS(v[1], ConstFloat64(2))
			return nil
		}
	}},
	{name: "Vector.Set", args: map[string][]string{"r": {"n"}, "a": {"n"}}, call: func(k kind, d map[string][]int) (interface{}, func() error) {
		v := vecs(k, d, "r", "a")
		return v[0], func() error {
			v[0].Set(v[1])
			return nil
		}
	}},
	{name: "VdotV", args: map[string][]string{"a": {"n"}, "b": {"n"}}, call: func(k kind, d map[string][]int) (interface{}, func() error) {
		v := vecs(k, d, "a", "b")
		return nil, func() error {
			NullScalar(k.st.T).VdotV(v[0], v[1])
			return nil
		}
	}},
	{name: "MdotV", args: map[string][]string{"r": {"n"}, "a": {"n", "m"}, "b": {"m"}}, call: func(k kind, d map[string][]int) (interface{}, func() error) {
		v := vecs(k, d, "r", "b")
		m := mats(k, d, "a")
		return v[0], func() error {
			v[0].MdotV(m[0], v[1])
			return nil
		}
	}},
	{name: "VdotM", args: map[string][]string{"r": {"m"}, "a": {"n"}, "b": {"n", "m"}}, call: func(k kind, d map[string][]int) (interface{}, func() error) {
		v := vecs(k, d, "r", "a")
		m := mats(k, d, "b")
		return v[0], func() error {
			v[0].VdotM(v[1], m[0])
			return nil
		}
	}},
	{name: "MaddM", args: map[string][]string{"r": {"n", "m"}, "a": {"n", "m"}, "b": {"n", "m"}}, call: func(k kind, d map[string][]int) (interface{}, func() error) {
		m := mats(k, d, "r", "a", "b")
		return m[0], func() error {
			m[0].MaddM(m[1], m[2])
			return nil
		}
	}},
	{name: "MsubM", args: map[string][]string{"r": {"n", "m"}, "a": {"n", "m"}, "b": {"n", "m"}}, call: func(k kind, d map[string][]int) (interface{}, func() error) {
		m := mats(k, d, "r", "a", "b")
		return m[0], func() error {
			m[0].MsubM(m[1], m[2])
			return nil
		}
	}},
	{name: "MmulM", args: map[string][]string{"r": {"n", "m"}, "a": {"n", "m"}, "b": {"n", "m"}}, call: func(k kind, d map[string][]int) (interface{}, func() error) {
		m := mats(k, d, "r", "a", "b")
		return m[0], func() error {
			m[0].MmulM(m[1], m[2])
			return nil
		}
	}},
	{name: "MdivM", args: map[string][]string{"r": {"n", "m"}, "a": {"n", "m"}, "b": {"n", "m"}}, call: func(k kind, d map[string][]int) (interface{}, func() error) {
		m := mats(k, d, "r", "a", "b")
		return m[0], func() error {
			m[0].MdivM(m[1], m[2])
			return nil
		}
	}},
	{name: "MaddS", args: map[string][]string{"r": {"n", "m"}, "a": {"n", "m"}}, call: func(k kind, d map[string][]int) (interface{}, func() error) {
		m := mats(k, d, "r", "a")
		return m[0], func() error {
			m[0].MaddS(m[1], ConstFloat64(2))
			return nil
		}
	}},
	{name: "MmulS", args: map[string][]string{"r": {"n", "m"}, "a": {"n", "m"}}, call: func(k kind, d map[string][]int) (interface{}, func() error) {
		m := mats(k, d, "r", "a")
		return m[0], func() error {
			m[0].MmulS(m[1], ConstFloat64(2))
			return nil
		}
	}},
	{name: "Matrix.Set", args: map[string][]string{"r": {"n", "m"}, "a": {"n", "m"}}, call: func(k kind, d map[string][]int) (interface{}, func() error) {
		m := mats(k, d, "r", "a")
		return m[0], func() error {
			m[0].Set(m[1])
			return nil
		}
	}},
	{name: "MdotM", args: map[string][]string{"r": {"n", "m"}, "a": {"n", "k"}, "b": {"k", "m"}}, call: func(k kind, d map[string][]int) (interface{}, func() error) {
		m := mats(k, d, "r", "a", "b")
		return m[0], func() error {
			m[0].MdotM(m[1], m[2])
			return nil
		}
	}},
	{name: "Outer", args: map[string][]string{"r": {"n", "m"}, "a": {"n"}, "b": {"m"}}, call: func(k kind, d map[string][]int) (interface{}, func() error) {
		m := mats(k, d, "r")
		v := vecs(k, d, "a", "b")
		return m[0], func() error {
			m[0].Outer(v[0], v[1])
			return nil
		}
	}},
	{name: "Mtrace (square)", args: map[string][]string{"a": {"n", "n"}}, call: func(k kind, d map[string][]int) (interface{}, func() error) {
		m := mats(k, d, "a")
		return m[0], func() error {
			NullScalar(k.st.T).Mtrace(m[0])
			return nil
		}
	}},
	{name: "SymmetricPermutation (square)", args: map[string][]string{"a": {"n", "n"}}, call: func(k kind, d map[string][]int) (interface{}, func() error) {
		m := mats(k, d, "a")
		pi := make([]int, d["a"][0])
		return m[0], func() error {
			for i := range pi {
				pi[i] = i
			}
			return m[0].SymmetricPermutation(pi)
		}
	}},
	{name: "Vector.Permute", args: map[string][]string{"r": {"n"}, "pi": {"n"}}, call: func(k kind, d map[string][]int) (interface{}, func() error) {
		v := vecs(k, d, "r")
		pi := make([]int, d["pi"][0])
		return v[0], func() error {
			for i := range pi {
				pi[i] = i
			}
			return v[0].Permute(pi)
		}
	}},
	{name: "PermuteRows", args: map[string][]string{"r": {"n", "m"}, "pi": {"n"}}, call: func(k kind, d map[string][]int) (interface{}, func() error) {
		m := mats(k, d, "r")
		pi := make([]int, d["pi"][0])
		return m[0], func() error {
			for i := range pi {
				pi[i] = i
			}
			return m[0].PermuteRows(pi)
		}
	}},
	{name: "PermuteColumns", args: map[string][]string{"r": {"n", "m"}, "pi": {"m"}}, call: func(k kind, d map[string][]int) (interface{}, func() error) {
		m := mats(k, d, "r")
		pi := make([]int, d["pi"][0])
		return m[0], func() error {
			for i := range pi {
				pi[i] = i
			}
			return m[0].PermuteColumns(pi)
		}
	}},
}

func TestC20_dimension_mismatch_is_loud(t *testing.T) {
	rapid.Check(t, func(t *rapid.T) {
		op := dimOps[rapid.IntRange(0, len(dimOps)-1).Draw(t, "op")]
		k := drawKind(t, "kind")
		base := map[string]int{"n": rapid.IntRange(1, 4).Draw(t, "n"), "m": rapid.IntRange(1, 4).Draw(t, "m"), "k": rapid.IntRange(1, 4).Draw(t, "k")}
		// operand names in a fixed order
		var names []string
		for _, n := range []string{"r", "a", "b", "pi"} {
			if _, ok := op.args[n]; ok {
				names = append(names, n)
			}
		}
		dims := map[string][]int{}
		for _, n := range names {
			for _, s := range op.args[n] {
				dims[n] = append(dims[n], base[s])
			}
		}
		// first the valid call: it must be accepted (otherwise the op table is wrong)
		if how := loud(func() error { _, run := op.call(k, dims); return run() }); how != "" {
			c := obs.Begin("dimension_mismatch_is_loud", "%s on %s with valid dimensions %v", op.name, k, dims)
			c.Classf("valid call rejected (not this property): %s sparse=%v %s: %s", op.name, k.sparse, k.st, how)
			c.SetDesc(c.Desc() + ": " + how)
			c.End()
			return
		}
		// perturb exactly one dimension of one operand
		who := names[rapid.IntRange(0, len(names)-1).Draw(t, "operand")]
		which := rapid.IntRange(0, len(dims[who])-1).Draw(t, "dimension")
		delta := rapid.SampledFrom([]string{"+1", "-1", "0", "+2"}).Draw(t, "perturbation")
		bad := map[string][]int{}
		for n, d := range dims {
			bad[n] = append([]int{}, d...)
		}
		old := bad[who][which]
		switch delta {
		case "+1":
			bad[who][which] = old + 1
		case "+2":
			bad[who][which] = old + 2
		case "-1":
			bad[who][which] = old - 1
		default:
			bad[who][which] = 0
		}
		if bad[who][which] == old || bad[who][which] < 0 {
			return
		}
		c := obs.Begin("dimension_mismatch_is_loud", "%s on %s dims=%v with %s[%d] changed to %d", op.name, k, dims, who, which, bad[who][which])
		c.Classf("op=%s", op.name)
		c.Classf("container=%v sparse=%v", k.st, k.sparse)
		c.Classf("perturbation=%s", delta)
		if k.view {
			c.Class("view receiver/operands")
		}
		c.NT(true)
		// square-only ops: a perturbation of one of the two tied dimensions makes it non-square
		if len(op.args[who]) == 2 && op.args[who][0] == op.args[who][1] {
			c.Class("non-square input where square is required")
		}
		var recv interface{}
		var before string
		how := loud(func() error {
			r, run := op.call(k, bad)
			recv, before = r, snapshot(r)
			return run()
		})
		if how != "" && recv != nil {
			if after := snapshot(recv); after != before {
				t.Fatalf("%s: the call was rejected (%s) but the receiver was modified from %s to %s", c.Desc(), how, before, after)
			}
		}
		if how == "" {
			if c.Known("C20/" + knownSilent(op.name, k)) {
				c.End()
				return
			}
			if os.Getenv("C20_SWEEP") != "" {
				c.Classf("SILENT %s sparse=%v view=%v who=%s", op.name, k.sparse, k.view, who)
				c.End()
				return
			}
			t.Fatalf("%s: the call returned normally (no panic, no error)", c.Desc())
		}
		if how[:5] == "panic" {
			c.Class("answered with a panic")
		} else {
			c.Class("answered with an error")
		}
		c.End()
	})
}

func snapshot(x interface{}) string {
	switch y := x.(type) {
	case ConstVector:
		r := fmt.Sprintf("dim=%d:", y.Dim())
		for i := 0; i < y.Dim(); i++ {
			r += fmt.Sprintf(" %v", y.ConstAt(i).GetFloat64())
		}
		return r
	case ConstMatrix:
		n, m := y.Dims()
		r := fmt.Sprintf("dims=%dx%d:", n, m)
		for i := 0; i < n; i++ {
			for j := 0; j < m; j++ {
				r += fmt.Sprintf(" %v", y.ConstAt(i, j).GetFloat64())
			}
		}
		return r
	}
	return ""
}

// ids of known silent acceptances (empty string: none)
func knownSilent(op string, k kind) string { return "silent-" + op }

// ---------------------------------------------------------------------------------------------
// (b) indices and slice bounds out of range

func TestC20_index_out_of_range_is_loud(t *testing.T) {
	rapid.Check(t, func(t *rapid.T) {
		k := drawKind(t, "kind")
		n, m := rapid.IntRange(1, 4).Draw(t, "n"), rapid.IntRange(1, 4).Draw(t, "m")
		op := rapid.SampledFrom([]string{"Vector.At", "Vector.ConstAt", "Vector.Float64At", "Vector.Slice", "Vector.Swap",
			"Matrix.At", "Matrix.ConstAt", "Matrix.Float64At", "Matrix.Row", "Matrix.Col", "Matrix.Slice", "Matrix.SwapRows", "Matrix.SwapColumns", "Matrix.Swap",
			"Vector.Permute (entry out of range)", "Vector.AsMatrix (wrong size)"}).Draw(t, "op")
		// an out-of-range index for dimension d
		oob := func(label string, d int) int {
			return rapid.SampledFrom([]int{-1, d, d + 1, d + 2, -5}).Draw(t, label)
		}
		i, j := oob("i", n), oob("j", m)
		inI, inJ := rapid.IntRange(0, n-1).Draw(t, "inI"), rapid.IntRange(0, m-1).Draw(t, "inJ")
		rowBad := rapid.Bool().Draw(t, "rowBad") // which of the two matrix indices is invalid
		c := obs.Begin("index_out_of_range_is_loud", "%s on %s %dx%d with index %d/%d (rowBad=%v)", op, k, n, m, i, j, rowBad)
		c.Classf("op=%s", op)
		if k.view {
			c.Class("view")
		}
		c.Classf("sparse=%v", k.sparse)
		c.NT(true)
		v := k.vector(n)
		a := k.matrix(n, m)
		mi, mj := i, inJ
		if !rowBad {
			mi, mj = inI, j
		}
		var leak float64
		how := loud(func() error {
			switch op {
			case "Vector.At":
				leak = v.At(i).GetFloat64()
			case "Vector.ConstAt":
				leak = v.ConstAt(i).GetFloat64()
			case "Vector.Float64At":
				leak = v.Float64At(i)
			case "Vector.Slice":
				if i < 0 || i > n { // i == n is a valid (empty) slice start
					v.Slice(i, n)
				} else {
					v.Slice(0, n+1+inI)
				}
			case "Vector.Swap":
				v.Swap(i, inI)
			case "Matrix.At":
				leak = a.At(mi, mj).GetFloat64()
			case "Matrix.ConstAt":
				leak = a.ConstAt(mi, mj).GetFloat64()
			case "Matrix.Float64At":
				leak = a.Float64At(mi, mj)
			case "Matrix.Row":
				a.Row(i)
			case "Matrix.Col":
				a.Col(j)
			case "Matrix.Slice":
				if rowBad {
					a.Slice(0, n+1+inI, 0, m)
				} else {
					a.Slice(0, n, 0, m+1+inJ)
				}
			case "Matrix.SwapRows":
				return a.SwapRows(i, inI)
			case "Matrix.SwapColumns":
				return a.SwapColumns(j, inJ)
			case "Matrix.Swap":
				a.Swap(mi, mj, inI, inJ)
			case "Vector.Permute (entry out of range)":
				pi := make([]int, n)
				for q := range pi {
					pi[q] = q
				}
				pi[inI] = i
				return v.Permute(pi)
			case "Vector.AsMatrix (wrong size)":
				v.AsMatrix(n+1, 1)
			}
			return nil
		})
		if how == "" {
			if leak == 777 {
				t.Fatalf("%s: the call returned normally and read the element 777 of the parent outside the view", c.Desc())
			}
			if c.Known("C20/silent-" + op) {
				c.End()
				return
			}
			if os.Getenv("C20_SWEEP") != "" {
				c.Classf("SILENT %s sparse=%v view=%v", op, k.sparse, k.view)
				c.End()
				return
			}
			t.Fatalf("%s: the call returned normally (value read: %v)", c.Desc(), leak)
		}
		c.End()
	})
}

// ---------------------------------------------------------------------------------------------
// (c) misuse of the differentiation interface

func TestC20_derivative_misuse_is_loud(t *testing.T) {
	rapid.Check(t, func(t *rapid.T) {
		st := gen.DrawType(t, "type", []gen.SType{gen.TReal64, gen.TReal32})
		what := rapid.SampledFrom([]string{"SetVariable order 3", "Variables order 3", "Alloc order 3", "dyadic with different N", "GetDerivative out of range", "GetHessian out of range", "SetVariable index out of range"}).Draw(t, "what")
		c := obs.Begin("derivative_misuse_is_loud", "%s on %s", what, st)
		c.Classf("what=%s", what)
		c.NT(true)
		x := st.NewMut(1.5).(MagicScalar)
		y := st.NewMut(2.5).(MagicScalar)
		var got float64
		how := loud(func() error {
			switch what {
			case "SetVariable order 3":
				return x.SetVariable(0, 2, 3)
			case "Variables order 3":
				return Variables(3, x, y)
			case "Alloc order 3":
				x.Alloc(2, 3)
				got = float64(x.GetOrder())
				if x.GetOrder() <= 2 {
					return fmt.Errorf("order clipped to %d", x.GetOrder()) // a documented maximal order is respected
				}
			case "dyadic with different N":
				x.Alloc(2, 1)
				x.SetDerivative(0, 1)
				y.Alloc(3, 1)
				y.SetDerivative(2, 1)
				r := st.NewMut(0)
				r.Mul(x, y)
				got = float64(r.GetN())
			case "GetDerivative out of range":
				x.Alloc(2, 1)
				got = x.GetDerivative(2)
			case "GetHessian out of range":
				x.Alloc(2, 2)
				got = x.GetHessian(0, 2)
			case "SetVariable index out of range":
				return x.SetVariable(3, 2, 1)
			}
			return nil
		})
		if how == "" {
			if c.Known("C20/silent-" + what) {
				c.End()
				return
			}
			if os.Getenv("C20_SWEEP") != "" {
				c.Classf("SILENT %s %s", what, st)
				c.End()
				return
			}
			t.Fatalf("%s: the call returned normally (observed %v)", c.Desc(), got)
		}
		c.End()
	})
}

var _ = math.Inf

// ---------------------------------------------------------------------------------------------
// (d) iterative linear algebra terminates on structured inputs (default options)

func structured(t *rapid.T, n int) (model.Mat, string) {
	a := model.NewMat(n, n)
	kind := rapid.SampledFrom([]string{"zero", "identity", "scalar multiple of identity", "nilpotent Jordan block", "defective (Jordan blocks)", "repeated eigenvalues (symmetric)",
		"rank deficient", "tiny scaling", "huge scaling", "symmetric indefinite", "rotation (complex eigenvalues)", "random integer", "ones"}).Draw(t, "structure")
	switch kind {
	case "identity":
		for i := 0; i < n; i++ {
			a[i][i] = 1
		}
	case "scalar multiple of identity":
		s := rapid.SampledFrom([]float64{-3, 0.5, 7, 1e-8, 1e8}).Draw(t, "scalar")
		for i := 0; i < n; i++ {
			a[i][i] = s
		}
	case "nilpotent Jordan block":
		for i := 0; i+1 < n; i++ {
			a[i][i+1] = 1
		}
	case "defective (Jordan blocks)":
		l := rapid.SampledFrom([]float64{2, -1, 0.5}).Draw(t, "lambda")
		for i := 0; i < n; i++ {
			a[i][i] = l
			if i+1 < n && rapid.Bool().Draw(t, "link") {
				a[i][i+1] = 1
			}
		}
	case "repeated eigenvalues (symmetric)":
		q := gen.Orthogonal(t, "Q", n)
		lam := make([]float64, n)
		for i := range lam {
			lam[i] = float64(rapid.IntRange(1, 2).Draw(t, "lam"))
		}
		for i := 0; i < n; i++ {
			for j := 0; j < n; j++ {
				for k := 0; k < n; k++ {
					a[i][j] += q[i][k] * lam[k] * q[j][k]
				}
			}
		}
		for i := 0; i < n; i++ {
			for j := 0; j < i; j++ {
				a[i][j] = a[j][i]
			}
		}
	case "rank deficient":
		for i := 0; i < n; i++ {
			for j := 0; j < n; j++ {
				a[i][j] = float64((i + 1) * (j + 2))
			}
		}
	case "tiny scaling", "huge scaling":
		s := 1e-150
		if kind == "huge scaling" {
			s = 1e150
		}
		for i := 0; i < n; i++ {
			for j := 0; j < n; j++ {
				a[i][j] = s * float64(rapid.IntRange(-3, 3).Draw(t, "e"))
			}
		}
	case "symmetric indefinite":
		for i := 0; i < n; i++ {
			for j := i; j < n; j++ {
				a[i][j] = float64(rapid.IntRange(-3, 3).Draw(t, "e"))
				a[j][i] = a[i][j]
			}
		}
	case "rotation (complex eigenvalues)":
		for i := 0; i+1 < n; i += 2 {
			a[i][i+1], a[i+1][i] = -1, 1
		}
		if n%2 == 1 {
			a[n-1][n-1] = 1
		}
	case "random integer":
		for i := 0; i < n; i++ {
			for j := 0; j < n; j++ {
				a[i][j] = float64(rapid.IntRange(-3, 3).Draw(t, "e"))
			}
		}
	case "ones":
		for i := 0; i < n; i++ {
			for j := 0; j < n; j++ {
				a[i][j] = 1
			}
		}
	}
	return a, kind
}

var iterativeRoutines = []string{"qrAlgorithm", "qrAlgorithm(ComputeU)", "qrAlgorithm(Symmetric)", "eigensystem", "eigensystem(Symmetric)", "svd", "svd(U,V)", "msqrt", "msqrtInv",
	"matrixInverse", "determinant", "cholesky", "cholesky(LDL,ForcePD)", "hessenbergReduction", "householderBidiagonalization", "householderTridiagonalization", "gramSchmidt"}

func TestC20_linear_algebra_terminates(t *testing.T) {
	rapid.Check(t, func(t *rapid.T) {
		routine := rapid.SampledFrom(iterativeRoutines).Draw(t, "routine")
		n := rapid.IntRange(0, 6).Draw(t, "n")
		a, structure := structured(t, n)
		st := gen.DrawType(t, "elem", []gen.SType{gen.TFloat64, gen.TReal64})
		c := obs.Begin("linear_algebra_terminates", "%s on %s %s n=%d A=%v", routine, st, structure, n, a)
		c.Classf("routine=%s", routine)
		c.Classf("structure=%s", structure)
		c.Classf("n=%d", n)
		c.NT(n >= 2)
		symmetric := true
		for i := 0; i < n; i++ {
			for j := 0; j < n; j++ {
				symmetric = symmetric && a[i][j] == a[j][i]
			}
		}
		if !symmetric && (routine == "qrAlgorithm(Symmetric)" || routine == "eigensystem(Symmetric)" || routine == "householderTridiagonalization") {
			c.Class("not applicable: symmetric routine on a non-symmetric matrix")
			c.End()
			return
		}
		if n == 0 && c.Known("C20/empty-matrix-input") {
			c.End()
			return
		}
		am := gen.ToDense(st, a)
		if id := "C20/" + routine + "-does-not-terminate-on-" + structure; obs.IsOpen(id) {
			c.Class("excluded: known non-termination")
			c.End()
			return
		}
		t0 := time.Now()
		p, to := terminates(func() { runRoutine(routine, am) }, 4*time.Second)
		if el := time.Since(t0); el > 300*time.Millisecond {
			c.Classf("slow (> 0.3 s): %s on %s", routine, structure)
			if os.Getenv("C20_SWEEP") != "" {
				fmt.Fprintf(os.Stderr, "SLOW %v %s\n", el, c.Desc())
			}
		}
		if to {
			fmt.Fprintf(os.Stderr, "NON-TERMINATION %s\n", c.Desc())
			t.Fatalf("%s: did not return within 4 s and, in a second attempt, 12 s", c.Desc())
		}
		if p != "" {
			c.Class("answered with a panic")
		}
		c.End()
	})
}

func runRoutine(routine string, am Matrix) {
	switch routine {
	case "qrAlgorithm":
		qrAlgorithm.Run(am)
	case "qrAlgorithm(ComputeU)":
		qrAlgorithm.Run(am, qrAlgorithm.ComputeU{Value: true})
	case "qrAlgorithm(Symmetric)":
		qrAlgorithm.Run(am, qrAlgorithm.Symmetric{Value: true}, qrAlgorithm.ComputeU{Value: true})
	case "eigensystem":
		eigensystem.Run(am)
	case "eigensystem(Symmetric)":
		eigensystem.Run(am, eigensystem.Symmetric{Value: true})
	case "svd":
		svd.Run(am)
	case "svd(U,V)":
		svd.Run(am, svd.ComputeU{Value: true}, svd.ComputeV{Value: true})
	case "msqrt":
		msqrt.Run(am)
	case "msqrtInv":
		msqrtInv.Run(am)
	case "matrixInverse":
		matrixInverse.Run(am)
	case "determinant":
		determinant.Run(am)
	case "cholesky":
		cholesky.Run(am)
	case "cholesky(LDL,ForcePD)":
		cholesky.Run(am, cholesky.LDL{Value: true}, cholesky.ForcePD{Value: true})
	case "hessenbergReduction":
		hessenbergReduction.Run(am, hessenbergReduction.ComputeU{Value: true})
	case "householderBidiagonalization":
		householderBidiagonalization.Run(am, householderBidiagonalization.ComputeU{Value: true}, householderBidiagonalization.ComputeV{Value: true})
	case "householderTridiagonalization":
		householderTridiagonalization.Run(am, householderTridiagonalization.ComputeU{Value: true})
	case "gramSchmidt":
		gramSchmidt.Run(am)
	}
}

// ---------------------------------------------------------------------------------------------
// (e) optimisation loops terminate on objectives that misbehave (default iteration caps)

func TestC20_optimizers_terminate(t *testing.T) {
	rapid.Check(t, func(t *rapid.T) {
		routine := rapid.SampledFrom([]string{"bfgs", "newton.RunMin", "newton.RunCrit", "newton.RunRoot", "rprop", "gradientDescent", "adam", "lineSearch"}).Draw(t, "routine")
		behaviour := rapid.SampledFrom([]string{"NaN value", "NaN gradient", "Inf value", "error", "constant", "constraints never satisfied again"}).Draw(t, "behaviour")
		from := rapid.IntRange(1, 6).Draw(t, "fromEvaluation")
		n := rapid.IntRange(1, 3).Draw(t, "n")
		x0 := make([]float64, n)
		for i := range x0 {
			x0[i] = rapid.Float64Range(-2, 2).Draw(t, fmt.Sprintf("x0[%d]", i))
		}
		c := obs.Begin("optimizers_terminate", "%s on a quadratic that shows '%s' from evaluation %d on, n=%d x0=%v", routine, behaviour, from, n, x0)
		c.Classf("routine=%s", routine)
		c.Classf("behaviour=%s", behaviour)
		c.NT(true)
		// every attempt gets its own counters (an abandoned attempt may still be running)
		mk := func() (func(x ConstVector) (MagicScalar, error), func(x Vector) bool) {
			evals := 0
			// f(x) = sum (x_i - 1)^2, misbehaving from the given evaluation on
			f := func(x ConstVector) (MagicScalar, error) {
				evals++
				ty := x.ElementType()
				r, d := NullScalar(ty), NullScalar(ty)
				for i := 0; i < x.Dim(); i++ {
					d.Sub(x.ConstAt(i), ConstFloat64(1))
					d.Mul(d, d)
					r.Add(r, d)
				}
				if evals >= from {
					switch behaviour {
					case "NaN value":
						r.Mul(r, ConstFloat64(math.NaN()))
					case "NaN gradient":
						d.Sub(x.ConstAt(0), x.ConstAt(0))
						d.Div(d, d) // 0/0 with derivative NaN
						r.Add(r, d)
					case "Inf value":
						r.Add(r, ConstFloat64(math.Inf(1)))
					case "error":
						return nil, fmt.Errorf("objective failed")
					case "constant":
						r.Mul(r, ConstFloat64(0))
					}
				}
				return r.(MagicScalar), nil
			}
			consCalls := 0
			cons := func(x Vector) bool {
				consCalls++
				return behaviour != "constraints never satisfied again" || consCalls <= 1
			}
			return f, cons
		}
		x0v := NewDenseFloat64Vector(x0)
		run := func() {
			f, cons := mk()
			switch routine {
			case "bfgs":
				bfgs.Run(f, x0v, bfgs.Constraints{Value: cons})
			case "newton.RunMin":
				newton.RunMin(f, x0v, newton.Constraints{Value: cons})
			case "newton.RunCrit":
				newton.RunCrit(f, x0v, newton.Constraints{Value: cons})
			case "newton.RunRoot":
				newton.RunRoot(func(x ConstVector) (MagicVector, error) {
					y, err := f(x)
					if err != nil {
						return nil, err
					}
					r := NullDenseVector(x.ElementType(), x.Dim())
					for i := 0; i < x.Dim(); i++ {
						r.At(i).Sub(x.ConstAt(i), ConstFloat64(1))
						r.At(i).Add(r.At(i), y)
						r.At(i).Sub(r.At(i), ConstFloat64(y.GetFloat64()))
					}
					return r.(MagicVector), nil
				}, x0v, newton.Constraints{Value: cons})
			case "rprop":
				rprop.Run(f, x0v, 0.01, []float64{1.2, 0.8}, rprop.Constraints{Value: cons})
			case "gradientDescent":
				gradientDescent.Run(f, x0v, 0.1)
			case "adam":
				adam.Run(f, x0v, adam.StepSize{Value: 0.05}, adam.Constraints{Value: cons})
			case "lineSearch":
				lineSearch.Run(func(a ConstScalar) (MagicScalar, error) {
					x := NullDenseVector(a.Type(), n)
					for i := 0; i < n; i++ {
						x.At(i).Mul(a, ConstFloat64(1-x0[i]))
						x.At(i).Add(x.At(i), ConstFloat64(x0[i]))
					}
					return f(x)
				}, Float64Type, lineSearch.Constraints{Value: func(a ConstScalar) bool { return cons(nil) }})
			}
		}
		if id := "C20/" + routine + "-does-not-terminate-on-" + behaviour; obs.IsOpen(id) {
			c.Class("excluded: known non-termination")
			c.End()
			return
		}
		t0 := time.Now()
		p, to := terminates(run, 4*time.Second)
		if el := time.Since(t0); el > 300*time.Millisecond && os.Getenv("C20_SWEEP") != "" {
			fmt.Fprintf(os.Stderr, "SLOW %v %s\n", el, c.Desc())
		}
		if to {
			fmt.Fprintf(os.Stderr, "NON-TERMINATION %s\n", c.Desc())
			if os.Getenv("C20_SWEEP") != "" {
				c.Classf("NON-TERMINATION %s %s", routine, behaviour)
				c.End()
				return
			}
			t.Fatalf("%s: did not return within 4 s and, in a second attempt, 12 s", c.Desc())
		}
		if p != "" {
			c.Class("answered with a panic")
		}
		c.End()
	})
}

// ---------------------------------------------------------------------------------------------
// witnesses

func hangs(f func()) bool {
	done := make(chan bool, 1)
	go func() {
		defer func() { recover(); done <- true }()
		f()
	}()
	select {
	case <-done:
		return false
	case <-time.After(5 * time.Second):
		return true
	}
}

func TestKF_slice_out_of_bounds(t *testing.T) {
	p := NewDenseFloat64Vector([]float64{777, 1, 2, 777, 777})
	v := p.Slice(1, 3)
	how := loud(func() error { v.Slice(0, 3); return nil })
	m := NullDenseFloat64Matrix(2, 2)
	how2 := loud(func() error { m.Slice(0, 3, 0, 2); return nil })
	obs.KFStatus("C20/slice-bounds-outside-the-object-accepted", how == "" || how2 == "", fmt.Sprintf("vector: %q matrix: %q", how, how2))
}

func TestKF_permute_wrong_length(t *testing.T) {
	m := NullDenseFloat64Matrix(2, 2)
	how := loud(func() error { return m.PermuteRows([]int{0, 1, 2}) })
	obs.KFStatus("C20/permuterows-accepts-a-permutation-of-the-wrong-length", how == "", how)
}

func TestKF_alloc_order3(t *testing.T) {
	x := NewReal64(1)
	how := loud(func() error { x.Alloc(2, 3); return nil })
	obs.KFStatus("C20/alloc-accepts-unsupported-derivative-orders", how == "", how)
}

func hugeMatrix() Matrix {
	a := [][]float64{{1, -2, 2, -2, -3, -3}, {1, -3, -1, 3, -3, 1}, {-3, -1, 0, 1, 1, 2}, {-2, -1, -1, 3, 1, 0}, {-3, 3, -2, 3, -2, 3}, {-2, 3, -1, 2, -2, 0}}
	m := NullDenseFloat64Matrix(6, 6)
	for i := range a {
		for j := range a[i] {
			m.At(i, j).SetFloat64(1e150 * a[i][j])
		}
	}
	return m
}

func TestKF_qr_algorithm_spins(t *testing.T) {
	h := hangs(func() { qrAlgorithm.Run(hugeMatrix(), qrAlgorithm.ComputeU{Value: true}) })
	obs.KFStatus("C20/qr-algorithm-has-no-iteration-bound", h, "")
}

func TestKF_svd_spins(t *testing.T) {
	h := hangs(func() { svd.Run(hugeMatrix()) })
	obs.KFStatus("C20/svd-has-no-iteration-bound", h, "")
}

func TestKF_msqrtinv_spins(t *testing.T) {
	h := false
	for _, m := range []Matrix{NewDenseFloat64Matrix([]float64{-4}, 1, 1), NewDenseFloat64Matrix([]float64{-1, 0, 0, 2}, 2, 2), NewDenseFloat64Matrix([]float64{-2, -3, 3, -3, 0, 3, 3, 3, 0}, 3, 3)} {
		m := m
		h = h || hangs(func() { msqrtInv.Run(m) }) || hangs(func() { msqrt.Run(m) })
	}
	obs.KFStatus("C20/msqrt-iterations-have-no-bound", h, "")
}

func nanFrom(k int, what string) func(x ConstVector) (MagicScalar, error) {
	evals := 0
	return func(x ConstVector) (MagicScalar, error) {
		evals++
		ty := x.ElementType()
		r, d := NullScalar(ty), NullScalar(ty)
		for i := 0; i < x.Dim(); i++ {
			d.Sub(x.ConstAt(i), ConstFloat64(1))
			d.Mul(d, d)
			r.Add(r, d)
		}
		if evals >= k {
			if what == "error" {
				return nil, fmt.Errorf("objective failed")
			}
			r.Mul(r, ConstFloat64(math.NaN()))
		}
		return r.(MagicScalar), nil
	}
}

func TestKF_bfgs_nan_spins(t *testing.T) {
	h := hangs(func() { bfgs.Run(nanFrom(3, "nan"), NewDenseFloat64Vector([]float64{2})) })
	obs.KFStatus("C20/bfgs-loops-forever-on-nan", h, "")
}

func TestKF_rprop_invalid_spins(t *testing.T) {
	h := hangs(func() {
		rprop.Run(nanFrom(2, "error"), NewDenseFloat64Vector([]float64{2, -2}), 0.01, []float64{1.2, 0.8})
	})
	obs.KFStatus("C20/rprop-backtracking-has-no-bound", h, "")
}

func TestKF_linesearch_constraints_spin(t *testing.T) {
	calls := 0
	h := hangs(func() {
		lineSearch.Run(func(a ConstScalar) (MagicScalar, error) {
			r := NullScalar(a.Type())
			r.Sub(a, ConstFloat64(1))
			r.Mul(r, r)
			return r.(MagicScalar), nil
		}, Float64Type, lineSearch.Constraints{Value: func(ConstScalar) bool { calls++; return false }})
	})
	obs.KFStatus("C20/line-search-halves-the-step-forever", h, "")
}

func TestKF_newton_backtracking_spins(t *testing.T) {
	calls := 0
	h := hangs(func() {
		newton.RunCrit(nanFrom(1000000, "nan"), NewDenseFloat64Vector([]float64{0.004431694746017456, 0}), newton.Constraints{Value: func(Vector) bool { calls++; return calls <= 1 }})
	})
	obs.KFStatus("C20/newton-constraint-backtracking-has-no-bound", h, "")
}
