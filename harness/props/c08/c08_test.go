// C08 — results do not depend on the receiver aliasing an operand.
//
// Differential oracle: the same operation on deep copies of the operands with a fresh receiver.
package c08

import (
	"fmt"
	"os"
	"testing"

	. "github.com/pbenner/autodiff"
	"pgregory.net/rapid"
	"verifharness/gen"
	"verifharness/model"
	"verifharness/obs"
	"verifharness/scal"
)

func TestMain(m *testing.M) {
	code := m.Run()
	obs.Flush()
	os.Exit(code)
}

func call(f func()) (perr string) {
	defer func() {
		if r := recover(); r != nil {
			perr = fmt.Sprint(r)
			if len(perr) > 100 {
				perr = perr[:100]
			}
		}
	}()
	f()
	return ""
}

var patterns = []string{"r≡a", "r≡b", "r≡a≡b", "a≡b"}

// scalar operand with derivative content; values in the op's domain
func drawOperand(t *rapid.T, label string, st gen.SType, v float64, dm gen.DerivMode) gen.Elem {
	e := gen.Elem{V: st.Conv(v), Stored: true}
	if dm.Order >= 1 {
		e.Order = dm.Order
		e.G = make([]float64, dm.NVar)
		for i := range e.G {
			e.G[i] = float64(rapid.IntRange(-4, 4).Draw(t, label+".g")) / 4
		}
		if dm.Order >= 2 {
			e.H = make([][]float64, dm.NVar)
			for i := range e.H {
				e.H[i] = make([]float64, dm.NVar)
			}
			for i := 0; i < dm.NVar; i++ {
				for j := i; j < dm.NVar; j++ {
					h := float64(rapid.IntRange(-4, 4).Draw(t, label+".h")) / 2
					e.H[i][j], e.H[j][i] = h, h
				}
			}
		}
	}
	return e
}

func scalarAlias(t *rapid.T, aspect string, mismatch bool, multiOnly bool) {
	var op *scal.Op
	for {
		op = &scal.Ops[rapid.IntRange(0, len(scal.Ops)-1).Draw(t, "op")]
		if !multiOnly || op.MultiStep {
			break
		}
	}
	st := gen.DrawType(t, "type", []gen.SType{gen.TReal64, gen.TReal64, gen.TReal32, gen.TFloat64, gen.TFloat32})
	args := op.Draw(t, st.Bits == 64)
	pat := "r≡a"
	if op.Arity == 2 {
		pat = patterns[rapid.IntRange(0, len(patterns)-1).Draw(t, "pattern")]
	}
	dmA := gen.DerivMode{}
	dmB := gen.DerivMode{}
	if st.IsReal() {
		dmA = gen.DerivMode{Order: rapid.IntRange(0, 2).Draw(t, "orderA"), NVar: 2}
		dmB = dmA
		if mismatch && op.Arity == 2 {
			dmB = gen.DerivMode{Order: rapid.IntRange(0, 2).Draw(t, "orderB"), NVar: 2}
		}
	}
	if pat == "r≡a≡b" || pat == "a≡b" {
		args.Y = args.X
		dmB = dmA
		if op.Name == "LogSub" {
			// a≡b gives log(0): fine, both runs agree on -Inf; keep
		}
	}
	ea := drawOperand(t, "a", st, args.X, dmA)
	eb := drawOperand(t, "b", st, args.Y, dmB)
	if pat == "r≡a≡b" || pat == "a≡b" {
		eb = ea
	}
	// receiver kind for the non-aliased receiver
	rk := rapid.SampledFrom([]string{"constant", "same order", "other order"}).Draw(t, "receiverKind")
	c := obs.Begin(aspect, "%s %s type=%s a=%s b=%s extra=%v receiver=%s", op.Name, pat, st, ea, eb, args.Extra, rk)
	c.Classf("op=%s", op.Name)
	c.Classf("pattern=%s", pat)
	c.Classf("type=%s", st)
	if dmA.Order != dmB.Order {
		c.Class("operand orders differ")
	}
	mkRecv := func() Scalar {
		r := st.NewMut(7)
		if m, ok := r.(MagicScalar); ok {
			switch rk {
			case "same order":
				m.Alloc(2, dmA.Order)
			case "other order":
				m.Alloc(2, (dmA.Order+1)%3)
			}
			if m.GetOrder() >= 1 {
				m.SetDerivative(0, 9)
			}
		}
		return r
	}
	tmps := func() []Scalar {
		var r []Scalar
		for i := 0; i < op.Temps; i++ {
			r = append(r, st.NewMut(0))
		}
		return r
	}
	// reference: fresh receiver, distinct operand objects
	ref := mkRecv()
	refA, refB := ea.Scalar(st), eb.Scalar(st)
	var refBc ConstScalar = refB
	if op.Arity == 1 {
		refBc = nil
	}
	pRef := call(func() { op.Call(ref, refA, refBc, args.Extra, tmps()) })
	// aliased run
	a, b := ea.Scalar(st), eb.Scalar(st)
	var r Scalar
	var ac, bc ConstScalar = a, b
	switch pat {
	case "r≡a":
		r = a
	case "r≡b":
		r, bc = b, b
	case "r≡a≡b":
		r, bc = a, a
	case "a≡b":
		r, bc = mkRecv(), a
	}
	if op.Arity == 1 {
		bc = nil
	}
	pGot := call(func() { op.Call(r, ac, bc, args.Extra, tmps()) })
	c.NT(ea.V != ref.GetFloat64() || pat == "r≡b")
	if (pRef == "") != (pGot == "") {
		t.Fatalf("%s: panic behaviour differs: fresh receiver %q, aliased %q", c.Desc(), pRef, pGot)
	}
	if pRef != "" {
		c.Class("both panic")
		c.End()
		return
	}
	want, got := model.ObsScalar(ref), model.ObsScalar(r)
	if want.Canon() != got.Canon() {
		t.Fatalf("%s: aliased receiver %v differs from fresh-receiver result %v", c.Desc(), got, want)
	}
	c.End()
}

func TestC08_scalar_alias(t *testing.T) {
	rapid.Check(t, func(t *rapid.T) { scalarAlias(t, "scalar_alias", false, false) })
}

func TestC08_scalar_alias_order_mismatch(t *testing.T) {
	rapid.Check(t, func(t *rapid.T) { scalarAlias(t, "scalar_alias_order_mismatch", true, false) })
}

func TestC08_scalar_multistep_ops(t *testing.T) {
	rapid.Check(t, func(t *rapid.T) { scalarAlias(t, "scalar_multistep_ops", false, true) })
}

// ---------------------------------------------------------------------------------------------
// vectors

type vop struct {
	name   string
	scalar bool
	div    bool
	call   func(r Vector, a, b ConstVector, s ConstScalar)
}

var vops = []vop{
	{"VaddV", false, false, func(r Vector, a, b ConstVector, s ConstScalar) { r.VaddV(a, b) }},
	{"VsubV", false, false, func(r Vector, a, b ConstVector, s ConstScalar) { r.VsubV(a, b) }},
	{"VmulV", false, false, func(r Vector, a, b ConstVector, s ConstScalar) { r.VmulV(a, b) }},
	{"VdivV", false, true, func(r Vector, a, b ConstVector, s ConstScalar) { r.VdivV(a, b) }},
	{"VaddS", true, false, func(r Vector, a, b ConstVector, s ConstScalar) { r.VaddS(a, s) }},
	{"VsubS", true, false, func(r Vector, a, b ConstVector, s ConstScalar) { r.VsubS(a, s) }},
	{"VmulS", true, false, func(r Vector, a, b ConstVector, s ConstScalar) { r.VmulS(a, s) }},
	{"VdivS", true, true, func(r Vector, a, b ConstVector, s ConstScalar) { r.VdivS(a, s) }},
}

func drawContainerType(t *rapid.T) gen.SType {
	return gen.DrawType(t, "elem", []gen.SType{gen.TFloat64, gen.TReal64, gen.TFloat64, gen.TReal64, gen.TFloat32, gen.TInt})
}

func TestC08_vector_alias(t *testing.T) {
	rapid.Check(t, func(t *rapid.T) {
		op := vops[rapid.IntRange(0, len(vops)-1).Draw(t, "op")]
		st := drawContainerType(t)
		dm := gen.DrawDerivMode(t, "dm", st)
		n := rapid.IntRange(1, 6).Draw(t, "n")
		sparse := rapid.Bool().Draw(t, "sparse")
		pat := "r≡a"
		if !op.scalar {
			pat = patterns[rapid.IntRange(0, 2).Draw(t, "pattern")]
		}
		// for division every participant that can become the divisor is non-zero
		a := gen.DrawVec(t, "a", st, sparse, n, dm, op.div && pat == "r≡a≡b")
		b := gen.DrawVec(t, "b", st, rapid.Bool().Draw(t, "bSparse"), n, dm, op.div)
		if pat == "r≡b" || pat == "r≡a≡b" {
			b.Sparse = sparse
		}
		if st.IsInt() && op.div {
			for i := range b.E {
				b.E[i].V = 1
			}
			if pat == "r≡a≡b" {
				for i := range a.E {
					a.E[i].V = 1
				}
			}
		}
		sv := gen.DrawVec(t, "s", st, false, 1, dm, true)
		if st.IsInt() && op.div {
			sv.E[0].V = 1
		}
		s := sv.E[0]
		c := obs.Begin("vector_alias", "%s %s a=%s b=%s s=%s", op.name, pat, a, b, s)
		c.Classf("op=%s", op.name)
		c.Classf("pattern=%s", pat)
		c.Classf("storage=%v", map[bool]string{true: "sparse", false: "dense"}[sparse])
		// reference
		var ref Vector
		if sparse {
			ref = NullSparseVector(st.T, n)
		} else {
			ref = NullDenseVector(st.T, n)
		}
		ra, rb := a.Build(), b.Build()
		if pat == "r≡a≡b" {
			rb = a.Build()
		}
		pRef := call(func() { op.call(ref, ra, rb, s.Scalar(st)) })
		// aliased
		av, bv := a.Build(), b.Build()
		var r Vector
		switch pat {
		case "r≡a":
			r = av
		case "r≡b":
			r = bv
		case "r≡a≡b":
			r, bv = av, av
		}
		pGot := call(func() { op.call(r, av, bv, s.Scalar(st)) })
		ws, _ := model.ObsVector(ref)
		as, _ := model.ObsVector(av)
		c.NT(ws.Canon() != model.ObsScalars(a.Model()).Canon())
		_ = as
		if (pRef == "") != (pGot == "") {
			t.Fatalf("%s: panic behaviour differs: fresh receiver %q, aliased %q", c.Desc(), pRef, pGot)
		}
		if pRef != "" {
			c.Class("both panic")
			c.End()
			return
		}
		gs, bad := model.ObsVector(r)
		if bad != "" {
			t.Fatalf("%s: %s", c.Desc(), bad)
		}
		if gs.Canon() != ws.Canon() {
			t.Fatalf("%s: aliased receiver %v differs from fresh-receiver result %v", c.Desc(), gs, ws)
		}
		c.End()
	})
}

// ---------------------------------------------------------------------------------------------
// matrices: element-wise, MdotM (left, right, both), MdotV/VdotM rejection, views

type mop struct {
	name   string
	scalar bool
	div    bool
	call   func(r Matrix, a, b ConstMatrix, s ConstScalar)
}

var mops = []mop{
	{"MaddM", false, false, func(r Matrix, a, b ConstMatrix, s ConstScalar) { r.MaddM(a, b) }},
	{"MsubM", false, false, func(r Matrix, a, b ConstMatrix, s ConstScalar) { r.MsubM(a, b) }},
	{"MmulM", false, false, func(r Matrix, a, b ConstMatrix, s ConstScalar) { r.MmulM(a, b) }},
	{"MdivM", false, true, func(r Matrix, a, b ConstMatrix, s ConstScalar) { r.MdivM(a, b) }},
	{"MaddS", true, false, func(r Matrix, a, b ConstMatrix, s ConstScalar) { r.MaddS(a, s) }},
	{"MsubS", true, false, func(r Matrix, a, b ConstMatrix, s ConstScalar) { r.MsubS(a, s) }},
	{"MmulS", true, false, func(r Matrix, a, b ConstMatrix, s ConstScalar) { r.MmulS(a, s) }},
	{"MdivS", true, true, func(r Matrix, a, b ConstMatrix, s ConstScalar) { r.MdivS(a, s) }},
	{"MdotM", false, false, func(r Matrix, a, b ConstMatrix, s ConstScalar) { r.MdotM(a, b) }},
}

// view wraps a matrix in a header that denotes the same storage
var viewKinds = []string{"same object", "full-window Slice", "T().T()", "T()"}

func viewOf(m Matrix, kind string) Matrix {
	rows, cols := m.Dims()
	switch kind {
	case "full-window Slice":
		return m.Slice(0, rows, 0, cols)
	case "T().T()":
		return m.T().T()
	case "T()":
		return m.T()
	}
	return m
}

func nullLike(st gen.SType, sparse bool, rows, cols int) Matrix {
	if sparse {
		return NullSparseMatrix(st.T, rows, cols)
	}
	return NullDenseMatrix(st.T, rows, cols)
}

func matrixAlias(t *rapid.T, aspect string, onlyDot bool, views bool) {
	var op mop
	if onlyDot {
		op = mops[len(mops)-1]
	} else {
		op = mops[rapid.IntRange(0, len(mops)-2).Draw(t, "op")]
	}
	st := drawContainerType(t)
	dm := gen.DrawDerivMode(t, "dm", st)
	n := rapid.IntRange(1, 4).Draw(t, "n")
	rows, cols := n, n
	if !onlyDot && !views {
		cols = rapid.IntRange(1, 4).Draw(t, "cols")
	}
	sparse := rapid.Bool().Draw(t, "sparse")
	pat := "r≡a"
	if !op.scalar {
		pat = patterns[rapid.IntRange(0, 2).Draw(t, "pattern")]
	}
	vk := "same object"
	if views {
		vk = viewKinds[rapid.IntRange(1, 3).Draw(t, "view")]
	}
	a := gen.DrawMat(t, "a", st, sparse, rows, cols, dm, op.div && (pat == "r≡a≡b" || vk == "T()"))
	b := gen.DrawMat(t, "b", st, rapid.Bool().Draw(t, "bSparse"), rows, cols, dm, op.div)
	if pat != "r≡a" {
		b.Sparse = sparse
	}
	if st.IsInt() && op.div {
		for i := range b.E {
			b.E[i].V = 1
		}
		for i := range a.E {
			a.E[i].V = 1
		}
	}
	sv := gen.DrawVec(t, "s", st, false, 1, dm, true)
	if st.IsInt() && op.div {
		sv.E[0].V = 1
	}
	s := sv.E[0]
	c := obs.Begin(aspect, "%s %s view=%s a=%s b=%s s=%s", op.name, pat, vk, a, b, s)
	c.Classf("op=%s", op.name)
	c.Classf("pattern=%s", pat)
	c.Classf("op=%s/pattern=%s", op.name, pat)
	c.Classf("view=%s", vk)
	c.Classf("storage=%v", map[bool]string{true: "sparse", false: "dense"}[sparse])
	// reference: fresh receiver; the operand that is aliased (possibly through a view) is given
	// as the corresponding view of an independent copy
	ref := nullLike(st, sparse, rows, cols)
	ra, rb := a.Build(), b.Build()
	var refA, refB ConstMatrix = ra, rb
	switch pat {
	case "r≡a":
		refA = viewOf(ra, vk)
	case "r≡b":
		refB = viewOf(rb, vk)
	case "r≡a≡b":
		refA, refB = viewOf(ra, vk), viewOf(a.Build(), vk)
	}
	pRef := call(func() { op.call(ref, refA, refB, s.Scalar(st)) })
	// aliased
	av, bv := a.Build(), b.Build()
	var r Matrix
	var oa, ob ConstMatrix = av, bv
	switch pat {
	case "r≡a":
		r, oa = av, viewOf(av, vk)
	case "r≡b":
		r, ob = bv, viewOf(bv, vk)
	case "r≡a≡b":
		r, oa, ob = av, viewOf(av, vk), viewOf(av, vk)
	}
	pGot := call(func() { op.call(r, oa, ob, s.Scalar(st)) })
	ws, _ := model.ObsMatrix(ref)
	c.NT(ws.Canon() != model.ObsScalarGrid(a.Model(), rows, cols).Canon())
	if pGot != "" && pRef == "" {
		// an explicit rejection of the aliasing is allowed where the API documents it
		if op.name == "MdotM" && sparse && pGot == "result and argument must be different matrices" {
			c.Class("aliasing rejected by panic")
			c.End()
			return
		}
		t.Fatalf("%s: aliased call panicked: %s", c.Desc(), pGot)
	}
	if pRef != "" {
		if pGot == "" {
			t.Fatalf("%s: fresh-receiver call panicked (%s) but the aliased call did not", c.Desc(), pRef)
		}
		c.Class("both panic")
		c.End()
		return
	}
	gs, bad := model.ObsMatrix(r)
	if bad != "" {
		t.Fatalf("%s: %s", c.Desc(), bad)
	}
	if gs.Canon() != ws.Canon() {
		if vk == "T()" && rows >= 2 && c.Known("C08/transposed-view-of-receiver-as-operand") {
			c.End()
			return
		}
		if op.name == "MdotM" && sparse && vk == "T().T()" && c.Known("C08/sparse-mdotm-operand-shares-scalars-with-receiver") {
			c.End()
			return
		}
		t.Fatalf("%s: aliased receiver %v differs from fresh-receiver result %v", c.Desc(), gs, ws)
	}
	c.End()
}

func TestC08_matrix_elementwise_alias(t *testing.T) {
	rapid.Check(t, func(t *rapid.T) { matrixAlias(t, "matrix_elementwise_alias", false, false) })
}

func TestC08_mdotm_alias(t *testing.T) {
	rapid.Check(t, func(t *rapid.T) { matrixAlias(t, "mdotm_alias", true, false) })
}

func TestC08_view_alias(t *testing.T) {
	rapid.Check(t, func(t *rapid.T) { matrixAlias(t, "view_alias", rapid.Bool().Draw(t, "dot"), true) })
}

// MdotV / VdotM with the result aliasing the vector operand: must panic (the explicit rejection) or be right.
func TestC08_mdotv_vdotm_rejection(t *testing.T) {
	rapid.Check(t, func(t *rapid.T) {
		st := drawContainerType(t)
		dm := gen.DrawDerivMode(t, "dm", st)
		n := rapid.IntRange(1, 4).Draw(t, "n")
		sparse, ms := rapid.Bool().Draw(t, "sparse"), rapid.Bool().Draw(t, "mSparse")
		vdotm := rapid.Bool().Draw(t, "vdotm")
		m := gen.DrawMat(t, "m", st, ms, n, n, dm, false)
		v := gen.DrawVec(t, "v", st, sparse, n, dm, false)
		name := "MdotV"
		if vdotm {
			name = "VdotM"
		}
		c := obs.Begin("mdotv_vdotm_rejection", "%s r≡v m=%s v=%s", name, m, v)
		c.Classf("op=%s", name)
		var ref Vector
		if sparse {
			ref = NullSparseVector(st.T, n)
		} else {
			ref = NullDenseVector(st.T, n)
		}
		mv, vv := m.Build(), v.Build()
		pRef := call(func() {
			if vdotm {
				ref.VdotM(vv, mv)
			} else {
				ref.MdotV(mv, vv)
			}
		})
		if pRef != "" {
			t.Fatalf("%s: non-aliased call panicked: %s", c.Desc(), pRef)
		}
		r := v.Build()
		pGot := call(func() {
			if vdotm {
				r.VdotM(r, mv)
			} else {
				r.MdotV(mv, r)
			}
		})
		c.NT(true)
		if pGot != "" {
			c.Class("aliasing rejected by panic")
			c.End()
			return
		}
		c.Class("aliasing accepted")
		ws, _ := model.ObsVector(ref)
		gs, _ := model.ObsVector(r)
		if ws.Canon() != gs.Canon() {
			t.Fatalf("%s: aliased call returned %v without panic, fresh receiver gives %v", c.Desc(), gs, ws)
		}
		c.End()
	})
}

// ---------------------------------------------------------------------------------------------
// witnesses

func TestKF_real_set_order(t *testing.T) {
	a := NewReal64(1)
	a.Alloc(2, 2)
	r := NewReal64(0)
	r.Alloc(2, 1)
	p := call(func() { r.Set(a) })
	obs.KFStatus("C08/real-set-order-before-alloc", p != "", p)
}

func TestKF_alloc_order_upgrade_loses_gradient(t *testing.T) {
	a := NewReal64(0)
	a.Alloc(2, 1)
	a.SetDerivative(1, 0.25)
	b := NewReal64(0)
	b.Alloc(2, 2)
	a.Add(a, b)
	obs.KFStatus("C08/alias-order-upgrade-loses-gradient", a.GetDerivative(1) != 0.25, fmt.Sprintf("a.Add(a,b): d1=%v expected 0.25", a.GetDerivative(1)))
}

func TestKF_mdotm_both_aliased(t *testing.T) {
	a := NewDenseFloat64Matrix([]float64{1, 2, 3, 4}, 2, 2)
	a.MdotM(a, a)
	got := fmt.Sprint(a.Float64At(0, 0), a.Float64At(0, 1), a.Float64At(1, 0), a.Float64At(1, 1))
	obs.KFStatus("C08/dense-mdotm-both-operands-aliased", got != "7 10 15 22", "a.MdotM(a,a) on [[1,2],[3,4]] = "+got)
}

func TestKF_transposed_view_of_receiver(t *testing.T) {
	r := NewDenseFloat64Matrix([]float64{1, 2, 3, 4}, 2, 2)
	z := NullDenseFloat64Matrix(2, 2)
	r.MaddM(r.T(), z)
	got := fmt.Sprint(r.Float64At(0, 0), r.Float64At(0, 1), r.Float64At(1, 0), r.Float64At(1, 1))
	obs.KFStatus("C08/transposed-view-of-receiver-as-operand", got != "1 3 2 4", "r.MaddM(r.T(), 0) on [[1,2],[3,4]] = "+got+", the transpose is 1 3 2 4")
}

func TestKF_sparse_mdotm_shared_scalars(t *testing.T) {
	r := NullSparseFloat64Matrix(2, 2)
	r.At(0, 1).SetFloat64(2)
	r.At(1, 0).SetFloat64(3)
	r.At(1, 1).SetFloat64(4)
	id := NullSparseFloat64Matrix(2, 2)
	id.At(0, 0).SetFloat64(1)
	id.At(1, 1).SetFloat64(1)
	p := call(func() { r.MdotM(r.T().T(), id) })
	got := fmt.Sprint(r.Float64At(0, 0), r.Float64At(0, 1), r.Float64At(1, 0), r.Float64At(1, 1))
	obs.KFStatus("C08/sparse-mdotm-operand-shares-scalars-with-receiver", p == "" && got != "0 2 3 4", "r.MdotM(r.T().T(), I) on [[_,2],[3,4]] = "+got+" panic="+p)
}

// MdotM where the receiver and the right factor are different, overlapping row windows of one
// parent (they share storage without being the same view); the left factor is independent or is
// the right factor's view.
func TestC08_mdotm_overlapping_slices(t *testing.T) {
	rapid.Check(t, func(t *rapid.T) {
		st := drawContainerType(t)
		dm := gen.DrawDerivMode(t, "dm", st)
		n := rapid.IntRange(1, 4).Draw(t, "n")
		extra := rapid.IntRange(1, 3).Draw(t, "extraRows")
		r0 := rapid.IntRange(0, extra).Draw(t, "r0")
		b0 := rapid.IntRange(0, extra).Draw(t, "b0")
		leftIsB := rapid.Bool().Draw(t, "leftIsRightFactor")
		parent := gen.DrawMat(t, "parent", st, false, n+extra, n, dm, false)
		a := gen.DrawMat(t, "a", st, false, n, n, dm, false)
		c := obs.Begin("mdotm_overlapping_slices", "parent=%s r=rows[%d,%d) b=rows[%d,%d) leftIsB=%v a=%s", parent, r0, r0+n, b0, b0+n, leftIsB, a)
		c.Classf("shift=%d", b0-r0)
		c.Classf("left factor is the right factor's view=%v", leftIsB)
		c.NT(r0 != b0 && n >= 2)
		window := func(m Matrix, from int) Matrix { return m.Slice(from, from+n, 0, n) }
		deep := func(from int) Matrix {
			w := NullDenseMatrix(st.T, n, n)
			for i := 0; i < n; i++ {
				for j := 0; j < n; j++ {
					w.At(i, j).Set(parent.At(from+i, j).Scalar(st))
				}
			}
			return w
		}
		// reference on independent copies
		ref := NullDenseMatrix(st.T, n, n)
		rb := deep(b0)
		var ra ConstMatrix = a.Build()
		if leftIsB {
			ra = deep(b0)
		}
		pRef := call(func() { ref.MdotM(ra, rb) })
		// overlapping run
		pm := parent.Build()
		r, b := window(pm, r0), window(pm, b0)
		var la ConstMatrix = a.Build()
		if leftIsB {
			la = b
		}
		pGot := call(func() { r.MdotM(la, b) })
		if pRef != "" {
			t.Fatalf("%s: reference call panicked: %s", c.Desc(), pRef)
		}
		if pGot != "" {
			c.Class("overlap rejected by panic")
			c.End()
			return
		}
		ws, _ := model.ObsMatrix(ref)
		gs, _ := model.ObsMatrix(r)
		if ws.Canon() != gs.Canon() {
			t.Fatalf("%s: receiver window %v differs from the product on independent copies %v", c.Desc(), gs, ws)
		}
		c.End()
	})
}
