// C17 — estimation with a thread pool gives the sequential result (up to the order of floating
// point reductions), without data races or deadlocks. The test binary is built with -race.
package c17

import (
	"fmt"
	"math"
	"os"
	"runtime"
	"sync/atomic"
	"testing"
	"time"

	. "github.com/pbenner/autodiff"
	"github.com/pbenner/autodiff/statistics"
	"github.com/pbenner/autodiff/statistics/generic"
	"github.com/pbenner/autodiff/statistics/matrixEstimator"
	"github.com/pbenner/autodiff/statistics/scalarDistribution"
	"github.com/pbenner/autodiff/statistics/scalarEstimator"
	"github.com/pbenner/autodiff/statistics/vectorEstimator"
	"github.com/pbenner/threadpool"
	"pgregory.net/rapid"
	"verifharness/obs"
)

func TestMain(m *testing.M) {
	code := m.Run()
	obs.Flush()
	os.Exit(code)
}

// run f under a deadline; a second chance is given before a deadline counts (load)
func withDeadline(f func(), d time.Duration) (perr string, timedOut bool) {
	done := make(chan string, 1)
	go func() {
		defer func() {
			if r := recover(); r != nil {
				s := fmt.Sprint(r)
				if len(s) > 300 {
					s = s[:300]
				}
				done <- "panic: " + s
			}
		}()
		f()
		done <- ""
	}()
	select {
	case p := <-done:
		return p, false
	case <-time.After(d):
		return "", true
	}
}

// ---------------------------------------------------------------------------------------------
// schedule perturbation: wrappers that yield the processor a generated number of times

type yieldTable struct {
	n     []uint8
	count int64
}

func (y *yieldTable) yield() {
	if y == nil || len(y.n) == 0 {
		return
	}
	k := atomic.AddInt64(&y.count, 1)
	for i := uint8(0); i < y.n[int(k)%len(y.n)]; i++ {
		runtime.Gosched()
	}
}

func drawYields(t *rapid.T) *yieldTable {
	if rapid.IntRange(0, 3).Draw(t, "perturb") == 0 {
		return &yieldTable{}
	}
	n := rapid.IntRange(1, 12).Draw(t, "yieldTableSize")
	y := &yieldTable{n: make([]uint8, n)}
	for i := range y.n {
		if rapid.Bool().Draw(t, "yieldNonzero") {
			y.n[i] = uint8(rapid.IntRange(1, 20).Draw(t, "yields"))
		}
	}
	return y
}

// a data vector whose element access yields
type yieldVector struct {
	ConstVector
	y *yieldTable
}

func (v yieldVector) ConstAt(i int) ConstScalar { v.y.yield(); return v.ConstVector.ConstAt(i) }

// an emission estimator / density whose evaluation yields
type yieldPdf struct {
	statistics.ScalarPdf
	y *yieldTable
}

func (d yieldPdf) LogPdf(r Scalar, x ConstScalar) error { d.y.yield(); return d.ScalarPdf.LogPdf(r, x) }
func (d yieldPdf) CloneScalarPdf() statistics.ScalarPdf {
	return yieldPdf{d.ScalarPdf.CloneScalarPdf(), d.y}
}

type yieldEstimator struct {
	statistics.ScalarEstimator
	y *yieldTable
}

func (e yieldEstimator) CloneScalarEstimator() statistics.ScalarEstimator {
	return yieldEstimator{e.ScalarEstimator.CloneScalarEstimator(), e.y}
}
func (e yieldEstimator) GetEstimate() (statistics.ScalarPdf, error) {
	d, err := e.ScalarEstimator.GetEstimate()
	if err != nil {
		return nil, err
	}
	return yieldPdf{d, e.y}, nil
}

// ---------------------------------------------------------------------------------------------

type result struct {
	params []float64
	trace  []float64
	err    string
}

func close9(a, b, tol float64) bool {
	if math.IsNaN(a) || math.IsNaN(b) {
		return math.IsNaN(a) && math.IsNaN(b)
	}
	if math.IsInf(a, 0) || math.IsInf(b, 0) {
		return a == b
	}
	return math.Abs(a-b) <= tol*(1+math.Abs(a))
}

func (r result) same(s result, tol float64) string {
	if (r.err == "") != (s.err == "") {
		return fmt.Sprintf("errors differ: %q vs %q", r.err, s.err)
	}
	if r.err != "" {
		// after an error the partially updated state of an estimator is unspecified
		return ""
	}
	if len(r.params) != len(s.params) {
		return fmt.Sprintf("number of parameters %d vs %d", len(r.params), len(s.params))
	}
	for i := range r.params {
		if !close9(r.params[i], s.params[i], tol) {
			return fmt.Sprintf("parameter %d: %v vs %v", i, r.params[i], s.params[i])
		}
	}
	if len(r.trace) != len(s.trace) {
		return fmt.Sprintf("likelihood traces have %d vs %d entries (%v vs %v)", len(r.trace), len(s.trace), r.trace, s.trace)
	}
	for i := range r.trace {
		if !close9(r.trace[i], s.trace[i], tol) {
			return fmt.Sprintf("likelihood at iteration %d: %v vs %v", i+1, r.trace[i], s.trace[i])
		}
	}
	return ""
}

func vec(v Vector) []float64 {
	r := make([]float64, v.Dim())
	for i := range r {
		r[i] = v.At(i).GetFloat64()
	}
	return r
}

func errString(err error) string {
	if err == nil {
		return ""
	}
	return err.Error()
}

type estCase struct {
	kind string
	desc string
	jobs int
	// loose: the parallel algorithm is a different iteration by design (parallel SAGA averages
	// per-worker iterates): only completion, errors, finiteness and races are compared
	loose bool
	// run builds fresh estimators (nothing is shared between the sequential and the pooled run)
	run func(pool threadpool.ThreadPool, y *yieldTable) result
}

func drawCount(t *rapid.T, label string) float64 {
	return float64(rapid.IntRange(0, 12).Draw(t, label))
}

func newScalarEstimator(fam string, a, b float64) statistics.ScalarEstimator {
	var e statistics.ScalarEstimator
	var err error
	switch fam {
	case "normal":
		e, err = scalarEstimator.NewNormalEstimator(a, 0.5+b, 0.1)
	case "exponential":
		e, err = scalarEstimator.NewExponentialEstimator(0.5+b, 1e6)
	case "poisson":
		e, err = scalarEstimator.NewPoissonEstimator(0.5 + b)
	case "geometric":
		e, err = scalarEstimator.NewGeometricEstimator(0.1 + 0.08*b)
	case "negative binomial":
		e, err = scalarEstimator.NewNegativeBinomialEstimator(1+b, 0.5)
	case "categorical":
		th := make([]float64, 13)
		for i := range th {
			th[i] = 1 + float64(i%3)*b
		}
		e, err = scalarEstimator.NewCategoricalEstimator(th)
	}
	if err != nil {
		panic(err)
	}
	return e
}

func drawX(t *rapid.T, fam string, label string) float64 {
	switch fam {
	case "normal":
		return rapid.Float64Range(-3, 3).Draw(t, label)
	case "exponential":
		return rapid.Float64Range(0.05, 8).Draw(t, label)
	default:
		return drawCount(t, label)
	}
}

var scalarFamilies = []string{"normal", "exponential", "poisson", "geometric", "negative binomial", "categorical"}

func drawCase(t *rapid.T) estCase {
	kind := rapid.SampledFrom([]string{"scalar", "scalar", "scalar mixture", "vector hmm", "vector hmm", "matrix hmm", "vector mixture", "numeric", "scalarIid", "sparse logistic regression", "vector normal"}).Draw(t, "kind")
	a := rapid.Float64Range(-2, 2).Draw(t, "a")
	b := rapid.Float64Range(0, 3).Draw(t, "b")
	minusInf := math.Inf(-1)
	switch kind {
	case "scalar", "scalarIid":
		fam := rapid.SampledFrom(scalarFamilies).Draw(t, "family")
		n := rapid.IntRange(1, 60).Draw(t, "n")
		x := make([]float64, n)
		for i := range x {
			x[i] = drawX(t, fam, fmt.Sprintf("x[%d]", i))
		}
		var gamma []float64
		if rapid.Bool().Draw(t, "weighted") {
			gamma = make([]float64, n)
			for i := range gamma {
				gamma[i] = rapid.Float64Range(-4, 0).Draw(t, fmt.Sprintf("gamma[%d]", i))
			}
		}
		return estCase{kind: kind, jobs: n, desc: fmt.Sprintf("%s %s a=%v b=%v x=%v gamma=%v", kind, fam, a, b, x, gamma),
			run: func(pool threadpool.ThreadPool, y *yieldTable) result {
				e := newScalarEstimator(fam, a, b)
				var g ConstVector
				if gamma != nil {
					g = NewDenseFloat64Vector(gamma)
				}
				var err error
				if kind == "scalar" {
					err = e.EstimateOnData(yieldVector{NewDenseFloat64Vector(x), y}, g, pool)
					return result{params: vec(e.GetParameters()), err: errString(err)}
				}
				ve, _ := vectorEstimator.NewScalarIid(e, -1)
				var xs []ConstVector
				for _, v := range x {
					xs = append(xs, yieldVector{NewDenseFloat64Vector([]float64{v}), y})
				}
				err = ve.EstimateOnData(xs, g, pool)
				return result{params: vec(ve.GetParameters()), err: errString(err)}
			}}
	case "vector normal":
		// pooled vector normal estimator: the per-worker accumulators are merged at the end; workers
		// without weight (more threads than chunks, blocks of weight-zero observations) sit between
		// busy ones (seed C17-6). d+1 affinely independent anchors with full weight keep the
		// covariance well conditioned, so both runs succeed or fail together.
		d := rapid.IntRange(1, 3).Draw(t, "dim")
		n := rapid.IntRange(0, 40).Draw(t, "n")
		zeroBlocks := rapid.Bool().Draw(t, "zeroBlocks")
		var rows [][]float64
		var gamma []float64
		for i := 0; i <= d; i++ {
			r := make([]float64, d)
			if i > 0 {
				r[i-1] = 4
			}
			rows = append(rows, r)
			gamma = append(gamma, 0)
		}
		for i := 0; i < n; i++ {
			r := make([]float64, d)
			for j := range r {
				r[j] = rapid.Float64Range(-3, 3).Draw(t, "xv")
			}
			g := rapid.Float64Range(-4, 0).Draw(t, "gv")
			if zeroBlocks && rapid.IntRange(0, 2).Draw(t, "zero") > 0 {
				g = minusInf
			}
			// anchors are spread over the sequence
			k := rapid.IntRange(0, len(rows)).Draw(t, "pos")
			rows = append(rows[:k], append([][]float64{r}, rows[k:]...)...)
			gamma = append(gamma[:k], append([]float64{g}, gamma[k:]...)...)
		}
		weighted := zeroBlocks || rapid.Bool().Draw(t, "weightedv")
		return estCase{kind: kind, jobs: len(rows), desc: fmt.Sprintf("vector normal dim=%d x=%v gamma=%v weighted=%v", d, rows, gamma, weighted),
			run: func(pool threadpool.ThreadPool, y *yieldTable) result {
				mu := make([]float64, d)
				si := make([]float64, d*d)
				for i := 0; i < d; i++ {
					si[i*d+i] = 1
				}
				est, err := vectorEstimator.NewNormalEstimator(mu, si, 0)
				if err != nil {
					return result{err: err.Error()}
				}
				var xs []ConstVector
				for _, r := range rows {
					xs = append(xs, yieldVector{NewDenseFloat64Vector(r), y})
				}
				var g ConstVector
				if weighted {
					g = NewDenseFloat64Vector(gamma)
				}
				err = est.EstimateOnData(xs, g, pool)
				return result{params: vec(est.GetParameters()), err: errString(err)}
			}}
	case "sparse logistic regression":
		n := rapid.IntRange(6, 30).Draw(t, "n")
		rows := make([][]float64, n)
		for i := range rows {
			rows[i] = []float64{1, float64(rapid.IntRange(0, 9).Draw(t, "f1")), float64(rapid.IntRange(0, 9).Draw(t, "f2")), float64(rapid.IntRange(0, 1).Draw(t, "label"))}
		}
		rows[0][3], rows[1][3] = 0, 1
		l1 := rapid.SampledFrom([]float64{0, 1, 5}).Draw(t, "l1")
		return estCase{kind: kind, jobs: n, loose: true, desc: fmt.Sprintf("sparse logistic regression l1=%v x=%v", l1, rows),
			run: func(pool threadpool.ThreadPool, y *yieldTable) result {
				est, err := vectorEstimator.NewLogisticRegression(3, true)
				if err != nil {
					return result{err: err.Error()}
				}
				est.Epsilon, est.MaxIterations, est.L1Reg, est.Seed = 1e-4, 300, l1, 7
				var xs []ConstVector
				for _, r := range rows {
					xs = append(xs, NewSparseFloat64Vector([]int{0, 1, 2, 3}, r, 4))
				}
				err = est.EstimateOnData(xs, nil, pool)
				return result{params: vec(est.GetParameters()), err: errString(err)}
			}}
	case "numeric":
		n := rapid.IntRange(3, 40).Draw(t, "n")
		x := make([]float64, n)
		for i := range x {
			x[i] = rapid.Float64Range(0.2, 6).Draw(t, fmt.Sprintf("x[%d]", i))
		}
		return estCase{kind: kind, jobs: n, desc: fmt.Sprintf("numeric gamma(%v,%v) x=%v", 1+b, 1.0, x),
			run: func(pool threadpool.ThreadPool, y *yieldTable) result {
				pdf, _ := scalarDistribution.NewGammaDistribution(NewFloat64(1+b), NewFloat64(1))
				e, _ := scalarEstimator.NewNumericEstimator(yieldPdf{pdf, y})
				e.MaxIterations = 8
				err := e.EstimateOnData(NewDenseFloat64Vector(x), nil, pool)
				return result{params: vec(e.GetParameters()), err: errString(err)}
			}}
	case "scalar mixture", "vector mixture":
		fam := rapid.SampledFrom([]string{"normal", "poisson", "geometric"}).Draw(t, "family")
		k := rapid.IntRange(2, 3).Draw(t, "components")
		n := rapid.IntRange(2, 40).Draw(t, "n")
		dim := 1
		if kind == "vector mixture" {
			dim = rapid.IntRange(1, 2).Draw(t, "dim")
		}
		x := make([][]float64, n)
		for i := range x {
			x[i] = make([]float64, dim)
			for j := range x[i] {
				x[i][j] = drawX(t, fam, fmt.Sprintf("x[%d][%d]", i, j))
			}
		}
		steps := rapid.IntRange(1, 5).Draw(t, "steps")
		return estCase{kind: kind, jobs: n, desc: fmt.Sprintf("%s of %d %s a=%v b=%v steps=%d x=%v", kind, k, fam, a, b, steps, x),
			run: func(pool threadpool.ThreadPool, y *yieldTable) result {
				var trace []float64
				hook := generic.EmHook{Value: func(m generic.BasicMixture, i int, likelihood, e float64) {
					if i > 0 {
						trace = append(trace, likelihood)
					}
				}}
				if kind == "scalar mixture" {
					ests := make([]statistics.ScalarEstimator, k)
					for j := range ests {
						ests[j] = yieldEstimator{newScalarEstimator(fam, a+float64(j), b+float64(j)), y}
					}
					est, err := scalarEstimator.NewMixtureEstimator(nil, ests, minusInf, steps, hook)
					if err != nil {
						return result{err: err.Error()}
					}
					col := make([]float64, n)
					for i := range col {
						col[i] = x[i][0]
					}
					err = est.EstimateOnData(NewDenseFloat64Vector(col), nil, pool)
					return result{params: vec(est.GetParameters()), trace: trace, err: errString(err)}
				}
				ests := make([]statistics.VectorEstimator, k)
				for j := range ests {
					parts := make([]statistics.ScalarEstimator, dim)
					for d := range parts {
						parts[d] = yieldEstimator{newScalarEstimator(fam, a+float64(j), b+float64(j+d)), y}
					}
					ests[j], _ = vectorEstimator.NewScalarId(parts...)
				}
				est, err := vectorEstimator.NewMixtureEstimator(nil, ests, minusInf, steps, hook)
				if err != nil {
					return result{err: err.Error()}
				}
				var xs []ConstVector
				for i := range x {
					xs = append(xs, NewDenseFloat64Vector(x[i]))
				}
				err = est.EstimateOnData(xs, nil, pool)
				return result{params: vec(est.GetParameters()), trace: trace, err: errString(err)}
			}}
	default: // "vector hmm", "matrix hmm"
		fam := rapid.SampledFrom([]string{"normal", "poisson", "geometric", "mixture of normals"}).Draw(t, "emission")
		if kind == "matrix hmm" && fam == "mixture of normals" {
			fam = "normal"
		}
		m := rapid.IntRange(2, 3).Draw(t, "states")
		nseq := rapid.IntRange(1, 6).Draw(t, "sequences")
		dim := 1
		if kind == "matrix hmm" {
			dim = rapid.IntRange(1, 2).Draw(t, "dim")
		}
		xfam := fam
		if fam == "mixture of normals" {
			xfam = "normal"
		}
		seqs := make([][][]float64, nseq)
		for s := range seqs {
			n := rapid.IntRange(2, 10).Draw(t, fmt.Sprintf("len%d", s))
			seqs[s] = make([][]float64, n)
			for i := range seqs[s] {
				seqs[s][i] = make([]float64, dim)
				for j := range seqs[s][i] {
					seqs[s][i][j] = drawX(t, xfam, fmt.Sprintf("x%d[%d][%d]", s, i, j))
				}
			}
		}
		steps := rapid.IntRange(1, 4).Draw(t, "steps")
		// which parts of the model the Baum-Welch steps re-estimate
		optE := rapid.IntRange(0, 3).Draw(t, "optimizeEmissions") != 0
		optT := rapid.IntRange(0, 3).Draw(t, "optimizeTransitions") != 0
		pi := make([]float64, m)
		tr := make([]float64, m*m)
		for i := range pi {
			pi[i] = 1 + 0.3*float64(i)
		}
		for i := range tr {
			tr[i] = 1 + 0.2*float64(i%3)
		}
		return estCase{kind: kind, jobs: nseq, desc: fmt.Sprintf("%s states=%d emission=%s a=%v b=%v steps=%d optimizeEmissions=%v optimizeTransitions=%v x=%v", kind, m, fam, a, b, steps, optE, optT, seqs),
			run: func(pool threadpool.ThreadPool, y *yieldTable) result {
				var trace []float64
				hook := generic.BaumWelchHook{Value: func(h generic.BasicHmm, i int, likelihood, e float64) {
					if i > 0 {
						trace = append(trace, likelihood)
					}
				}}
				mkScalar := func(j, d int) statistics.ScalarEstimator {
					if fam == "mixture of normals" {
						e1 := newScalarEstimator("normal", a+float64(j), b)
						e2 := newScalarEstimator("normal", a-float64(j)-1, b+1)
						me, err := scalarEstimator.NewMixtureEstimator(nil, []statistics.ScalarEstimator{e1, e2}, 0, 1)
						if err != nil {
							panic(err)
						}
						return yieldEstimator{me, y}
					}
					return yieldEstimator{newScalarEstimator(fam, a+float64(j), b+float64(j+d)), y}
				}
				if kind == "vector hmm" {
					ests := make([]statistics.ScalarEstimator, m)
					for j := range ests {
						ests[j] = mkScalar(j, 0)
					}
					est, err := vectorEstimator.NewHmmEstimator(NewDenseFloat64Vector(pi), NewDenseFloat64Matrix(tr, m, m), nil, nil, nil, ests, minusInf, steps, hook)
					if err != nil {
						return result{err: err.Error()}
					}
					est.OptimizeEmissions, est.OptimizeTransitions = optE, optT
					var xs []ConstVector
					for _, s := range seqs {
						col := make([]float64, len(s))
						for i := range col {
							col[i] = s[i][0]
						}
						xs = append(xs, NewDenseFloat64Vector(col))
					}
					err = est.EstimateOnData(xs, nil, pool)
					return result{params: vec(est.GetParameters()), trace: trace, err: errString(err)}
				}
				ests := make([]statistics.VectorEstimator, m)
				for j := range ests {
					parts := make([]statistics.ScalarEstimator, dim)
					for d := range parts {
						parts[d] = mkScalar(j, d)
					}
					ests[j], _ = vectorEstimator.NewScalarId(parts...)
				}
				est, err := matrixEstimator.NewHmmEstimator(NewDenseFloat64Vector(pi), NewDenseFloat64Matrix(tr, m, m), nil, nil, nil, ests, minusInf, steps, hook)
				if err != nil {
					return result{err: err.Error()}
				}
				est.OptimizeEmissions, est.OptimizeTransitions = optE, optT
				var xs []ConstMatrix
				for _, s := range seqs {
					flat := []float64{}
					for i := range s {
						flat = append(flat, s[i]...)
					}
					xs = append(xs, NewDenseFloat64Matrix(flat, len(s), dim))
				}
				err = est.EstimateOnData(xs, nil, pool)
				return result{params: vec(est.GetParameters()), trace: trace, err: errString(err)}
			}}
	}
}

func TestC17_pool_vs_sequential(t *testing.T) {
	defer runtime.GOMAXPROCS(runtime.GOMAXPROCS(0))
	rapid.Check(t, func(t *rapid.T) {
		ec := drawCase(t)
		threads := rapid.IntRange(2, 9).Draw(t, "threads")
		bufsize := rapid.SampledFrom([]int{1, 2, 100}).Draw(t, "bufsize")
		procs := rapid.SampledFrom([]int{1, 2, 4, 16}).Draw(t, "gomaxprocs")
		y := drawYields(t)
		c := obs.Begin("pool_vs_sequential", "%s threads=%d bufsize=%d gomaxprocs=%d yields=%v", ec.desc, threads, bufsize, procs, y.n)
		c.Classf("kind=%s", ec.kind)
		c.Classf("gomaxprocs=%d", procs)
		switch {
		case threads > ec.jobs:
			c.Class("more threads than jobs")
		case threads == ec.jobs:
			c.Class("as many threads as jobs")
		default:
			c.Class("fewer threads than jobs")
		}
		perturbed := false
		for _, v := range y.n {
			perturbed = perturbed || v > 0
		}
		if perturbed {
			c.Class("perturbed schedule")
		}
		c.NT(ec.jobs >= 2 && perturbed)
		runtime.GOMAXPROCS(procs)
		var seq, par result
		t0 := time.Now()
		if p, to := withDeadline(func() { seq = ec.run(threadpool.Nil(), &yieldTable{}) }, 120*time.Second); p != "" || to {
			if to {
				c.Class("inconclusive: sequential run exceeded the deadline")
				c.End()
				return
			}
			// the sequential run is the reference; its own failures belong to other properties
			c.Class("sequential run panicked (not this property)")
			c.End()
			return
		}
		seqTime := time.Since(t0)
		attempt := func() (string, bool) {
			pool := threadpool.New(threads, bufsize)
			defer pool.Stop()
			return withDeadline(func() { par = ec.run(pool, y) }, 60*time.Second+1000*seqTime)
		}
		p, to := attempt()
		if to {
			// a second chance before a missed deadline counts (machine load)
			p, to = attempt()
			if to {
				t.Fatalf("%s: the pooled run did not complete within the deadline twice (the sequential run took %v): deadlock or lost wake-up", c.Desc(), seqTime)
			}
			c.Class("deadline missed once (load)")
		}
		if p != "" {
			t.Fatalf("%s: the pooled run %s (sequential result %+v)", c.Desc(), p, seq)
		}
		if ec.loose {
			for _, v := range par.params {
				if math.IsNaN(v) || math.IsInf(v, 0) {
					t.Fatalf("%s: the pooled run produced the non-finite estimate %v", c.Desc(), par.params)
				}
			}
			par.params = seq.params
		}
		if seq.err != "" && par.err == "" && c.Known("C17/threadpool-drops-a-job-error-when-wait-wins-the-race") {
			c.Class("known finding: error of a pooled job lost")
			c.End()
			return
		}
		if d := seq.same(par, 1e-7); d != "" {
			t.Fatalf("%s: pooled and sequential results differ: %s", c.Desc(), d)
		}
		if seq.err != "" {
			c.Class("both runs report an error")
		}
		c.End()
	})
}

// ---------------------------------------------------------------------------------------------
// witness: the race detector is the oracle; the defect shows as a race report (process exit), so
// the witness runs the workload and reports "absent" when it survives

func TestKF_logistic_regression_race(t *testing.T) {
	rows := [][]float64{{1, 0, 3, 0}, {1, 4, 1, 1}, {1, 2, 2, 0}, {1, 7, 0, 1}, {1, 1, 1, 0}, {1, 9, 5, 1}, {1, 3, 3, 0}, {1, 6, 2, 1}, {1, 0, 0, 0}, {1, 5, 5, 1}, {1, 2, 7, 0}, {1, 8, 1, 1}}
	for rep := 0; rep < 20; rep++ {
		est, _ := vectorEstimator.NewLogisticRegression(3, true)
		est.Epsilon, est.MaxIterations, est.Seed = 1e-4, 200, int64(rep)
		var xs []ConstVector
		for _, r := range rows {
			xs = append(xs, NewSparseFloat64Vector([]int{0, 1, 2, 3}, r, 4))
		}
		pool := threadpool.New(4, 1)
		est.EstimateOnData(xs, nil, pool)
		pool.Stop()
	}
	obs.KFStatus("C17/sparse-logistic-regression-workers-share-theta", false, "no race reported in 20 runs")
}

func TestKF_threadpool_lost_error(t *testing.T) {
	defer runtime.GOMAXPROCS(runtime.GOMAXPROCS(4))
	lost := 0
	pool := threadpool.New(2, 1)
	defer pool.Stop()
	for i := 0; i < 200000 && lost == 0; i++ {
		g := pool.NewJobGroup()
		pool.AddJob(g, func(p threadpool.ThreadPool, erf func() error) error { return fmt.Errorf("job failed") })
		if err := pool.Wait(g); err == nil {
			lost++
		}
	}
	obs.KFStatus("C17/threadpool-drops-a-job-error-when-wait-wins-the-race", lost > 0, fmt.Sprintf("lost errors: %d", lost))
}
