// C05 — matrix factorizations reproduce their input with the promised structure.
//
// Inputs come from families with spectrum/singular values planted by construction; products are
// recomputed with the harness' own float64 loops.  Conventions are those of the routines' own
// tests: Hessenberg H = U'AU, bidiagonal B = U'AV, tridiagonal T = U'AU, QR algorithm A = U H U',
// SVD A = U S V'.
package c05

import (
	"fmt"
	"math"
	"os"
	"sort"
	"testing"
	"time"

	. "github.com/pbenner/autodiff"
	"github.com/pbenner/autodiff/algorithm/cholesky"
	"github.com/pbenner/autodiff/algorithm/eigensystem"
	"github.com/pbenner/autodiff/algorithm/gramSchmidt"
	"github.com/pbenner/autodiff/algorithm/hessenbergReduction"
	"github.com/pbenner/autodiff/algorithm/householderBidiagonalization"
	"github.com/pbenner/autodiff/algorithm/householderTridiagonalization"
	"github.com/pbenner/autodiff/algorithm/msqrt"
	"github.com/pbenner/autodiff/algorithm/msqrtInv"
	"github.com/pbenner/autodiff/algorithm/qrAlgorithm"
	"github.com/pbenner/autodiff/algorithm/svd"
	"pgregory.net/rapid"
	"verifharness/gen"
	"verifharness/model"
	"verifharness/obs"
)

func TestMain(m *testing.M) {
	code := m.Run()
	obs.Flush()
	os.Exit(code)
}

const watchdog = 5 * time.Second

// guarded runs f in a goroutine; termination is C20's property, so a watchdog hit only makes the
// case inconclusive here (it is counted, and the leaked goroutine is abandoned).
func guarded(f func()) (perr string, timedOut bool) {
	done := make(chan string, 1)
	go func() {
		defer func() {
			if r := recover(); r != nil {
				s := fmt.Sprint(r)
				if len(s) > 160 {
					s = s[:160]
				}
				done <- "panic: " + s
			}
		}()
		f()
		done <- ""
	}()
	select {
	case p := <-done:
		return p, false
	case <-time.After(watchdog):
		return "", true
	}
}

var elemTypes = []gen.SType{gen.TFloat64, gen.TReal64}

const cTol = 512.0

func fro(a model.Mat) float64 {
	s := 0.0
	for i := range a {
		for _, v := range a[i] {
			s += v * v
		}
	}
	return math.Sqrt(s)
}

func orthoErr(q model.Mat) float64 {
	_, c := q.Dims()
	return q.T().Mul(q).Sub(model.Identity(c)).MaxAbs()
}

type factCase struct {
	c      *obs.Case
	aspect string
	t      *rapid.T
	tol    float64
}

func (fc *factCase) near(what string, got, want model.Mat) {
	r := got.Sub(want).MaxAbs()
	obs.Note(fc.aspect, "worst "+what+" residual/tolerance", r/fc.tol)
	if !(r <= fc.tol) {
		fc.t.Fatalf("%s: %s: residual %g exceeds tolerance %g\n got  %v\n want %v", fc.c.Desc(), what, r, fc.tol, got, want)
	}
}

func (fc *factCase) orthogonal(what string, q model.Mat) {
	r := orthoErr(q)
	obs.Note(fc.aspect, "worst orthogonality error/tolerance", r/fc.tol)
	if !(r <= fc.tol) {
		fc.t.Fatalf("%s: %s is not orthogonal: |Q'Q-I|=%g exceeds %g\n%v", fc.c.Desc(), what, r, fc.tol, q)
	}
}

func (fc *factCase) fail(format string, args ...interface{}) {
	fc.t.Fatalf("%s: %s", fc.c.Desc(), fmt.Sprintf(format, args...))
}

// run executes the routine under the watchdog; returns false if the case is inconclusive.
func (fc *factCase) run(f func()) bool {
	p, to := guarded(f)
	if to {
		fc.c.Class("inconclusive: watchdog (termination is C20's)")
		fc.c.End()
		return false
	}
	if p != "" {
		fc.fail("%s", p)
	}
	return true
}

// symmetric matrix with planted eigenvalues
func drawSymmetric(t *rapid.T, n int) (model.Mat, []float64, string) {
	kind := rapid.SampledFrom([]string{"distinct", "repeated", "clustered", "signed", "with zero"}).Draw(t, "spectrum")
	ev := make([]float64, n)
	for i := range ev {
		ev[i] = float64(rapid.IntRange(1, 64).Draw(t, "ev")) / 8
	}
	switch kind {
	case "repeated":
		if n >= 2 {
			ev[1] = ev[0]
		}
		if n >= 4 {
			ev[3] = ev[2]
		}
	case "clustered":
		for i := 1; i < n; i++ {
			ev[i] = ev[0] * (1 + float64(i)*1e-7)
		}
	case "signed":
		for i := range ev {
			if rapid.Bool().Draw(t, "neg") {
				ev[i] = -ev[i]
			}
		}
	case "with zero":
		ev[rapid.IntRange(0, n-1).Draw(t, "zeroAt")] = 0
	}
	q := gen.Orthogonal(t, "q", n)
	d := model.NewMat(n, n)
	for i, v := range ev {
		d[i][i] = v
	}
	a := q.Mul(d).Mul(q.T())
	for i := 0; i < n; i++ {
		for j := 0; j < i; j++ {
			a[i][j] = a[j][i]
		}
	}
	return a, ev, kind
}

// general square matrix with planted real Schur form: returns A, the real eigenvalues, #complex pairs
func drawSchur(t *rapid.T, n int) (model.Mat, []float64, int, string) {
	kind := rapid.SampledFrom([]string{"real distinct", "real repeated", "complex pairs", "mixed"}).Draw(t, "schur")
	tm := model.NewMat(n, n)
	var reals []float64
	pairs := 0
	used := map[int]bool{}
	for i := 0; i < n; {
		pair := (kind == "complex pairs" || (kind == "mixed" && rapid.Bool().Draw(t, "pair"))) && i+1 < n
		if pair {
			a := float64(rapid.IntRange(-24, 24).Draw(t, "re")) / 8
			b := float64(rapid.IntRange(4, 24).Draw(t, "b")) / 8
			cc := float64(rapid.IntRange(4, 24).Draw(t, "c")) / 8
			tm[i][i], tm[i][i+1], tm[i+1][i], tm[i+1][i+1] = a, b, -cc, a
			pairs++
			i += 2
		} else {
			// distinct magnitudes so that the eigenvalues are well separated
			var k int
			for {
				k = rapid.IntRange(1, 40).Draw(t, "ev")
				if !used[k] || kind == "real repeated" {
					break
				}
			}
			used[k] = true
			v := float64(k) / 4
			if rapid.Bool().Draw(t, "neg") {
				v = -v
			}
			tm[i][i] = v
			reals = append(reals, v)
			i++
		}
	}
	if kind == "real repeated" && len(reals) >= 2 {
		tm[1][1] = tm[0][0]
		reals[1] = reals[0]
	}
	for i := 0; i < n; i++ {
		for j := i + 1; j < n; j++ {
			if tm[i][j] == 0 && !(j == i+1 && tm[j][i] != 0) {
				tm[i][j] = float64(rapid.IntRange(-8, 8).Draw(t, "upper")) / 8
			}
		}
	}
	q := gen.Orthogonal(t, "q", n)
	return q.Mul(tm).Mul(q.T()), reals, pairs, kind
}

// tall matrix with planted singular values
func drawTall(t *rapid.T, m, n int, allowZero bool) (model.Mat, []float64, string) {
	kind := "full rank"
	if allowZero {
		kind = rapid.SampledFrom([]string{"full rank", "rank deficient", "zero column", "repeated"}).Draw(t, "sv")
	}
	sv := make([]float64, n)
	for i := range sv {
		sv[i] = float64(rapid.IntRange(2, 64).Draw(t, "s")) / 8
	}
	switch kind {
	case "rank deficient":
		sv[rapid.IntRange(0, n-1).Draw(t, "zeroAt")] = 0
	case "repeated":
		if n >= 2 {
			sv[1] = sv[0]
		}
	}
	u := gen.Orthogonal(t, "u", m)
	v := gen.Orthogonal(t, "v", n)
	s := model.NewMat(m, n)
	for i := 0; i < n; i++ {
		s[i][i] = sv[i]
	}
	a := u.Mul(s).Mul(v.T())
	if kind == "zero column" {
		j := rapid.IntRange(0, n-1).Draw(t, "zeroCol")
		for i := range a {
			a[i][j] = 0
		}
		sv = nil // not planted any more
	}
	return a, sv, kind
}

func begin(t *rapid.T, aspect string, st gen.SType, a model.Mat, extra string) *factCase {
	n, m := a.Dims()
	c := obs.Begin(aspect, "%s %dx%d %s A=%v", st, n, m, extra, a)
	c.Classf("elem=%s", st)
	c.Classf("n=%d", n)
	scale := fro(a)
	if scale == 0 {
		scale = 1
	}
	return &factCase{c: c, aspect: aspect, t: t, tol: cTol * float64(n+m) * st.Eps() * scale}
}

func isLowerTriangular(l model.Mat) (int, int, bool) {
	for i := range l {
		for j := i + 1; j < len(l[i]); j++ {
			if l[i][j] != 0 {
				return i, j, false
			}
		}
	}
	return 0, 0, true
}

// ---------------------------------------------------------------------------------------------

func TestC05_cholesky_ldl(t *testing.T) {
	rapid.Check(t, func(t *rapid.T) {
		n := rapid.IntRange(1, 7).Draw(t, "n")
		st := gen.DrawType(t, "elem", elemTypes)
		variant := rapid.SampledFrom([]string{"cholesky", "ldl", "ldl+forcepd (pd input)", "ldl+forcepd (indefinite input)"}).Draw(t, "variant")
		reuse := rapid.Bool().Draw(t, "reuseInSitu")
		var a model.Mat
		kappa := 1.0
		if variant == "ldl+forcepd (indefinite input)" {
			a, _, _ = drawSymmetric(t, n)
		} else {
			ls := gen.DrawLinSys(t, "A", n, "spd")
			a, kappa = ls.A, ls.Kappa
		}
		fc := begin(t, "cholesky_ldl", st, a, variant)
		fc.tol *= kappa
		fc.c.Classf("variant=%s", variant)
		fc.c.Classf("reuse in-situ=%v", reuse)
		fc.c.NT(n >= 3)
		var args []interface{}
		switch variant {
		case "ldl":
			args = append(args, cholesky.LDL{Value: true})
		case "ldl+forcepd (pd input)", "ldl+forcepd (indefinite input)":
			args = append(args, cholesky.LDL{Value: true}, cholesky.ForcePD{Value: true})
		}
		in := &cholesky.InSitu{}
		if reuse {
			// first call on another SPD matrix fills the buffers
			other := gen.DrawLinSys(t, "other", n, "spd")
			args = append(args, in)
			if !fc.run(func() { cholesky.Run(gen.ToDense(st, other.A), args...) }) {
				return
			}
		}
		am := gen.ToDense(st, a)
		ah := model.FromMatrix(am)
		var l, d Matrix
		var err error
		if !fc.run(func() { l, d, err = cholesky.Run(am, args...) }) {
			return
		}
		if err != nil {
			fc.fail("error %v for an admissible input", err)
		}
		lm := model.FromMatrix(l)
		if i, j, ok := isLowerTriangular(lm); !ok {
			fc.fail("L(%d,%d)=%v above the diagonal", i, j, lm[i][j])
		}
		if variant == "cholesky" {
			fc.near("L*L'", lm.Mul(lm.T()), ah)
			fc.c.End()
			return
		}
		dm := model.FromMatrix(d)
		for i := range dm {
			if lm[i][i] != 1 {
				fc.fail("L is not unit lower triangular: L(%d,%d)=%v", i, i, lm[i][i])
			}
			for j := range dm[i] {
				if i != j && dm[i][j] != 0 {
					fc.fail("D(%d,%d)=%v off the diagonal", i, j, dm[i][j])
				}
			}
			if !(dm[i][i] > 0) {
				fc.fail("D(%d,%d)=%v is not positive", i, i, dm[i][i])
			}
		}
		if variant != "ldl+forcepd (indefinite input)" {
			fc.near("L*D*L'", lm.Mul(dm).Mul(lm.T()), ah)
		}
		fc.c.End()
	})
}

func TestC05_gram_schmidt(t *testing.T) {
	rapid.Check(t, func(t *rapid.T) {
		n := rapid.IntRange(1, 6).Draw(t, "cols")
		m := n + rapid.IntRange(0, 2).Draw(t, "extraRows")
		st := gen.DrawType(t, "elem", elemTypes)
		a, _, _ := drawTall(t, m, n, false)
		fc := begin(t, "gram_schmidt", st, a, "")
		fc.tol *= 64 // kappa <= 32 by construction of the singular values
		fc.c.Classf("tall=%v", m > n)
		fc.c.NT(n >= 3)
		am := gen.ToDense(st, a)
		var q, r Matrix
		var err error
		if !fc.run(func() { q, r, err = gramSchmidt.Run(am) }) {
			return
		}
		if err != nil {
			fc.fail("error %v", err)
		}
		qm, rfull := model.FromMatrix(q), model.FromMatrix(r)
		rm := model.NewMat(n, n)
		for i := 0; i < n; i++ {
			copy(rm[i], rfull[i])
		}
		for i := range rfull {
			for j := range rfull[i] {
				if j < i && rfull[i][j] != 0 {
					fc.fail("R(%d,%d)=%v below the diagonal", i, j, rfull[i][j])
				}
			}
		}
		fc.orthogonal("Q", qm)
		fc.near("Q*R", qm.Mul(rm), model.FromMatrix(am))
		fc.c.End()
	})
}

func banded(b model.Mat, lower, upper int, tol float64) (int, int, bool) {
	for i := range b {
		for j := range b[i] {
			if (j-i > upper || i-j > lower) && !(math.Abs(b[i][j]) <= tol) {
				return i, j, false
			}
		}
	}
	return 0, 0, true
}

func TestC05_householder_reductions(t *testing.T) {
	rapid.Check(t, func(t *rapid.T) {
		which := rapid.SampledFrom([]string{"bidiagonalization", "tridiagonalization", "hessenberg"}).Draw(t, "routine")
		st := gen.DrawType(t, "elem", elemTypes)
		n := rapid.IntRange(1, 7).Draw(t, "n")
		computeU := rapid.IntRange(0, 3).Draw(t, "computeU") > 0
		computeV := rapid.IntRange(0, 3).Draw(t, "computeV") > 0
		var a model.Mat
		extra := ""
		switch which {
		case "bidiagonalization":
			m := n + rapid.IntRange(0, 2).Draw(t, "extraRows")
			a, _, extra = drawTall(t, m, n, true)
		case "tridiagonalization":
			a, _, extra = drawSymmetric(t, n)
		default:
			a, _, _, extra = drawSchur(t, n)
		}
		if rapid.IntRange(0, 7).Draw(t, "alreadyReduced") == 0 {
			// already-reduced input: keep only the band
			for i := range a {
				for j := range a[i] {
					switch which {
					case "bidiagonalization":
						if j < i || j > i+1 {
							a[i][j] = 0
						}
					case "tridiagonalization":
						if j-i > 1 || i-j > 1 {
							a[i][j] = 0
						}
					default:
						if i-j > 1 {
							a[i][j] = 0
						}
					}
				}
			}
			extra += " already reduced"
		}
		fc := begin(t, "householder_reductions", st, a, which+" "+extra+fmt.Sprintf(" computeU=%v computeV=%v", computeU, computeV))
		fc.c.Classf("routine=%s", which)
		fc.c.Classf("computeU=%v", computeU)
		fc.c.NT(n >= 3)
		am := gen.ToDense(st, a)
		ah := model.FromMatrix(am)
		var b, u, v Matrix
		var err error
		ok := fc.run(func() {
			switch which {
			case "bidiagonalization":
				b, u, v, err = householderBidiagonalization.Run(am, householderBidiagonalization.ComputeU{Value: computeU}, householderBidiagonalization.ComputeV{Value: computeV})
			case "tridiagonalization":
				b, u, err = householderTridiagonalization.Run(am, householderTridiagonalization.ComputeU{Value: computeU})
			default:
				b, u, err = hessenbergReduction.Run(am, hessenbergReduction.ComputeU{Value: computeU})
			}
		})
		if !ok {
			return
		}
		if err != nil {
			fc.fail("error %v", err)
		}
		bm := model.FromMatrix(b)
		var i, j int
		var okb bool
		switch which {
		case "bidiagonalization":
			i, j, okb = banded(bm, 0, 1, fc.tol)
		case "tridiagonalization":
			i, j, okb = banded(bm, 1, 1, fc.tol)
		default:
			// hessenbergReduction sets the entries below the sub-diagonal to exactly zero (SetZero default)
			i, j, okb = banded(bm, 1, len(bm), 0)
		}
		if !okb {
			fc.fail("middle factor has a non-zero %v at (%d,%d) outside its band: %v", bm[i][j], i, j, bm)
		}
		if !bm.AllFinite() {
			fc.fail("middle factor not finite: %v", bm)
		}
		if computeU && u == nil {
			fc.fail("ComputeU requested but U is nil")
		}
		switch which {
		case "bidiagonalization":
			if computeU && computeV {
				um, vm := model.FromMatrix(u), model.FromMatrix(v)
				fc.orthogonal("U", um)
				fc.orthogonal("V", vm)
				fc.near("U'*A*V = B", um.T().Mul(ah).Mul(vm), bm)
			}
		default:
			if computeU {
				um := model.FromMatrix(u)
				fc.orthogonal("U", um)
				fc.near("U'*A*U = middle factor", um.T().Mul(ah).Mul(um), bm)
			}
		}
		// the input is not modified
		if d := model.FromMatrix(am).Sub(ah).MaxAbs(); d != 0 {
			fc.fail("the input matrix was modified")
		}
		fc.c.End()
	})
}

func quasiTriangular(h model.Mat, tol float64) string {
	n := len(h)
	for i := 0; i < n; i++ {
		for j := 0; j < i-1; j++ {
			if !(math.Abs(h[i][j]) <= tol) {
				return fmt.Sprintf("H(%d,%d)=%v below the first sub-diagonal", i, j, h[i][j])
			}
		}
	}
	for i := 0; i+2 < n; i++ {
		if math.Abs(h[i+1][i]) > tol && math.Abs(h[i+2][i+1]) > tol {
			return fmt.Sprintf("two consecutive non-zero sub-diagonal entries at %d and %d (block larger than 2x2)", i, i+1)
		}
	}
	return ""
}

func maxN() int {
	if v := os.Getenv("VERIF_C05_MAXN"); v != "" {
		n := 0
		fmt.Sscan(v, &n)
		if n > 0 {
			return n
		}
	}
	return 7
}

func TestC05_qr_algorithm(t *testing.T) {
	rapid.Check(t, func(t *rapid.T) {
		st := gen.DrawType(t, "elem", elemTypes)
		n := rapid.IntRange(1, maxN()).Draw(t, "n")
		symmetric := rapid.Bool().Draw(t, "symmetric")
		computeU := rapid.IntRange(0, 3).Draw(t, "computeU") > 0
		var a model.Mat
		var extra string
		pairs := 0
		if symmetric {
			a, _, extra = drawSymmetric(t, n)
		} else {
			a, _, pairs, extra = drawSchur(t, n)
		}
		fc := begin(t, "qr_algorithm", st, a, fmt.Sprintf("symmetric=%v computeU=%v %s", symmetric, computeU, extra))
		fc.c.Classf("symmetric=%v", symmetric)
		fc.c.Classf("spectrum=%s", extra)
		fc.c.Classf("computeU=%v", computeU)
		if pairs > 0 {
			fc.c.Class("complex pair present")
		}
		fc.c.NT(n >= 3)
		am := gen.ToDense(st, a)
		ah := model.FromMatrix(am)
		var h, u Matrix
		var err error
		args := []interface{}{qrAlgorithm.ComputeU{Value: computeU}}
		if symmetric {
			args = append(args, qrAlgorithm.Symmetric{Value: true})
		}
		// deflation threshold: the default (machine epsilon since the fix of the unreachable 1e-18) or
		// an explicit value not below the machine epsilon (a smaller threshold cannot be reached:
		// off-diagonal elements stagnate at rounding level; the routine then reports non-convergence)
		if eps := rapid.SampledFrom([]float64{2.22e-16, 2.22e-16, 1e-14, 0, 0}).Draw(t, "epsilon"); eps > 0 {
			args = append(args, qrAlgorithm.Epsilon{Value: eps})
			fc.c.Classf("epsilon=%g", eps)
		} else {
			fc.c.Class("epsilon=default")
		}
		if !fc.run(func() { h, u, err = qrAlgorithm.Run(am, args...) }) {
			return
		}
		if err != nil && err.Error() == "QR algorithm did not converge" && fc.c.Known("C05/francis-iteration-stalls-on-some-matrices-with-repeated-eigenvalues") {
			fc.c.End()
			return
		}
		if err != nil {
			fc.fail("error %v", err)
		}
		hm := model.FromMatrix(h)
		if !hm.AllFinite() {
			fc.fail("H not finite: %v", hm)
		}
		if s := quasiTriangular(hm, fc.tol); s != "" {
			fc.fail("H is not quasi upper triangular: %s\nH=%v", s, hm)
		}
		// 2x2 blocks only for complex pairs
		for i := 0; i+1 < n; i++ {
			if math.Abs(hm[i+1][i]) > fc.tol {
				disc := (hm[i][i]-hm[i+1][i+1])*(hm[i][i]-hm[i+1][i+1]) + 4*hm[i][i+1]*hm[i+1][i]
				if disc >= 0 {
					fc.fail("2x2 block at %d has real eigenvalues (discriminant %g)\nH=%v", i, disc, hm)
				}
			}
		}
		if symmetric {
			for i := 0; i+1 < n; i++ {
				if math.Abs(hm[i+1][i]) > fc.tol {
					fc.fail("symmetric input: H(%d,%d)=%v, expected a diagonal matrix", i+1, i, hm[i+1][i])
				}
			}
		}
		if computeU {
			um := model.FromMatrix(u)
			fc.tol *= 16
			if extra == "real repeated" || extra == "repeated" || extra == "clustered" {
				// (nearly) multiple eigenvalues: the 2x2 block reduction converges linearly and takes
				// thousands of rotations, each contributing a rounding error to U
				fc.tol *= 1e5
			}
			fc.orthogonal("U", um)
			fc.near("U*H*U' = A", um.Mul(hm).Mul(um.T()), ah)
		}
		if d := model.FromMatrix(am).Sub(ah).MaxAbs(); d != 0 {
			fc.fail("the input matrix was modified")
		}
		fc.c.End()
	})
}

func TestC05_eigensystem(t *testing.T) {
	rapid.Check(t, func(t *rapid.T) {
		st := gen.DrawType(t, "elem", elemTypes)
		n := rapid.IntRange(1, 6).Draw(t, "n")
		symmetric := rapid.Bool().Draw(t, "symmetric")
		var a model.Mat
		var reals []float64
		var extra string
		pairs := 0
		if symmetric {
			// distinct eigenvalues so that eigenvectors are determined
			a, reals, extra = drawSymmetric(t, n)
		} else {
			a, reals, pairs, extra = drawSchur(t, n)
		}
		fc := begin(t, "eigensystem", st, a, fmt.Sprintf("symmetric=%v %s planted real eigenvalues %v", symmetric, extra, reals))
		if pairs > 0 {
			fc.c.Class("complex pair present")
		}
		fc.c.Classf("symmetric=%v", symmetric)
		fc.c.Classf("spectrum=%s", extra)
		fc.c.NT(n >= 3)
		am := gen.ToDense(st, a)
		ah := model.FromMatrix(am)
		var ev Vector
		var evec Matrix
		var err error
		var args []interface{}
		if symmetric {
			args = append(args, eigensystem.Symmetric{Value: true})
		}
		if eps := rapid.SampledFrom([]float64{2.22e-16, 2.22e-16, 1e-14, 0, 0}).Draw(t, "epsilon"); eps > 0 {
			args = append(args, qrAlgorithm.Epsilon{Value: eps})
			fc.c.Classf("epsilon=%g", eps)
		} else {
			fc.c.Class("epsilon=default")
		}
		if !fc.run(func() { ev, evec, err = eigensystem.Run(am, args...) }) {
			return
		}
		if err != nil && err.Error() == "QR algorithm did not converge" && fc.c.Known("C05/francis-iteration-stalls-on-some-matrices-with-repeated-eigenvalues") {
			fc.c.End()
			return
		}
		if err != nil {
			fc.fail("error %v", err)
		}
		evs := model.FromVector(ev)
		vm := model.FromMatrix(evec)
		// ordered by decreasing magnitude
		for i := 0; i+1 < len(evs); i++ {
			if math.Abs(evs[i]) < math.Abs(evs[i+1])*(1-1e-12) {
				fc.fail("eigenvalues not ordered by decreasing magnitude: %v", evs)
			}
		}
		scale := fro(ah) + 1
		tol := cTol * 64 * float64(n) * st.Eps() * scale
		if extra == "clustered" || extra == "repeated" || extra == "real repeated" {
			tol *= 1e6 // defective / clustered spectra: eigenvalues are ill-conditioned (sqrt(eps) sensitivity)
		}
		// every planted real eigenvalue is matched by an output eigenvalue whose column is an eigenvector
		usedOut := make([]bool, len(evs))
		for _, lam := range reals {
			best, bi := math.Inf(1), -1
			for i, x := range evs {
				if !usedOut[i] && math.Abs(x-lam) < best {
					best, bi = math.Abs(x-lam), i
				}
			}
			if bi < 0 || best > tol {
				fc.fail("planted real eigenvalue %v has no counterpart within %g among %v", lam, tol, evs)
			}
			usedOut[bi] = true
			if extra == "clustered" || extra == "repeated" || extra == "real repeated" {
				continue // eigenvectors of (nearly) multiple eigenvalues are not determined
			}
			col := make([]float64, n)
			nrm := 0.0
			for r := 0; r < n; r++ {
				col[r] = vm[r][bi]
				nrm += col[r] * col[r]
			}
			if math.Abs(math.Sqrt(nrm)-1) > 1e-8 {
				fc.fail("eigenvector %d has norm %v", bi, math.Sqrt(nrm))
			}
			av := ah.MulVec(col)
			res := 0.0
			for r := range av {
				res = math.Max(res, math.Abs(av[r]-evs[bi]*col[r]))
			}
			// eigenvector conditioning: gap to the nearest other eigenvalue (planted spectrum)
			if res <= tol*64 {
				obs.Note("eigensystem", "worst |Av-lv|/tolerance", res/(tol*64))
			}
			if !(res <= tol*64) {
				if pairs > 0 && !symmetric && fc.c.Known("C05/eigenvector-of-real-eigenvalue-behind-a-complex-pair") {
					fc.c.End()
					return
				}
				fc.fail("column %d is not an eigenvector for eigenvalue %v: |A v - lambda v| = %g exceeds %g\nvalues=%v\nvectors=%v", bi, evs[bi], res, tol*64, evs, vm)
			}
		}
		fc.c.End()
	})
}

func TestC05_svd(t *testing.T) {
	rapid.Check(t, func(t *rapid.T) {
		st := gen.DrawType(t, "elem", elemTypes)
		n := rapid.IntRange(1, 6).Draw(t, "cols")
		m := n + rapid.IntRange(0, 2).Draw(t, "extraRows")
		computeU := rapid.IntRange(0, 3).Draw(t, "computeU") > 0
		computeV := rapid.IntRange(0, 3).Draw(t, "computeV") > 0
		a, sv, kind := drawTall(t, m, n, true)
		fc := begin(t, "svd", st, a, fmt.Sprintf("%s computeU=%v computeV=%v planted singular values %v", kind, computeU, computeV, sv))
		fc.tol *= 16
		fc.c.Classf("input=%s", kind)
		fc.c.Classf("computeU=%v computeV=%v", computeU, computeV)
		fc.c.NT(n >= 3)
		am := gen.ToDense(st, a)
		ah := model.FromMatrix(am)
		var s, u, v Matrix
		var err error
		if !fc.run(func() { s, u, v, err = svd.Run(am, svd.ComputeU{Value: computeU}, svd.ComputeV{Value: computeV}) }) {
			return
		}
		if err != nil {
			fc.fail("error %v", err)
		}
		sm := model.FromMatrix(s)
		var got []float64
		for i := range sm {
			for j := range sm[i] {
				if i != j && math.Abs(sm[i][j]) > fc.tol {
					fc.fail("S(%d,%d)=%v off the diagonal", i, j, sm[i][j])
				}
				if i == j {
					if sm[i][j] < -fc.tol {
						fc.fail("S(%d,%d)=%v is negative", i, i, sm[i][j])
					}
					got = append(got, sm[i][j])
				}
			}
		}
		if sv != nil {
			want := append([]float64{}, sv...)
			sort.Float64s(want)
			sort.Float64s(got)
			for i := range want {
				if math.Abs(got[i]-want[i]) > fc.tol {
					fc.fail("singular values %v differ from the planted ones %v", got, want)
				}
			}
		}
		if computeU && computeV {
			um, vm := model.FromMatrix(u), model.FromMatrix(v)
			fc.orthogonal("U", um)
			fc.orthogonal("V", vm)
			fc.near("U*S*V' = A", um.Mul(sm).Mul(vm.T()), ah)
		}
		if d := model.FromMatrix(am).Sub(ah).MaxAbs(); d != 0 {
			fc.fail("the input matrix was modified")
		}
		fc.c.End()
	})
}

func TestC05_msqrt(t *testing.T) {
	rapid.Check(t, func(t *rapid.T) {
		st := gen.DrawType(t, "elem", elemTypes)
		n := rapid.IntRange(1, 6).Draw(t, "n")
		inv := rapid.Bool().Draw(t, "inverse")
		ls := gen.DrawLinSys(t, "A", n, "spd")
		fc := begin(t, "msqrt", st, ls.A, fmt.Sprintf("inverse=%v kappa=%g", inv, ls.Kappa))
		// the iterations stop when the squared Frobenius norm of the last step is <= 1e-8; with their
		// (at least linear) convergence the result is accurate to about the step size
		fc.tol = 1e-6 * (fro(ls.A) + 1) * ls.Kappa
		fc.c.Classf("inverse=%v", inv)
		fc.c.NT(n >= 2)
		am := gen.ToDense(st, ls.A)
		ah := model.FromMatrix(am)
		var x Matrix
		var err error
		ok := fc.run(func() {
			if inv {
				x, err = msqrtInv.Run(am)
			} else {
				x, err = msqrt.Run(am)
			}
		})
		if !ok {
			return
		}
		if err != nil {
			fc.fail("error %v", err)
		}
		xm := model.FromMatrix(x)
		if !xm.AllFinite() {
			fc.fail("result not finite: %v", xm)
		}
		if inv {
			fc.near("X*A*X = I", xm.Mul(ah).Mul(xm), model.Identity(n))
		} else {
			fc.near("X*X = A", xm.Mul(xm), ah)
		}
		if d := model.FromMatrix(am).Sub(ah).MaxAbs(); d != 0 {
			fc.fail("the input matrix was modified")
		}
		fc.c.End()
	})
}

// ---------------------------------------------------------------------------------------------
// witnesses

func TestKF_eigenvector_behind_complex_pair(t *testing.T) {
	a := NewDenseFloat64Matrix([]float64{0, 0.5, 0, -0.5, 0, 0.125, 0, 0, 0.25}, 3, 3)
	ev, evec, err := eigensystem.Run(a)
	bad := ""
	if err != nil {
		bad = err.Error()
	} else {
		am := model.FromMatrix(a)
		vm := model.FromMatrix(evec)
		evs := model.FromVector(ev)
		for i, l := range evs {
			if math.Abs(l-0.25) < 1e-9 {
				col := []float64{vm[0][i], vm[1][i], vm[2][i]}
				av := am.MulVec(col)
				for r := range av {
					if !(math.Abs(av[r]-l*col[r]) < 1e-8) {
						bad = fmt.Sprintf("eigenvalue 0.25: column %v is not an eigenvector (A v = %v)", col, av)
					}
				}
			}
		}
	}
	obs.KFStatus("C05/eigenvector-of-real-eigenvalue-behind-a-complex-pair", bad != "", bad)
}

func maxAbsDiff(a, b model.Mat) float64 { return a.Sub(b).MaxAbs() }

func TestKF_svd_reconstruction(t *testing.T) {
	a := NewDenseFloat64Matrix([]float64{1, 2, 0.5, 0.3, 1, 3, 0.7, 0.1, 2}, 3, 3)
	s, u, v, err := svd.Run(a, svd.ComputeU{Value: true}, svd.ComputeV{Value: true})
	bad := ""
	if err != nil {
		bad = err.Error()
	} else if r := maxAbsDiff(model.FromMatrix(u).Mul(model.FromMatrix(s)).Mul(model.FromMatrix(v).T()), model.FromMatrix(a)); !(r < 1e-10) {
		bad = fmt.Sprintf("|U*S*V'-A| = %g", r)
	}
	obs.KFStatus("C05/svd-left-rotations-on-untransposed-U", bad != "", bad)
}

func TestKF_bidiagonalization_V(t *testing.T) {
	a := NewDenseFloat64Matrix([]float64{1, 2, 0, 3, 2, 1, 0, 1, 0, 0, 2, 0, 3, 0, 0, 1}, 4, 4)
	b, u, v, err := householderBidiagonalization.Run(a, householderBidiagonalization.ComputeU{Value: true}, householderBidiagonalization.ComputeV{Value: true})
	bad := ""
	if err != nil {
		bad = err.Error()
	} else if r := maxAbsDiff(model.FromMatrix(u).T().Mul(model.FromMatrix(a)).Mul(model.FromMatrix(v)), model.FromMatrix(b)); !(r < 1e-10) {
		bad = fmt.Sprintf("|U'*A*V-B| = %g", r)
	}
	obs.KFStatus("C05/bidiagonalization-V-accumulated-from-the-left", bad != "", bad)
}

func TestKF_tridiagonalization_sign(t *testing.T) {
	a := NewDenseFloat64Matrix([]float64{1, -2, 0, -2, 3, 0, 0, 0, 1}, 3, 3)
	b, u, err := householderTridiagonalization.Run(a, householderTridiagonalization.ComputeU{Value: true})
	bad := ""
	if err != nil {
		bad = err.Error()
	} else if r := maxAbsDiff(model.FromMatrix(u).T().Mul(model.FromMatrix(a)).Mul(model.FromMatrix(u)), model.FromMatrix(b)); !(r < 1e-10) {
		bad = fmt.Sprintf("|U'*A*U-T| = %g", r)
	}
	obs.KFStatus("C05/tridiagonalization-sign-of-reduced-column", bad != "", bad)
}

func TestKF_svd_negative_singular_value(t *testing.T) {
	s, _, _, err := svd.Run(NewDenseFloat64Matrix([]float64{-0.25}, 1, 1))
	obs.KFStatus("C05/svd-negative-singular-value", err != nil || s.Float64At(0, 0) < 0, fmt.Sprintf("S=%v err=%v", s, err))
}

func TestKF_msqrt_overwrites_input(t *testing.T) {
	a := NewDenseFloat64Matrix([]float64{4, 1, 1, 3}, 2, 2)
	_, err := msqrt.Run(a)
	obs.KFStatus("C05/msqrt-overwrites-input", err != nil || a.Float64At(0, 0) != 4 || a.Float64At(1, 1) != 3, fmt.Sprintf("input afterwards %v err=%v", a, err))
}

func TestKF_qr_step_offdiagonal_blocks(t *testing.T) {
	// symmetric-dominant 6x6 with real eigenvalues (deterministic LCG)
	seed := uint64(12345)
	rnd := func() float64 {
		seed = seed*6364136223846793005 + 1442695040888963407
		return float64(int64(seed>>33)%2000-1000) / 1000
	}
	n := 6
	vals := make([]float64, n*n)
	for i := range vals {
		vals[i] = rnd()
	}
	a := NewDenseFloat64Matrix(vals, n, n)
	for i := 0; i < n; i++ {
		for j := 0; j < i; j++ {
			a.At(i, j).SetFloat64(a.Float64At(j, i) + 0.1*rnd())
		}
	}
	h, u, err := qrAlgorithm.Run(a, qrAlgorithm.ComputeU{Value: true}, qrAlgorithm.Epsilon{Value: 1.11e-16})
	bad := ""
	if err != nil {
		bad = err.Error()
	} else if r := maxAbsDiff(model.FromMatrix(u).Mul(model.FromMatrix(h)).Mul(model.FromMatrix(u).T()), model.FromMatrix(a)); !(r < 1e-10) {
		bad = fmt.Sprintf("|U*H*U'-A| = %g", r)
	}
	obs.KFStatus("C05/qr-step-skips-rows-of-H12", bad != "", bad)
}

func TestKF_eigensystem_permutation(t *testing.T) {
	// upper triangular matrices with the eigenvalues 1..4 in every diagonal order
	bad := ""
	perms := [][]float64{}
	var rec func(cur []float64, rest []float64)
	rec = func(cur, rest []float64) {
		if len(rest) == 0 {
			perms = append(perms, append([]float64{}, cur...))
			return
		}
		for k := range rest {
			r2 := append(append([]float64{}, rest[:k]...), rest[k+1:]...)
			rec(append(cur, rest[k]), r2)
		}
	}
	rec(nil, []float64{1, 2, 3, 4})
	for _, d := range perms {
		a := NewDenseFloat64Matrix([]float64{
			d[0], 0.5, 0.25, 0.125,
			0, d[1], 0.5, 0.25,
			0, 0, d[2], 0.5,
			0, 0, 0, d[3]}, 4, 4)
		var ev Vector
		var evec Matrix
		var err error
		if p, to := guarded(func() { ev, evec, err = eigensystem.Run(a) }); p != "" || to || err != nil {
			bad = fmt.Sprintf("diag %v: panic=%q timeout=%v err=%v", d, p, to, err)
			continue
		}
		am, vm, evs := model.FromMatrix(a), model.FromMatrix(evec), model.FromVector(ev)
		for i, l := range evs {
			col := []float64{vm[0][i], vm[1][i], vm[2][i], vm[3][i]}
			av := am.MulVec(col)
			for r := range av {
				if !(math.Abs(av[r]-l*col[r]) < 1e-8) {
					bad = fmt.Sprintf("diag %v: eigenvalue %v is not aligned with column %d (%v)", d, l, i, col)
				}
			}
		}
	}
	obs.KFStatus("C05/eigensystem-sort-applied-as-interchanges", bad != "", bad)
}

func TestKF_eigensystem_1x1(t *testing.T) {
	p, _ := guarded(func() { eigensystem.Run(NewDenseFloat64Matrix([]float64{2}, 1, 1)) })
	obs.KFStatus("C05/eigensystem-1x1-panics", p != "", p)
}

func TestKF_svd_rank_deficient_stalls(t *testing.T) {
	a := NewDenseFloat64Matrix([]float64{-0.8320518186308641, 1.9549534301461844, -0.688845421864278, 1.6184817942348677, -0.030645578236125792, 0.07200354226748763, 1.6328967272064285, -3.836584436747571}, 4, 2)
	done := make(chan error, 1)
	go func() {
		defer func() {
			if r := recover(); r != nil {
				done <- fmt.Errorf("panic: %v", r)
			}
		}()
		_, _, _, err := svd.Run(a)
		done <- err
	}()
	select {
	case err := <-done:
		obs.KFStatus("C05/svd-stalls-on-rank-deficient-matrices", err != nil, fmt.Sprint(err))
	case <-time.After(5 * time.Second):
		obs.KFStatus("C05/svd-stalls-on-rank-deficient-matrices", true, "no result within 5 s")
	}
}

func TestKF_francis_stall(t *testing.T) {
	a := NewDenseFloat64Matrix([]float64{
		1.0282257230951661, 0.016131514985360054, -0.27230887676711535, 0.02634566159494351, 0.1023078132927626, -0.00020699815283925418,
		0.016131514985360054, 1.0403883866143562, 0.017505284205601827, -0.3532667326845578, 0.0021970189548504594, -0.3160341291350081,
		-0.27230887676711535, 0.017505284205601827, 0.21175507080329317, 0.014649838434751218, -0.03387612236055227, -0.06490578757223413,
		0.02634566159494351, -0.3532667326845578, 0.014649838434751218, 0.5101551942989244, 0.015649909772370765, -0.3328115142161956,
		0.1023078132927626, 0.0021970189548504594, -0.03387612236055227, 0.015649909772370765, 0.2643528749557994, -0.02774182841006595,
		-0.00020699815283925418, -0.3160341291350081, -0.06490578757223413, -0.3328115142161956, -0.02774182841006595, 1.0701227502324613}, 6, 6)
	done := make(chan error, 1)
	go func() {
		defer func() {
			if r := recover(); r != nil {
				done <- fmt.Errorf("panic: %v", r)
			}
		}()
		_, _, err := eigensystem.Run(a, eigensystem.Symmetric{Value: true})
		done <- err
	}()
	select {
	case err := <-done:
		obs.KFStatus("C05/francis-iteration-stalls-on-some-matrices-with-repeated-eigenvalues", err != nil, fmt.Sprint(err))
	case <-time.After(5 * time.Second):
		obs.KFStatus("C05/francis-iteration-stalls-on-some-matrices-with-repeated-eigenvalues", true, "no result within 5 s")
	}
}

func eigStalls(vals []float64, n int) (bool, string) {
	a := NewDenseFloat64Matrix(vals, n, n)
	done := make(chan error, 1)
	go func() {
		defer func() {
			if r := recover(); r != nil {
				done <- fmt.Errorf("panic: %v", r)
			}
		}()
		_, _, err := eigensystem.Run(a, eigensystem.Symmetric{Value: true})
		done <- err
	}()
	select {
	case err := <-done:
		return err != nil, fmt.Sprint(err)
	case <-time.After(5 * time.Second):
		return true, "no result within 5 s"
	}
}

func TestKF_qr_repeated_pair(t *testing.T) {
	bad, why := eigStalls([]float64{3.3748125062499166, 0.01814396135487705, 0.0036323728139712923, 0.003019629380069506, 0.01814396135487705, 1.9127601229048152, -1.218649235919977, -1.0130758116648262, 0.0036323728139712923, -1.218649235919977, 7.756029663658165, -0.20281508347646904, 0.003019629380069506, -1.0130758116648262, -0.20281508347646904, 7.8313977071871035}, 4)
	obs.KFStatus("C05/qr-2x2-block-with-coinciding-eigenvalues-never-reduces", bad, why)
}

func TestKF_qr_triple_eigenvalue(t *testing.T) {
	bad, why := eigStalls([]float64{4.585036969770679, -0.11081697422556466, 0, 0.8476307753367267, -0.0705895204241806, -0.11081697422556466, 4.5750134041499075, 0, 0.5003932514761829, -0.7183445476789435, 0, 0, 0.125, 0, 0, 0.8476307753367267, 0.5003932514761829, 0, 0.3472343582918309, -0.09784916797545695, -0.0705895204241806, -0.7183445476789435, 0, -0.09784916797545695, 0.24271526778758343}, 5)
	obs.KFStatus("C05/qr-subdiagonal-stagnates-above-the-neighbour-relative-threshold", bad, why)
}
