// evalserver: line-oriented JSON bridge between the Python engine (Hypothesis + mpmath) and the
// library under test. One request per line on stdin, one answer per line on stdout. Floats cross
// the pipe as hexadecimal strings ("0x1.8p+01", "NaN", "+Inf", "-Inf") so nothing is lost.
package main

import (
	"bufio"
	"encoding/json"
	"fmt"
	"math"
	"os"
	"strconv"
	"strings"

	. "github.com/pbenner/autodiff"
	logarith "github.com/pbenner/autodiff/logarithmetic"
	"github.com/pbenner/autodiff/special"
	"github.com/pbenner/autodiff/statistics"
	"github.com/pbenner/autodiff/statistics/matrixDistribution"
	"github.com/pbenner/autodiff/statistics/scalarDistribution"
	"github.com/pbenner/autodiff/statistics/vectorDistribution"
)

type request struct {
	K          string          `json:"k"`
	Fn         string          `json:"fn"`
	Args       []string        `json:"args"`
	Ints       []int           `json:"ints"`
	Type       string          `json:"type"`
	Order      int             `json:"order"`
	Vars       []string        `json:"vars"`
	Prog       []instr         `json:"prog"`
	Family     string          `json:"family"`
	Params     []string        `json:"params"`
	Op         string          `json:"op"`
	X          []string        `json:"x"`
	Raw        json.RawMessage `json:"raw"`
	Other      []string        `json:"other"`
	Prior      bool            `json:"prior"`       // the variables hold derivatives of an earlier computation when activated
	PriorOrder int             `json:"prior_order"` // derivative order of that earlier computation (0: the same)
}

type instr struct {
	Op   string `json:"op"`
	Dst  int    `json:"dst"` // register written (receiver)
	A    int    `json:"a"`   // operand registers; -1: unused
	B    int    `json:"b"`
	C    int    `json:"c"`
	KA   string `json:"ka"` // operand kinds: "reg", "const" (ConstFloat64), "plain" (Float64 scalar)
	KB   string `json:"kb"`
	VA   string `json:"va"` // constant values (hex)
	VB   string `json:"vb"`
	Vec  []int  `json:"vec"` // registers forming a vector operand (reductions)
	Vec2 []int  `json:"vec2"`
	CC   bool   `json:"cc"` // use the concrete variant (ADD, MUL, ...) of the operation
}

func hex(x float64) string {
	switch {
	case math.IsNaN(x):
		return "NaN"
	case math.IsInf(x, 1):
		return "+Inf"
	case math.IsInf(x, -1):
		return "-Inf"
	}
	return strconv.FormatFloat(x, 'x', -1, 64)
}

func unhex(s string) float64 {
	switch s {
	case "NaN":
		return math.NaN()
	case "+Inf", "Inf":
		return math.Inf(1)
	case "-Inf":
		return math.Inf(-1)
	}
	v, err := strconv.ParseFloat(s, 64)
	if err != nil {
		panic("bad float " + s)
	}
	return v
}

func hexs(xs []float64) []string {
	r := make([]string, len(xs))
	for i, x := range xs {
		r[i] = hex(x)
	}
	return r
}

func unhexs(ss []string) []float64 {
	r := make([]float64, len(ss))
	for i, s := range ss {
		r[i] = unhex(s)
	}
	return r
}

func answer(req request) (resp map[string]interface{}) {
	defer func() {
		if r := recover(); r != nil {
			s := fmt.Sprint(r)
			if len(s) > 300 {
				s = s[:300]
			}
			resp = map[string]interface{}{"panic": s}
		}
	}()
	switch req.K {
	case "ping":
		return map[string]interface{}{"ok": true}
	case "special":
		return doSpecial(req)
	case "expr":
		return doExpr(req)
	case "dist":
		return doDist(req)
	case "vdist":
		return doVDist(req)
	}
	return map[string]interface{}{"err": "unknown request kind " + req.K}
}

func doSpecial(req request) map[string]interface{} {
	a := unhexs(req.Args)
	var r []float64
	switch req.Fn {
	case "BernoulliNumber":
		r = []float64{special.BernoulliNumber(req.Ints[0])}
	case "BesselI":
		r = []float64{special.BesselI(a[0], a[1])}
	case "LogBesselI":
		r = []float64{special.LogBesselI(a[0], a[1])}
	case "Digamma":
		r = []float64{special.Digamma(a[0])}
	case "Trigamma":
		r = []float64{special.Trigamma(a[0])}
	case "Polygamma":
		r = []float64{special.Polygamma(req.Ints[0], a[0])}
	case "LogErfc":
		r = []float64{special.LogErfc(a[0])}
	case "Erfcx":
		r = []float64{special.Erfcx(a[0])}
	case "Factorial":
		r = []float64{special.Factorial(req.Ints[0])}
	case "GammaUpper":
		r = []float64{special.GammaUpper(a[0], a[1])}
	case "GammaLower":
		r = []float64{special.GammaLower(a[0], a[1])}
	case "GammaP":
		r = []float64{special.GammaP(a[0], a[1])}
	case "GammaQ":
		r = []float64{special.GammaQ(a[0], a[1])}
	case "GammaPfirstDerivative":
		r = []float64{special.GammaPfirstDerivative(a[0], a[1])}
	case "GammaPsecondDerivative":
		r = []float64{special.GammaPsecondDerivative(a[0], a[1])}
	case "Mgamma":
		r = []float64{special.Mgamma(a[0], req.Ints[0])}
	case "Mlgamma":
		r = []float64{special.Mlgamma(a[0], req.Ints[0])}
	case "Zeta":
		r = []float64{special.Zeta(a[0])}
	case "LogAdd":
		r = []float64{logarith.LogAdd(a[0], a[1])}
	case "LogSub":
		r = []float64{logarith.LogSub(a[0], a[1])}
	case "SinPi":
		r = []float64{special.SinPi(a[0])}
	case "CosPi":
		r = []float64{special.CosPi(a[0])}
	case "Powm1":
		r = []float64{special.Powm1(a[0], a[1])}
	default:
		return map[string]interface{}{"err": "unknown special function " + req.Fn}
	}
	return map[string]interface{}{"r": hexs(r)}
}

// ---------------------------------------------------------------------------------------------
// expression programs (C01): registers hold scalars of the requested real type; the first
// len(vars) registers are the activated variables

func scalarType(name string) ScalarType {
	switch name {
	case "Real64":
		return Real64Type
	case "Real32":
		return Real32Type
	case "Float64":
		return Float64Type
	}
	panic("unknown scalar type " + name)
}

// evalProgram runs the register program on the given variables (registers 0..n-1, read only)
func evalProgram(t ScalarType, prog []instr, vars []ConstScalar) (ConstScalar, map[string]interface{}) {
	regs := []ConstScalar{}
	wregs := []Scalar{}
	for _, v := range vars {
		regs = append(regs, v)
		wregs = append(wregs, nil)
	}
	get := func(kind string, reg int, val string) ConstScalar {
		switch kind {
		case "const":
			return ConstFloat64(unhex(val))
		case "plain":
			return NewFloat64(unhex(val))
		}
		return regs[reg]
	}
	vecOf := func(idx []int) Vector {
		v := NullDenseVector(t, len(idx))
		for i, r := range idx {
			v.At(i).Set(regs[r])
		}
		return v
	}
	for _, in := range prog {
		for in.Dst >= len(regs) {
			w := NullScalar(t)
			regs = append(regs, w)
			wregs = append(wregs, w)
		}
		r := wregs[in.Dst]
		if r == nil {
			return nil, map[string]interface{}{"err": "program writes a variable"}
		}
		var a, b ConstScalar
		if in.KA != "" || in.A >= 0 {
			a = get(in.KA, in.A, in.VA)
		}
		if in.KB != "" || in.B >= 0 {
			b = get(in.KB, in.B, in.VB)
		}
		if in.CC {
			if !concrete(in.Op, r, a, b, NullScalar(t)) {
				return nil, map[string]interface{}{"err": "no concrete variant of " + in.Op}
			}
			continue
		}
		switch in.Op {
		case "Mlgamma":
			r.Mlgamma(a, int(unhex(in.VB)))
		case "GammaP":
			r.GammaP(unhex(in.VB), a)
		case "BesselI":
			r.BesselI(unhex(in.VB), a)
		case "LogBesselI":
			r.(interface {
				LogBesselI(float64, ConstScalar) Scalar
			}).LogBesselI(unhex(in.VB), a)
		case "Set":
			r.Set(a)
		case "Neg":
			r.Neg(a)
		case "Abs":
			r.Abs(a)
		case "Exp":
			r.Exp(a)
		case "Log":
			r.Log(a)
		case "Log1p":
			r.Log1p(a)
		case "Log1pExp":
			r.Log1pExp(a)
		case "Logistic":
			r.Logistic(a)
		case "Sigmoid":
			r.Sigmoid(a, NullScalar(t))
		case "Sqrt":
			r.Sqrt(a)
		case "Sin":
			r.Sin(a)
		case "Cos":
			r.Cos(a)
		case "Tan":
			r.Tan(a)
		case "Sinh":
			r.Sinh(a)
		case "Cosh":
			r.Cosh(a)
		case "Tanh":
			r.Tanh(a)
		case "Erf":
			r.Erf(a)
		case "Erfc":
			r.Erfc(a)
		case "LogErfc":
			r.LogErfc(a)
		case "Gamma":
			r.Gamma(a)
		case "Lgamma":
			r.Lgamma(a)
		case "Add":
			r.Add(a, b)
		case "Sub":
			r.Sub(a, b)
		case "Mul":
			r.Mul(a, b)
		case "Div":
			r.Div(a, b)
		case "Pow":
			r.Pow(a, b)
		case "Min":
			r.Min(a, b)
		case "Max":
			r.Max(a, b)
		case "LogAdd":
			r.LogAdd(a, b, NullScalar(t))
		case "LogSub":
			r.LogSub(a, b, NullScalar(t))
		case "VdotV":
			r.VdotV(vecOf(in.Vec), vecOf(in.Vec2))
		case "Vnorm":
			r.Vnorm(vecOf(in.Vec))
		case "Vmean":
			r.Vmean(vecOf(in.Vec))
		case "SmoothMax":
			r.SmoothMax(vecOf(in.Vec), ConstFloat64(unhex(in.VB)), [2]Scalar{NullScalar(t), NullScalar(t)})
		case "LogSmoothMax":
			r.LogSmoothMax(vecOf(in.Vec), ConstFloat64(unhex(in.VB)), [3]Scalar{NullScalar(t), NullScalar(t), NullScalar(t)})
		case "Mtrace":
			k := int(math.Sqrt(float64(len(in.Vec))))
			m := NullDenseMatrix(t, k, k)
			for i := 0; i < k; i++ {
				for j := 0; j < k; j++ {
					m.At(i, j).Set(regs[in.Vec[i*k+j]])
				}
			}
			r.Mtrace(m)
		default:
			return nil, map[string]interface{}{"err": "unknown op " + in.Op}
		}
	}
	out := regs[len(regs)-1]
	if len(prog) > 0 {
		out = regs[prog[len(prog)-1].Dst]
	}
	return out, nil
}

func doExpr(req request) map[string]interface{} {
	t := scalarType(req.Type)
	n := len(req.Vars)
	vars := make([]MagicScalar, n)
	regs := []ConstScalar{}
	for i, s := range req.Vars {
		vars[i] = NewScalar(t, unhex(s)).(MagicScalar)
		regs = append(regs, vars[i])
	}
	if req.Prior {
		// an in-place update x <- x*o (o = 1 with a derivative of its own) as an optimiser would do
		// it leaves derivatives in x; the value is unchanged
		po := req.PriorOrder
		if po == 0 {
			po = req.Order
		}
		for i := range vars {
			o := NewScalar(t, 1.0).(MagicScalar)
			if err := o.SetVariable((i+1)%n, n, po); err != nil {
				return map[string]interface{}{"err": err.Error()}
			}
			if err := vars[i].SetVariable(i, n, po); err != nil {
				return map[string]interface{}{"err": err.Error()}
			}
			vars[i].Mul(vars[i], o)
		}
	}
	if err := Variables(req.Order, vars...); err != nil {
		return map[string]interface{}{"err": err.Error()}
	}
	out, errm := evalProgram(t, req.Prog, regs)
	if errm != nil {
		return errm
	}
	res := map[string]interface{}{"v": hex(out.GetFloat64()), "order": out.GetOrder(), "n": out.GetN()}
	g := make([]float64, n)
	for i := 0; i < n && out.GetOrder() >= 1 && i < out.GetN(); i++ {
		g[i] = out.GetDerivative(i)
	}
	res["g"] = hexs(g)
	h := make([]float64, n*n)
	if out.GetOrder() >= 2 {
		for i := 0; i < n && i < out.GetN(); i++ {
			for j := 0; j < n && j < out.GetN(); j++ {
				h[i*n+j] = out.GetHessian(i, j)
			}
		}
	}
	res["h"] = hexs(h)
	res["helpers"] = helperCheck(t, req, out, g, h)
	return res
}

// the accessors GetGradient/CopyGradient/GetHessian/CopyHessian and Matrix.Jacobian/Hessian must report
// what GetDerivative/GetHessian of the result report
func helperCheck(t ScalarType, req request, out ConstScalar, g, h []float64) string {
	n := len(req.Vars)
	if out.GetN() != n || out.GetOrder() < 1 {
		return ""
	}
	same := func(a, b float64) bool { return a == b || (math.IsNaN(a) && math.IsNaN(b)) }
	conv := func(v float64) float64 { return NewScalar(t, v).GetFloat64() }
	gv := GetGradient(t, out)
	cv := NullDenseVector(t, n)
	if err := CopyGradient(cv, out); err != nil {
		return "CopyGradient: " + err.Error()
	}
	for i := 0; i < n; i++ {
		if !same(gv.At(i).GetFloat64(), conv(g[i])) || !same(cv.At(i).GetFloat64(), conv(g[i])) {
			return fmt.Sprintf("gradient entry %d: GetDerivative %v, GetGradient %v, CopyGradient %v", i, g[i], gv.At(i).GetFloat64(), cv.At(i).GetFloat64())
		}
	}
	x := NullDenseVector(t, n)
	for i, s := range req.Vars {
		x.At(i).SetFloat64(unhex(s))
	}
	xm, ok := x.(MagicVector)
	if !ok {
		return ""
	}
	var perr map[string]interface{}
	if out.GetOrder() >= 2 {
		hm := GetHessian(t, out)
		cm := NullDenseMatrix(t, n, n)
		if err := CopyHessian(cm, out); err != nil {
			return "CopyHessian: " + err.Error()
		}
		for i := 0; i < n; i++ {
			for j := 0; j < n; j++ {
				if !same(hm.At(i, j).GetFloat64(), conv(h[i*n+j])) || !same(cm.At(i, j).GetFloat64(), conv(h[i*n+j])) {
					return fmt.Sprintf("Hessian entry %d,%d: GetHessian(i,j) %v, GetHessian %v, CopyHessian %v", i, j, h[i*n+j], hm.At(i, j).GetFloat64(), cm.At(i, j).GetFloat64())
				}
			}
		}
		if !req.Prior {
			H := NullDenseMatrix(t, n, n)
			H.Hessian(func(v ConstVector) ConstScalar {
				vars := make([]ConstScalar, n)
				for i := range vars {
					vars[i] = v.ConstAt(i)
				}
				r, e := evalProgram(t, req.Prog, vars)
				if e != nil {
					perr = e
					return NullScalar(t)
				}
				return r
			}, xm)
			if perr != nil {
				return fmt.Sprint(perr)
			}
			for i := 0; i < n; i++ {
				for j := 0; j < n; j++ {
					if !same(H.At(i, j).GetFloat64(), conv(h[i*n+j])) {
						return fmt.Sprintf("Matrix.Hessian entry %d,%d is %v, the result's Hessian %v", i, j, H.At(i, j).GetFloat64(), h[i*n+j])
					}
				}
			}
		}
	}
	if !req.Prior {
		J := NullDenseMatrix(t, 1, n)
		J.Jacobian(func(v ConstVector) ConstVector {
			vars := make([]ConstScalar, n)
			for i := range vars {
				vars[i] = v.ConstAt(i)
			}
			r, e := evalProgram(t, req.Prog, vars)
			y := NullDenseVector(t, 1)
			if e != nil {
				perr = e
				return y
			}
			y.At(0).Set(r)
			return y
		}, xm)
		if perr != nil {
			return fmt.Sprint(perr)
		}
		for j := 0; j < n; j++ {
			if !same(J.At(0, j).GetFloat64(), conv(g[j])) {
				return fmt.Sprintf("Matrix.Jacobian entry %d is %v, the result's derivative %v", j, J.At(0, j).GetFloat64(), g[j])
			}
		}
	}
	return ""
}

// the concrete (statically typed) variants of the scalar operations
func concrete(op string, r_ Scalar, a_, b_ ConstScalar, t_ Scalar) bool {
	switch r := r_.(type) {
	case *Real64:
		a, _ := a_.(*Real64)
		b, _ := b_.(*Real64)
		t := t_.(*Real64)
		if a == nil || (b == nil && b_ != nil) {
			return false
		}
		switch op {
		case "Abs":
			r.ABS(a)
		case "Neg":
			r.NEG(a)
		case "Add":
			r.ADD(a, b)
		case "Sub":
			r.SUB(a, b)
		case "Mul":
			r.MUL(a, b)
		case "Div":
			r.DIV(a, b)
		case "LogAdd":
			r.LOGADD(a, b, t)
		case "LogSub":
			r.LOGSUB(a, b, t)
		case "Pow":
			r.POW(a, b)
		case "Sqrt":
			r.SQRT(a)
		case "Exp":
			r.EXP(a)
		case "Log":
			r.LOG(a)
		case "Log1p":
			r.LOG1P(a)
		default:
			return false
		}
		return true
	case *Real32:
		a, _ := a_.(*Real32)
		b, _ := b_.(*Real32)
		t := t_.(*Real32)
		if a == nil || (b == nil && b_ != nil) {
			return false
		}
		switch op {
		case "Abs":
			r.ABS(a)
		case "Neg":
			r.NEG(a)
		case "Add":
			r.ADD(a, b)
		case "Sub":
			r.SUB(a, b)
		case "Mul":
			r.MUL(a, b)
		case "Div":
			r.DIV(a, b)
		case "LogAdd":
			r.LOGADD(a, b, t)
		case "LogSub":
			r.LOGSUB(a, b, t)
		case "Pow":
			r.POW(a, b)
		case "Sqrt":
			r.SQRT(a)
		case "Exp":
			r.EXP(a)
		case "Log":
			r.LOG(a)
		case "Log1p":
			r.LOG1P(a)
		default:
			return false
		}
		return true
	}
	return false
}

// ---------------------------------------------------------------------------------------------
// distributions (C14)

func newParams(ptype string, p []float64) []Scalar {
	t := scalarType(ptype)
	r := make([]Scalar, len(p))
	for i, v := range p {
		r[i] = NewScalar(t, v)
	}
	return r
}

func construct(family, ptype string, p []float64) (statistics.ScalarPdf, error) {
	s := newParams(ptype, p)
	switch family {
	case "normal":
		return scalarDistribution.NewNormalDistribution(s[0], s[1])
	case "laplace":
		return scalarDistribution.NewLaplaceDistribution(s[0], s[1])
	case "pareto":
		return scalarDistribution.NewParetoDistribution(s[0], s[1])
	case "gpareto":
		return scalarDistribution.NewGParetoDistribution(s[0], s[1], s[2])
	case "gev":
		return scalarDistribution.NewGevDistribution(s[0], s[1], s[2])
	case "gamma":
		return scalarDistribution.NewGammaDistribution(s[0], s[1])
	case "beta":
		return scalarDistribution.NewBetaDistribution(s[0], s[1], false)
	case "beta(logscale)":
		return scalarDistribution.NewBetaDistribution(s[0], s[1], true)
	case "binomial":
		return scalarDistribution.NewBinomialDistribution(s[0], int(p[1]))
	case "negative binomial":
		return scalarDistribution.NewNegativeBinomialDistribution(s[0], s[1])
	case "poisson":
		return scalarDistribution.NewPoissonDistribution(s[0])
	case "geometric":
		return scalarDistribution.NewGeometricDistribution(s[0])
	case "cauchy":
		return scalarDistribution.NewCauchyDistribution(s[0], s[1])
	case "chi-squared":
		return scalarDistribution.NewChiSquaredDistribution(scalarType(ptype), p[0])
	case "exponential":
		return scalarDistribution.NewExponentialDistribution(s[0])
	case "generalized gamma":
		return scalarDistribution.NewGeneralizedGammaDistribution(s[0], s[1], s[2])
	case "power law":
		return scalarDistribution.NewPowerLawDistribution(s[0], s[1])
	case "categorical":
		v := NullDenseVector(scalarType(ptype), len(p))
		for i := range p {
			v.At(i).SetFloat64(p[i])
		}
		return scalarDistribution.NewCategoricalDistribution(v)
	}
	return nil, fmt.Errorf("unknown family %s", family)
}

func doDist(req request) map[string]interface{} {
	p := unhexs(req.Params)
	ptype := req.Type
	if ptype == "" {
		ptype = "Float64"
	}
	wrap := ""
	family := req.Family
	if i := strings.Index(family, ":"); i >= 0 {
		wrap, family = family[:i], family[i+1:]
	}
	d, err := construct(family, ptype, p)
	if err != nil {
		return map[string]interface{}{"rejected": err.Error()}
	}
	if d == nil {
		return map[string]interface{}{"err": "constructor returned nil without error"}
	}
	// args: [0] initial content of the result scalar, [1] constant of the wrapper; other: parameters of
	// a second object of the same family
	args := unhexs(req.Args)
	other := unhexs(req.Other)
	switch wrap {
	case "log":
		w, err := scalarDistribution.NewPdfLogTransform(d, args[1])
		if err != nil {
			return map[string]interface{}{"rejected": err.Error()}
		}
		d = w
	case "translate":
		w, err := scalarDistribution.NewPdfTranslation(d, args[1])
		if err != nil {
			return map[string]interface{}{"rejected": err.Error()}
		}
		d = w
	case "clone":
		d = d.CloneScalarPdf()
	case "set":
		// an object built with other parameters receives these parameters through SetParameters
		o, err := construct(family, ptype, other)
		if err != nil {
			return map[string]interface{}{"err": "second object rejected: " + err.Error()}
		}
		if err := o.SetParameters(d.GetParameters()); err != nil {
			return map[string]interface{}{"err": "SetParameters failed: " + err.Error()}
		}
		d = o
	case "cloneindep":
		// a clone that is given other parameters must leave the original alone
		c := d.CloneScalarPdf()
		o, err := construct(family, ptype, other)
		if err != nil {
			return map[string]interface{}{"err": "second object rejected: " + err.Error()}
		}
		if err := c.SetParameters(o.GetParameters()); err != nil {
			return map[string]interface{}{"err": "SetParameters failed: " + err.Error()}
		}
	case "setget":
		// parameters written back through SetParameters must give the same object
		if err := d.SetParameters(d.GetParameters()); err != nil {
			return map[string]interface{}{"err": "SetParameters(GetParameters()) failed: " + err.Error()}
		}
	}
	xs := unhexs(req.X)
	t := scalarType(ptype)
	out := make([]float64, len(xs))
	errs := ""
	for i, x := range xs {
		r := NullScalar(t)
		if len(args) > 0 {
			// the result scalar holds the outcome of an earlier computation
			r.SetFloat64(args[0])
		}
		var err error
		switch req.Op {
		case "logpdf":
			err = d.LogPdf(r, ConstFloat64(x))
		case "pdf":
			if q, ok := d.(interface {
				Pdf(Scalar, ConstScalar) error
			}); ok {
				err = q.Pdf(r, ConstFloat64(x))
			} else {
				return map[string]interface{}{"unsupported": "pdf"}
			}
		case "cdf":
			if q, ok := d.(interface {
				Cdf(Scalar, ConstScalar) error
			}); ok {
				err = q.Cdf(r, ConstFloat64(x))
			} else if q, ok := d.(interface{ Cdf(Scalar, Vector) error }); ok {
				err = q.Cdf(r, NewDenseFloat64Vector([]float64{x}))
			} else {
				return map[string]interface{}{"unsupported": "cdf"}
			}
		case "logcdf":
			if q, ok := d.(interface {
				LogCdf(Scalar, ConstScalar) error
			}); ok {
				err = q.LogCdf(r, ConstFloat64(x))
			} else if q, ok := d.(interface{ LogCdf(Scalar, Vector) error }); ok {
				err = q.LogCdf(r, NewDenseFloat64Vector([]float64{x}))
			} else {
				return map[string]interface{}{"unsupported": "logcdf"}
			}
		case "params":
			v := d.GetParameters()
			ps := make([]float64, v.Dim())
			for k := range ps {
				ps[k] = v.At(k).GetFloat64()
			}
			return map[string]interface{}{"r": hexs(ps)}
		default:
			return map[string]interface{}{"err": "unknown op " + req.Op}
		}
		if err != nil {
			errs = err.Error()
			out[i] = math.NaN()
			continue
		}
		out[i] = r.GetFloat64()
	}
	res := map[string]interface{}{"r": hexs(out)}
	if errs != "" {
		res["evalerr"] = errs
	}
	return res
}

// vector distributions and composed scalar densities (C14)
// family: vnormal | vt | iid:<family> | id:<f1>|<f2>.. | mix:<f1>|<f2>..  (ints: parameter counts of the parts)
func doVDist(req request) map[string]interface{} {
	p := unhexs(req.Params)
	ptype := req.Type
	if ptype == "" {
		ptype = "Float64"
	}
	t := scalarType(ptype)
	wrap := ""
	family := req.Family
	for _, w := range []string{"clone:", "setget:"} {
		if strings.HasPrefix(family, w) {
			wrap, family = w[:len(w)-1], family[len(w):]
		}
	}
	n := req.Order // dimension
	vec := func(v []float64) Vector {
		r := NullDenseVector(t, len(v))
		for i := range v {
			r.At(i).SetFloat64(v[i])
		}
		return r
	}
	mat := func(v []float64, n int) Matrix {
		r := NullDenseMatrix(t, n, n)
		for i := 0; i < n; i++ {
			for j := 0; j < n; j++ {
				r.At(i, j).SetFloat64(v[i*n+j])
			}
		}
		return r
	}
	parts := func(spec string, p []float64) ([]statistics.ScalarPdf, error) {
		names := strings.Split(spec, "|")
		r := make([]statistics.ScalarPdf, len(names))
		for i, name := range names {
			k := req.Ints[i]
			d, err := construct(name, ptype, p[:k])
			if err != nil {
				return nil, err
			}
			r[i] = d
			p = p[k:]
		}
		return r, nil
	}
	var vd statistics.VectorPdf
	var sd statistics.ScalarPdf
	var md statistics.MatrixPdf
	var err error
	switch {
	case family == "vnormal":
		vd, err = vectorDistribution.NewNormalDistribution(vec(p[:n]), mat(p[n:], n))
	case family == "vt":
		vd, err = vectorDistribution.NewTDistribution(NewScalar(t, p[0]), vec(p[1:1+n]), mat(p[1+n:], n))
	case family == "vskew":
		vd, err = vectorDistribution.NewSkewNormalDistribution(vec(p[:n]), mat(p[n:n+n*n], n), vec(p[n+n*n:2*n+n*n]), vec(p[2*n+n*n:]))
	case family == "miw":
		md, err = matrixDistribution.NewInverseWishartDistribution(NewScalar(t, p[0]), mat(p[1:], n))
	case strings.HasPrefix(family, "iid:"):
		var d statistics.ScalarPdf
		if d, err = construct(family[4:], ptype, p); err == nil {
			vd, err = vectorDistribution.NewScalarIid(d, n)
		}
	case strings.HasPrefix(family, "id:"):
		var ds []statistics.ScalarPdf
		if ds, err = parts(family[3:], p); err == nil {
			vd, err = vectorDistribution.NewScalarId(ds...)
		}
	case strings.HasPrefix(family, "mix:"):
		k := len(strings.Split(family[4:], "|"))
		var ds []statistics.ScalarPdf
		if ds, err = parts(family[4:], p[k:]); err == nil {
			sd, err = scalarDistribution.NewMixture(vec(p[:k]), ds)
		}
	default:
		return map[string]interface{}{"err": "unknown family " + family}
	}
	if err != nil {
		return map[string]interface{}{"rejected": err.Error()}
	}
	switch wrap {
	case "clone":
		if vd != nil {
			vd = vd.CloneVectorPdf()
		} else if md != nil {
			md = md.CloneMatrixPdf()
		} else {
			sd = sd.CloneScalarPdf()
		}
	case "setget":
		if vd != nil {
			err = vd.SetParameters(vd.GetParameters())
		} else if md != nil {
			err = md.SetParameters(md.GetParameters())
		} else {
			err = sd.SetParameters(sd.GetParameters())
		}
		if err != nil {
			return map[string]interface{}{"err": "SetParameters(GetParameters()) failed: " + err.Error()}
		}
	}
	args := unhexs(req.Args)
	xs := unhexs(req.X)
	dim := n
	if sd != nil {
		dim = 1
	}
	if md != nil {
		dim = n * n
	}
	out := make([]float64, 0, len(xs)/dim)
	errs := ""
	for i := 0; i+dim <= len(xs); i += dim {
		r := NullScalar(t)
		if len(args) > 0 {
			r.SetFloat64(args[0])
		}
		var err error
		if vd != nil {
			err = vd.LogPdf(r, NewDenseFloat64Vector(xs[i:i+dim]))
		} else if md != nil {
			err = md.LogPdf(r, NewDenseFloat64Matrix(xs[i:i+dim], n, n))
		} else {
			err = sd.LogPdf(r, ConstFloat64(xs[i]))
		}
		if err != nil {
			errs = err.Error()
			out = append(out, math.NaN())
			continue
		}
		out = append(out, r.GetFloat64())
	}
	res := map[string]interface{}{"r": hexs(out)}
	if errs != "" {
		res["evalerr"] = errs
	}
	return res
}

func main() {
	in := bufio.NewReaderSize(os.Stdin, 1<<20)
	out := bufio.NewWriter(os.Stdout)
	for {
		line, err := in.ReadBytes('\n')
		if len(line) > 0 {
			var req request
			var resp map[string]interface{}
			if e := json.Unmarshal(line, &req); e != nil {
				resp = map[string]interface{}{"err": "bad request: " + e.Error()}
			} else {
				resp = answer(req)
			}
			b, _ := json.Marshal(resp)
			out.Write(b)
			out.WriteByte('\n')
			out.Flush()
		}
		if err != nil {
			return
		}
	}
}
