module verifharness

go 1.23

require (
	github.com/pbenner/autodiff v0.0.0
	pgregory.net/rapid v1.3.0
)

require github.com/pbenner/threadpool v0.0.0-20191122191339-0302c226b91e

replace github.com/pbenner/autodiff => /repo
